#!/bin/sh
set -e
cd "$(dirname "$0")"
exec ./tools/build.sh
