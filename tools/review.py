#!/usr/bin/env python3
"""Review helper: lists undischarged, non-residue panic sites of a layer with their source line."""
import sys, os, json
sys.path.insert(0, os.path.dirname(os.path.dirname(os.path.abspath(__file__))))
from vlib import core, panicinv as PI, mir as M
from collections import Counter
LAYERS = json.load(open(os.path.join(core.VERIF, "tables", "layers.json")))
def main():
    layer = sys.argv[1]
    ctx = core.Ctx("quick")
    P = ctx.P
    roots = LAYERS[layer]["roots"]
    reach, inv = PI.inventory(P, roots)
    residue = PI.load_residue()
    counts = Counter()
    seen = Counter()
    print("layer %s: %d functions, %d sites" % (layer, len(reach), len(inv)))
    und = []
    for f, s in inv:
        if s.discharged:
            counts[s.discharged.split(":")[0]] += 1
            continue
        k = PI.site_key(P, f, s)
        seen[k] += 1
        row = residue.get(k)
        if row and seen[k] <= row.get("count", 1):
            counts["residue"] += 1
            continue
        und.append((f, s, k))
    print(dict(counts), "undischarged:", len(und))
    only = sys.argv[2] if len(sys.argv) > 2 else None
    for f, s, k in und:
        if only and only not in f.path:
            continue
        print("%s\n    %s:%d  %s" % (k, s.span["file"], s.span["line"], PI.source_line(ctx, s.span)[:140]))
main()
