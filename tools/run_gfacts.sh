#!/bin/sh
# usage: run_gfacts.sh <repo-dir> <out.json> [target-dir]
# Runs `cargo +nightly check` over <repo-dir> with the gfacts driver as workspace
# wrapper. The garden fingerprint is removed first so cargo cannot skip the wrapper.
set -e
REPO="$1"; OUT="$2"; TGT="${3:-/verif/.cache/target}"
HERE="$(cd "$(dirname "$0")" && pwd)"
DRV="$HERE/gfacts/target/release/gfacts"
[ -x "$DRV" ] || { echo "gfacts driver not built (run ./setup.sh)" >&2; exit 2; }
SYSROOT="$(rustc +nightly --print sysroot)"
rm -f "$OUT"
rm -rf "$TGT"/debug/.fingerprint/garden-lang-* 2>/dev/null || true
cd "$REPO"
LD_LIBRARY_PATH="$SYSROOT/lib" RUSTFLAGS="-Zmir-opt-level=0 -Awarnings" \
  RUSTC_WORKSPACE_WRAPPER="$DRV" GFACTS_OUT="$OUT" CARGO_TARGET_DIR="$TGT" \
  CARGO_NET_OFFLINE=true cargo +nightly check --offline --bin garden >"$OUT.log" 2>&1 || { tail -40 "$OUT.log" >&2; exit 3; }
[ -s "$OUT" ] || { echo "gfacts produced no fact file" >&2; tail -20 "$OUT.log" >&2; exit 4; }
