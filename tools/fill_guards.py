#!/usr/bin/env python3
"""Review-time helper (not part of any check): records, for every reviewed residue row, the guard fingerprints of the
sites it covers on the tree it was reviewed on. Run only after reading the rows; the check then reports a row whose
site has lost one of these conditions."""
import sys, os, json
sys.path.insert(0, os.path.dirname(os.path.dirname(os.path.abspath(__file__))))
from vlib import core, panicinv as PI
LAYERS = json.load(open(os.path.join(core.VERIF, "tables", "layers.json")))
ctx = core.Ctx("quick"); P = ctx.P
roots = sorted({r for l in LAYERS.values() for r in l["roots"]})
reach, inv = PI.inventory(P, roots)
path = os.path.join(core.VERIF, "tables", "residue.json")
doc = json.load(open(path)); rows = doc["rows"]
fps = {}
cens = {}
for f, s in inv:
    if s.discharged: continue
    k = PI.site_key(P, f, s)
    if k in rows:
        fps.setdefault(k, []).append(PI.guard_fingerprint(f, s.bb))
        cens[k] = PI.guard_census(f)
n = 0
for k, gs in fps.items():
    uniq = []
    for g in gs:
        if g not in uniq: uniq.append(g)
    rows[k]["guards"] = uniq; rows[k]["census"] = cens[k]; n += 1
json.dump(doc, open(path, "w"), indent=1, sort_keys=True)
print("recorded guard fingerprints for", n, "rows")
