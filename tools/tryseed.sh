#!/bin/sh
# usage: tryseed.sh <patch.diff> [ids...]  -- applies a seeded mutation to /repo, runs checks, reverts. Prints which checks fired.
P="$1"; shift
cd /repo || exit 2
git diff --quiet || { echo "repo has uncommitted changes"; exit 2; }
git apply "$P" || { echo "patch does not apply"; exit 2; }
trap 'git -C /repo checkout -- . ' EXIT
cd /verif
if [ $# -eq 0 ]; then set -- $(python3 -c "import json;print(' '.join(c['property_id'] for c in json.load(open('/verif/MANIFEST.json'))['checks']))"); fi
for id in "$@"; do
  out=$(./check $id 2>&1); rc=$?
  n=$(echo "$out" | grep -c '^VIOLATION')
  if [ $rc -ne 0 ]; then echo "$id: FIRED ($n violations)"; echo "$out" | grep -v '^VIOLATION' | grep "^$id: \[" | head -4 | cut -c1-260; else echo "$id: silent"; fi
done
