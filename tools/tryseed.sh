#!/bin/sh
# usage: tryseed.sh <patch.diff> [ids...]  -- applies a seeded mutation to a scratch worktree of /repo HEAD and runs checks on it
# through VERIF_REPO (evidence of /repo is not touched). Prints which checks fired.
P=$(readlink -f "$1"); shift
W=$(mktemp -d /tmp/ts-XXXXXX); rmdir $W
git -C /repo worktree add --detach $W HEAD >/dev/null 2>&1 || exit 2
trap 'git -C /repo worktree remove --force '$W' 2>/dev/null; rm -rf '$W EXIT
git -C $W apply "$P" || { echo "patch does not apply"; exit 2; }
cd /verif
if [ $# -eq 0 ]; then set -- $(python3 -c "import json;print(' '.join(c['property_id'] for c in json.load(open('/verif/MANIFEST.json'))['checks']))"); fi
for id in "$@"; do
  out=$(VERIF_REPO=$W ./check $id 2>&1); rc=$?
  n=$(echo "$out" | grep -c '^VIOLATION')
  if [ $rc -ne 0 ]; then echo "$id: FIRED ($n violations)"; echo "$out" | grep -v '^VIOLATION' | grep "^$id: \[" | head -4 | cut -c1-260; else echo "$id: silent"; fi
done
