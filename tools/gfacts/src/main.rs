// gfacts: rustc_private driver that dumps the optimized (mir-opt-level=0) MIR of
// every function/closure body of the `garden` crate as one JSON document.
//
// Used as RUSTC_WORKSPACE_WRAPPER: argv = [gfacts, <rustc>, rustc-args...].
// For crates other than the one named in $GFACTS_CRATE (default "garden") it
// behaves exactly like rustc. The JSON is written with a single write() to
// $GFACTS_OUT after analysis.
#![feature(rustc_private)]
#![allow(clippy::all)]

extern crate rustc_abi;
extern crate rustc_data_structures;
extern crate rustc_driver;
extern crate rustc_hir;
extern crate rustc_interface;
extern crate rustc_middle;
extern crate rustc_session;
extern crate rustc_span;

use rustc_driver::{Callbacks, Compilation};
use rustc_hir::def::DefKind;
use rustc_hir::def_id::{DefId, LOCAL_CRATE};
use rustc_middle::mir::{
    AggregateKind, AssertKind, BasicBlock, Body, BorrowKind, CastKind, Const, ConstValue, Local,
    Operand, Place, PlaceTy, ProjectionElem, Rvalue, StatementKind, TerminatorKind, UnwindAction,
    VarDebugInfoContents,
};
use rustc_middle::ty::print::with_no_trimmed_paths;
use rustc_middle::ty::{self, Instance, Ty, TyCtxt, TypingEnv};
use rustc_span::Span;
use std::fmt::Write as _;

// ---------------------------------------------------------------- tiny JSON
enum J {
    Null,
    B(bool),
    I(i128),
    S(String),
    A(Vec<J>),
    O(Vec<(&'static str, J)>),
}
fn js(s: impl Into<String>) -> J {
    J::S(s.into())
}
impl J {
    fn write(&self, out: &mut String) {
        match self {
            J::Null => out.push_str("null"),
            J::B(b) => out.push_str(if *b { "true" } else { "false" }),
            J::I(i) => {
                let _ = write!(out, "{}", i);
            }
            J::S(s) => {
                out.push('"');
                for c in s.chars() {
                    match c {
                        '"' => out.push_str("\\\""),
                        '\\' => out.push_str("\\\\"),
                        '\n' => out.push_str("\\n"),
                        '\r' => out.push_str("\\r"),
                        '\t' => out.push_str("\\t"),
                        c if (c as u32) < 0x20 => {
                            let _ = write!(out, "\\u{:04x}", c as u32);
                        }
                        c => out.push(c),
                    }
                }
                out.push('"');
            }
            J::A(v) => {
                out.push('[');
                for (i, x) in v.iter().enumerate() {
                    if i > 0 {
                        out.push(',');
                    }
                    x.write(out);
                }
                out.push(']');
            }
            J::O(v) => {
                out.push('{');
                for (i, (k, x)) in v.iter().enumerate() {
                    if i > 0 {
                        out.push(',');
                    }
                    out.push('"');
                    out.push_str(k);
                    out.push_str("\":");
                    x.write(out);
                }
                out.push('}');
            }
        }
    }
}

// ---------------------------------------------------------------- extractor
struct Cx<'tcx> {
    tcx: TyCtxt<'tcx>,
}

impl<'tcx> Cx<'tcx> {
    fn path(&self, d: DefId) -> String {
        with_no_trimmed_paths!(self.tcx.def_path_str(d))
    }
    fn tystr(&self, t: Ty<'tcx>) -> String {
        with_no_trimmed_paths!(format!("{}", t))
    }
    fn span(&self, sp: Span) -> J {
        let sm = self.tcx.sess.source_map();
        // the call-site location in user code (outermost expansion site)
        let outer = sp.source_callsite();
        let lo = sm.lookup_char_pos(outer.lo());
        let hi = sm.lookup_char_pos(outer.hi());
        let file = format!("{}", lo.file.name.prefer_local_unconditionally());
        let mut o = vec![
            ("file", js(file)),
            ("line", J::I(lo.line as i128)),
            ("col", J::I(lo.col.0 as i128)),
            ("eline", J::I(hi.line as i128)),
            ("ecol", J::I(hi.col.0 as i128)),
        ];
        if sp.from_expansion() {
            let ed = sp.ctxt().outer_expn_data();
            let mut names = vec![];
            // collect macro backtrace names innermost first
            for d in sp.macro_backtrace() {
                names.push(js(format!("{}", d.kind.descr())));
            }
            let _ = ed;
            o.push(("exp", J::A(names)));
        }
        J::O(o)
    }

    fn place(&self, body: &Body<'tcx>, p: &Place<'tcx>) -> J {
        let tcx = self.tcx;
        let mut pty = PlaceTy::from_ty(body.local_decls[p.local].ty);
        let mut proj = vec![];
        for elem in p.projection.iter() {
            let j = match elem {
                ProjectionElem::Deref => js("deref"),
                ProjectionElem::Field(f, _) => {
                    let mut name = format!("{}", f.index());
                    let mut adt = String::new();
                    match pty.ty.kind() {
                        ty::Adt(def, _) => {
                            let vi = pty.variant_index.unwrap_or(rustc_abi::FIRST_VARIANT);
                            if vi.index() < def.variants().len() {
                                let v = def.variant(vi);
                                if f.index() < v.fields.len() {
                                    name = v.fields[f].name.to_string();
                                }
                                adt = self.path(def.did());
                                if def.is_enum() {
                                    adt = format!("{}::{}", adt, v.name);
                                }
                            }
                        }
                        ty::Closure(d, _) => {
                            adt = format!("closure:{}", self.path(*d));
                            // upvar names
                            let ups: Vec<_> = tcx
                                .closure_captures(d.expect_local())
                                .iter()
                                .map(|c| c.to_string(tcx))
                                .collect();
                            if f.index() < ups.len() {
                                name = ups[f.index()].clone();
                            }
                        }
                        _ => {}
                    }
                    J::O(vec![("f", J::I(f.index() as i128)), ("name", js(name)), ("adt", js(adt))])
                }
                ProjectionElem::Index(l) => J::O(vec![("index", J::I(l.index() as i128))]),
                ProjectionElem::ConstantIndex { offset, min_length, from_end } => J::O(vec![
                    ("cindex", J::I(offset as i128)),
                    ("minlen", J::I(min_length as i128)),
                    ("from_end", J::B(from_end)),
                ]),
                ProjectionElem::Subslice { from, to, from_end } => J::O(vec![
                    ("subslice", J::I(from as i128)),
                    ("to", J::I(to as i128)),
                    ("from_end", J::B(from_end)),
                ]),
                ProjectionElem::Downcast(name, vi) => {
                    let n = match name {
                        Some(s) => s.to_string(),
                        None => format!("{}", vi.index()),
                    };
                    J::O(vec![("downcast", js(n))])
                }
                ProjectionElem::OpaqueCast(_) => js("opaque"),
                ProjectionElem::UnwrapUnsafeBinder(_) => js("unwrap_binder"),
            };
            proj.push(j);
            pty = pty.projection_ty(tcx, elem);
        }
        J::O(vec![("l", J::I(p.local.index() as i128)), ("p", J::A(proj))])
    }

    fn constant(&self, owner: DefId, c: &Const<'tcx>) -> J {
        let tcx = self.tcx;
        let ty = c.ty();
        let mut o = vec![("ty", js(self.tystr(ty)))];
        match ty.kind() {
            ty::FnDef(d, args) => {
                o.push(("fn", self.callee(owner, *d, args)));
                return J::O(o);
            }
            ty::Closure(d, _) => {
                o.push(("closure", js(self.path(*d))));
                return J::O(o);
            }
            _ => {}
        }
        let tenv = TypingEnv::post_analysis(tcx, owner);
        // scalars
        if ty.is_integral() || ty.is_bool() || ty.is_char() {
            if let Some(si) = c.try_eval_scalar_int(tcx, tenv) {
                let size = si.size();
                let v: i128 = if ty.is_signed() {
                    si.to_int(size)
                } else {
                    si.to_uint(size) as i128
                };
                if ty.is_bool() {
                    o.push(("v", J::B(v != 0)));
                } else {
                    o.push(("v", J::I(v)));
                }
                return J::O(o);
            }
        }
        // string literals
        if let ty::Ref(_, inner, _) = ty.kind() {
            if inner.is_str() {
                if let Const::Val(ConstValue::Slice { alloc_id, meta }, _) = c {
                    let alloc = tcx.global_alloc(*alloc_id).unwrap_memory();
                    let bytes = alloc
                        .inner()
                        .inspect_with_uninit_and_ptr_outside_interpreter(0..(*meta as usize));
                    o.push(("s", js(String::from_utf8_lossy(bytes).to_string())));
                    return J::O(o);
                }
            }
        }
        o.push(("text", js(with_no_trimmed_paths!(format!("{}", c)))));
        J::O(o)
    }

    fn callee(&self, owner: DefId, d: DefId, args: ty::GenericArgsRef<'tcx>) -> J {
        let tcx = self.tcx;
        let mut o = vec![
            ("path", js(self.path(d))),
            ("args", js(with_no_trimmed_paths!(format!("{:?}", args)))),
            ("local", J::B(d.is_local())),
        ];
        // the trait this is a method of, if any
        if let Some(t) = tcx.trait_of_assoc(d) {
            o.push(("trait", js(self.path(t))));
            o.push(("method", js(tcx.item_name(d).to_string())));
            if args.len() > 0 {
                if let Some(selfty) = args[0].as_type() {
                    o.push(("self_ty", js(self.tystr(selfty))));
                }
            }
        }
        let tenv = TypingEnv::post_analysis(tcx, owner);
        let resolved = std::panic::catch_unwind(std::panic::AssertUnwindSafe(|| {
            Instance::try_resolve(tcx, tenv, d, args)
        }));
        if let Ok(Ok(Some(inst))) = resolved {
            let rd = inst.def_id();
            o.push(("resolved", js(self.path(rd))));
            o.push(("rlocal", J::B(rd.is_local())));
            let kind = match inst.def {
                ty::InstanceKind::Item(_) => "item",
                ty::InstanceKind::Virtual(..) => "virtual",
                ty::InstanceKind::ClosureOnceShim { .. } => "closure_once_shim",
                ty::InstanceKind::FnPtrShim(..) => "fnptr_shim",
                ty::InstanceKind::DropGlue(..) => "drop_glue",
                ty::InstanceKind::CloneShim(..) => "clone_shim",
                ty::InstanceKind::Intrinsic(..) => "intrinsic",
                ty::InstanceKind::ReifyShim(..) => "reify_shim",
                _ => "other",
            };
            o.push(("kind", js(kind)));
        }
        J::O(o)
    }

    fn operand(&self, owner: DefId, body: &Body<'tcx>, op: &Operand<'tcx>) -> J {
        match op {
            Operand::Copy(p) => J::O(vec![("copy", self.place(body, p))]),
            Operand::Move(p) => J::O(vec![("move", self.place(body, p))]),
            Operand::Constant(c) => J::O(vec![("const", self.constant(owner, &c.const_))]),
            #[allow(unreachable_patterns)]
            _ => js("?"),
        }
    }

    fn rvalue(&self, owner: DefId, body: &Body<'tcx>, rv: &Rvalue<'tcx>) -> J {
        let tcx = self.tcx;
        match rv {
            Rvalue::Use(op, _) => J::O(vec![("k", js("use")), ("a", self.operand(owner, body, op))]),
            Rvalue::Repeat(op, _) => {
                J::O(vec![("k", js("repeat")), ("a", self.operand(owner, body, op))])
            }
            Rvalue::Ref(_, bk, p) => {
                let m = match bk {
                    BorrowKind::Shared => "shared",
                    BorrowKind::Fake(_) => "fake",
                    BorrowKind::Mut { .. } => "mut",
                };
                J::O(vec![("k", js("ref")), ("m", js(m)), ("place", self.place(body, p))])
            }
            Rvalue::ThreadLocalRef(d) => J::O(vec![("k", js("tls")), ("def", js(self.path(*d)))]),
            Rvalue::RawPtr(_, p) => J::O(vec![("k", js("rawptr")), ("place", self.place(body, p))]),
            Rvalue::Cast(kind, op, ty) => {
                let ks = match kind {
                    CastKind::Transmute => "transmute".to_string(),
                    k => format!("{:?}", k),
                };
                J::O(vec![
                    ("k", js("cast")),
                    ("ck", js(ks)),
                    ("a", self.operand(owner, body, op)),
                    ("ty", js(self.tystr(*ty))),
                ])
            }
            Rvalue::BinaryOp(op, ab) => J::O(vec![
                ("k", js("binop")),
                ("op", js(format!("{:?}", op))),
                ("a", self.operand(owner, body, &ab.0)),
                ("b", self.operand(owner, body, &ab.1)),
                ("aty", js(self.tystr(ab.0.ty(body, tcx)))),
            ]),
            Rvalue::UnaryOp(op, a) => J::O(vec![
                ("k", js("unop")),
                ("op", js(format!("{:?}", op))),
                ("a", self.operand(owner, body, a)),
                ("aty", js(self.tystr(a.ty(body, tcx)))),
            ]),
            Rvalue::Discriminant(p) => {
                let pty = p.ty(body, tcx).ty;
                let mut o = vec![
                    ("k", js("discr")),
                    ("place", self.place(body, p)),
                    ("ety", js(self.tystr(pty))),
                ];
                if let ty::Adt(def, _) = pty.kind() {
                    if def.is_enum() {
                        let mut vs = vec![];
                        for (vi, d) in def.discriminants(tcx) {
                            vs.push(J::A(vec![
                                J::I(d.val as i128),
                                js(def.variant(vi).name.to_string()),
                            ]));
                        }
                        o.push(("variants", J::A(vs)));
                    }
                }
                J::O(o)
            }
            Rvalue::Aggregate(kind, ops) => {
                let mut o = vec![("k", js("agg"))];
                match &**kind {
                    AggregateKind::Array(_) => o.push(("ak", js("array"))),
                    AggregateKind::Tuple => o.push(("ak", js("tuple"))),
                    AggregateKind::Adt(d, vi, _, _, _) => {
                        let def = tcx.adt_def(*d);
                        let v = def.variant(*vi);
                        o.push(("ak", js("adt")));
                        o.push(("adt", js(self.path(*d))));
                        o.push(("variant", js(v.name.to_string())));
                        o.push((
                            "fields",
                            J::A(v.fields.iter().map(|f| js(f.name.to_string())).collect()),
                        ));
                    }
                    AggregateKind::Closure(d, _) => {
                        o.push(("ak", js("closure")));
                        o.push(("def", js(self.path(*d))));
                    }
                    _ => o.push(("ak", js("other"))),
                }
                o.push(("ops", J::A(ops.iter().map(|x| self.operand(owner, body, x)).collect())));
                J::O(o)
            }
            Rvalue::CopyForDeref(p) => J::O(vec![
                ("k", js("use")),
                ("a", J::O(vec![("copy", self.place(body, p))])),
            ]),
            Rvalue::WrapUnsafeBinder(op, _) => {
                J::O(vec![("k", js("use")), ("a", self.operand(owner, body, op))])
            }
        }
    }

    fn unwind(&self, u: &UnwindAction) -> J {
        match u {
            UnwindAction::Cleanup(bb) => J::I(bb.index() as i128),
            _ => J::Null,
        }
    }

    fn body(&self, def: DefId, body: &Body<'tcx>) -> J {
        let tcx = self.tcx;
        let mut o: Vec<(&'static str, J)> = vec![];
        o.push(("path", js(self.path(def))));
        o.push(("kind", js(format!("{:?}", tcx.def_kind(def)))));
        o.push(("span", self.span(body.span)));
        if tcx.is_closure_like(def) {
            let mut p = tcx.parent(def);
            while tcx.is_closure_like(p) {
                p = tcx.parent(p);
            }
            o.push(("closure_of", js(self.path(p))));
            o.push(("closure_parent", js(self.path(tcx.parent(def)))));
        }
        // impl info
        if matches!(tcx.def_kind(def), DefKind::AssocFn) {
            let parent = tcx.parent(def);
            if matches!(tcx.def_kind(parent), DefKind::Impl { .. }) {
                let selfty = tcx.type_of(parent).instantiate_identity().skip_norm_wip();
                o.push(("impl_self", js(self.tystr(selfty))));
                if let Some(tr) = tcx.impl_opt_trait_ref(parent) {
                    let tr = tr.instantiate_identity().skip_norm_wip();
                    o.push(("impl_trait", js(self.path(tr.def_id))));
                }
            } else if matches!(tcx.def_kind(parent), DefKind::Trait) {
                o.push(("default_of_trait", js(self.path(parent))));
            }
            o.push(("name", js(tcx.item_name(def).to_string())));
        }
        o.push(("argc", J::I(body.arg_count as i128)));
        // locals
        let mut names: Vec<Option<String>> = vec![None; body.local_decls.len()];
        let mut dbg = vec![];
        for vdi in &body.var_debug_info {
            if let VarDebugInfoContents::Place(p) = &vdi.value {
                if p.projection.is_empty() {
                    names[p.local.index()] = Some(vdi.name.to_string());
                } else {
                    dbg.push(J::O(vec![
                        ("name", js(vdi.name.to_string())),
                        ("place", self.place(body, p)),
                    ]));
                }
            }
        }
        let mut locals = vec![];
        for (l, decl) in body.local_decls.iter_enumerated() {
            let mut lo = vec![("ty", js(self.tystr(decl.ty)))];
            if let Some(n) = &names[l.index()] {
                lo.push(("name", js(n.clone())));
            }
            locals.push(J::O(lo));
        }
        o.push(("locals", J::A(locals)));
        o.push(("dbg", J::A(dbg)));
        // blocks
        let mut blocks = vec![];
        for (_bb, data) in body.basic_blocks.iter_enumerated() {
            let mut stmts = vec![];
            for st in &data.statements {
                let j = match &st.kind {
                    StatementKind::Assign(b) => {
                        let (p, rv) = &**b;
                        Some(J::O(vec![
                            ("s", js("assign")),
                            ("place", self.place(body, p)),
                            ("rv", self.rvalue(def, body, rv)),
                            ("span", self.span(st.source_info.span)),
                        ]))
                    }
                    StatementKind::SetDiscriminant { place, variant_index } => Some(J::O(vec![
                        ("s", js("setdiscr")),
                        ("place", self.place(body, place)),
                        ("v", J::I(variant_index.index() as i128)),
                    ])),
                    StatementKind::StorageLive(l) => {
                        Some(J::O(vec![("s", js("live")), ("l", J::I(l.index() as i128))]))
                    }
                    StatementKind::StorageDead(l) => {
                        Some(J::O(vec![("s", js("dead")), ("l", J::I(l.index() as i128))]))
                    }
                    _ => None,
                };
                if let Some(j) = j {
                    stmts.push(j);
                }
            }
            let term = data.terminator();
            let tspan = self.span(term.source_info.span);
            let t = match &term.kind {
                TerminatorKind::Goto { target } => {
                    J::O(vec![("t", js("goto")), ("target", J::I(target.index() as i128))])
                }
                TerminatorKind::SwitchInt { discr, targets } => {
                    let mut ts = vec![];
                    for (v, bb) in targets.iter() {
                        ts.push(J::A(vec![J::I(v as i128), J::I(bb.index() as i128)]));
                    }
                    J::O(vec![
                        ("t", js("switch")),
                        ("discr", self.operand(def, body, discr)),
                        ("dty", js(self.tystr(discr.ty(body, tcx)))),
                        ("targets", J::A(ts)),
                        ("otherwise", J::I(targets.otherwise().index() as i128)),
                        ("span", tspan),
                    ])
                }
                TerminatorKind::UnwindResume => J::O(vec![("t", js("resume"))]),
                TerminatorKind::UnwindTerminate(_) => J::O(vec![("t", js("terminate"))]),
                TerminatorKind::Return => J::O(vec![("t", js("return")), ("span", tspan)]),
                TerminatorKind::Unreachable => J::O(vec![("t", js("unreachable"))]),
                TerminatorKind::Drop { place, target, unwind, .. } => J::O(vec![
                    ("t", js("drop")),
                    ("place", self.place(body, place)),
                    ("pty", js(self.tystr(place.ty(body, tcx).ty))),
                    ("target", J::I(target.index() as i128)),
                    ("unwind", self.unwind(unwind)),
                ]),
                TerminatorKind::Call { func, args, destination, target, unwind, fn_span, .. } => {
                    let mut co = vec![("t", js("call"))];
                    match func {
                        Operand::Constant(c) => match c.const_.ty().kind() {
                            ty::FnDef(d, ga) => co.push(("callee", self.callee(def, *d, ga))),
                            _ => co.push(("indirect", self.operand(def, body, func))),
                        },
                        _ => {
                            co.push(("indirect", self.operand(def, body, func)));
                            co.push(("fty", js(self.tystr(func.ty(body, tcx)))));
                        }
                    }
                    co.push((
                        "args",
                        J::A(args.iter().map(|a| self.operand(def, body, &a.node)).collect()),
                    ));
                    co.push((
                        "argtys",
                        J::A(args.iter().map(|a| js(self.tystr(a.node.ty(body, tcx)))).collect()),
                    ));
                    co.push(("dest", self.place(body, destination)));
                    co.push((
                        "target",
                        match target {
                            Some(b) => J::I(b.index() as i128),
                            None => J::Null,
                        },
                    ));
                    co.push(("unwind", self.unwind(unwind)));
                    co.push(("span", tspan));
                    co.push(("fn_span", self.span(*fn_span)));
                    J::O(co)
                }
                TerminatorKind::TailCall { .. } => J::O(vec![("t", js("tailcall"))]),
                TerminatorKind::Assert { cond, expected, msg, target, unwind } => {
                    let mut ao = vec![
                        ("t", js("assert")),
                        ("cond", self.operand(def, body, cond)),
                        ("expected", J::B(*expected)),
                        ("target", J::I(target.index() as i128)),
                        ("unwind", self.unwind(unwind)),
                        ("span", tspan),
                    ];
                    match &**msg {
                        AssertKind::BoundsCheck { len, index } => {
                            ao.push(("ak", js("BoundsCheck")));
                            ao.push(("len", self.operand(def, body, len)));
                            ao.push(("index", self.operand(def, body, index)));
                        }
                        AssertKind::Overflow(op, a, b) => {
                            ao.push(("ak", js("Overflow")));
                            ao.push(("op", js(format!("{:?}", op))));
                            ao.push(("a", self.operand(def, body, a)));
                            ao.push(("b", self.operand(def, body, b)));
                            ao.push(("aty", js(self.tystr(a.ty(body, tcx)))));
                        }
                        AssertKind::OverflowNeg(a) => {
                            ao.push(("ak", js("OverflowNeg")));
                            ao.push(("a", self.operand(def, body, a)));
                            ao.push(("aty", js(self.tystr(a.ty(body, tcx)))));
                        }
                        AssertKind::DivisionByZero(a) => {
                            ao.push(("ak", js("DivisionByZero")));
                            ao.push(("a", self.operand(def, body, a)));
                            ao.push(("aty", js(self.tystr(a.ty(body, tcx)))));
                        }
                        AssertKind::RemainderByZero(a) => {
                            ao.push(("ak", js("RemainderByZero")));
                            ao.push(("a", self.operand(def, body, a)));
                            ao.push(("aty", js(self.tystr(a.ty(body, tcx)))));
                        }
                        AssertKind::MisalignedPointerDereference { .. } => {
                            ao.push(("ak", js("Misaligned")))
                        }
                        AssertKind::NullPointerDereference => ao.push(("ak", js("NullPtr"))),
                        _ => ao.push(("ak", js("Other"))),
                    }
                    J::O(ao)
                }
                TerminatorKind::FalseEdge { real_target, .. } => {
                    J::O(vec![("t", js("goto")), ("target", J::I(real_target.index() as i128))])
                }
                TerminatorKind::FalseUnwind { real_target, .. } => {
                    J::O(vec![("t", js("goto")), ("target", J::I(real_target.index() as i128))])
                }
                _ => J::O(vec![("t", js("other"))]),
            };
            blocks.push(J::O(vec![
                ("cleanup", J::B(data.is_cleanup)),
                ("stmts", J::A(stmts)),
                ("term", t),
            ]));
        }
        o.push(("blocks", J::A(blocks)));
        J::O(o)
    }

    /// string / integer literals inside each promoted constant body of `def`
    fn promoted(&self, def: DefId) -> J {
        let tcx = self.tcx;
        let mut out = vec![];
        if let Some(ld) = def.as_local() {
            for body in tcx.promoted_mir(ld).iter() {
                let mut lits = vec![];
                for data in body.basic_blocks.iter() {
                    for st in &data.statements {
                        if let StatementKind::Assign(b) = &st.kind {
                            let mut ops: Vec<&Operand<'tcx>> = vec![];
                            match &b.1 {
                                Rvalue::Use(op, _) => ops.push(op),
                                Rvalue::Cast(_, op, _) => ops.push(op),
                                Rvalue::Aggregate(_, xs) => {
                                    for x in xs.iter() {
                                        ops.push(x)
                                    }
                                }
                                _ => {}
                            }
                            for op in ops {
                                if let Operand::Constant(c) = op {
                                    lits.push(self.constant(def, &c.const_));
                                }
                            }
                        }
                    }
                }
                out.push(J::A(lits));
            }
        }
        J::A(out)
    }
}

fn _unused(_: BasicBlock, _: Local) {}

struct Dump;

impl Callbacks for Dump {
    fn after_analysis<'tcx>(
        &mut self,
        _compiler: &rustc_interface::interface::Compiler,
        tcx: TyCtxt<'tcx>,
    ) -> Compilation {
        let out = match std::env::var("GFACTS_OUT") {
            Ok(p) => p,
            Err(_) => return Compilation::Continue,
        };
        let cx = Cx { tcx };
        let mut fns = vec![];
        for ldef in tcx.hir_body_owners() {
            let def = ldef.to_def_id();
            let kind = tcx.def_kind(def);
            let ok = matches!(kind, DefKind::Fn | DefKind::AssocFn | DefKind::Closure);
            if !ok {
                continue;
            }
            if tcx.is_constructor(def) {
                continue;
            }
            let body = tcx.optimized_mir(def);
            let mut j = cx.body(def, body);
            if let J::O(ref mut v) = j {
                v.push(("promoted", cx.promoted(def)));
            }
            fns.push(j);
        }
        // ADT tables: every local struct/enum with variants and field names/types
        let mut adts = vec![];
        for id in tcx.hir_free_items() {
            let def = id.owner_id.to_def_id();
            let kind = tcx.def_kind(def);
            if !matches!(kind, DefKind::Struct | DefKind::Enum) {
                continue;
            }
            let adt = tcx.adt_def(def);
            let mut vs = vec![];
            for v in adt.variants() {
                let mut fs = vec![];
                for f in v.fields.iter() {
                    let fty = tcx.type_of(f.did).instantiate_identity().skip_norm_wip();
                    fs.push(J::O(vec![
                        ("name", js(f.name.to_string())),
                        ("ty", js(cx.tystr(fty))),
                    ]));
                }
                vs.push(J::O(vec![("name", js(v.name.to_string())), ("fields", J::A(fs))]));
            }
            adts.push(J::O(vec![
                ("path", js(cx.path(def))),
                ("kind", js(format!("{:?}", kind))),
                ("variants", J::A(vs)),
                ("span", cx.span(tcx.def_span(def))),
            ]));
        }
        // trait impls (for class-hierarchy fallback)
        let mut impls = vec![];
        for id in tcx.hir_free_items() {
            let def = id.owner_id.to_def_id();
            if let DefKind::Impl { of_trait: true } = tcx.def_kind(def) {
                if let Some(tr) = tcx.impl_opt_trait_ref(def) {
                    let tr = tr.instantiate_identity().skip_norm_wip();
                    let selfty = tcx.type_of(def).instantiate_identity().skip_norm_wip();
                    let mut items = vec![];
                    for it in tcx.associated_items(def).in_definition_order() {
                        items.push(js(it.name().to_string()));
                    }
                    impls.push(J::O(vec![
                        ("trait", js(cx.path(tr.def_id))),
                        ("self_ty", js(cx.tystr(selfty))),
                        ("items", J::A(items)),
                    ]));
                }
            }
        }
        let doc = J::O(vec![
            ("crate", js(tcx.crate_name(LOCAL_CRATE).to_string())),
            ("functions", J::A(fns)),
            ("adts", J::A(adts)),
            ("impls", J::A(impls)),
        ]);
        let mut s = String::with_capacity(64 << 20);
        doc.write(&mut s);
        let tmp = format!("{}.tmp", out);
        std::fs::write(&tmp, s).expect("write facts");
        std::fs::rename(&tmp, &out).expect("rename facts");
        Compilation::Continue
    }
}

struct Nop;
impl Callbacks for Nop {}

fn main() {
    let mut args: Vec<String> = std::env::args().collect();
    // RUSTC_WORKSPACE_WRAPPER: argv[1] is the path of the real rustc; drop it
    if args.len() > 1 && (args[1].ends_with("rustc") || args[1].contains("/rustc")) {
        args.remove(1);
    }
    let want = std::env::var("GFACTS_CRATE").unwrap_or_else(|_| "garden".to_string());
    let mut is_target = false;
    let mut i = 0;
    while i < args.len() {
        if args[i] == "--crate-name" && i + 1 < args.len() && args[i + 1] == want {
            is_target = true;
        }
        i += 1;
    }
    if is_target {
        rustc_driver::run_compiler(&args, &mut Dump);
    } else {
        rustc_driver::run_compiler(&args, &mut Nop);
    }
}
