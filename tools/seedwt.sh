#!/bin/sh
# usage: seedwt.sh <ID> [suffix]  -- creates a scratch worktree of /repo HEAD for a mutation agent
set -e
ID="$1"; SUF="${2:-a}"
D=/tmp/seed/$ID$SUF
rm -rf "$D"; git -C /repo worktree prune
git -C /repo worktree add --detach "$D" HEAD >/dev/null 2>&1
cp -r /repo/target "$D/target" 2>/dev/null || true
python3 - "$ID" > "$D/PROPERTY.txt" <<'P'
import json,sys
for l in open('/verif/properties.jsonl'):
    d=json.loads(l)
    if d['id']==sys.argv[1]:
        print("Property %s: %s\n" % (d['id'], d['title']))
        print("Statement:\n%s\n" % d['statement'])
        print("Quantifier (what it must hold for):\n%s\n" % d['quantifier'])
        print("Why tests cannot settle it:\n%s\n" % d['why_tests_cant'])
        print("Code anchors:\n%s\n" % json.dumps(d['anchors'], indent=1))
P
echo "$D"
sed "s#@DIR@#$D#g" /verif/tools/seed_prompt.txt > "$D/TASK.md"
if [ "$SUF" != "a" ] && [ -f /tmp/avoid.json ]; then
  python3 - "$ID" "$D" <<'P'
import json,sys
av=json.load(open('/tmp/avoid.json')).get(sys.argv[1],"(none recorded)")
t=open('/verif/tools/seed_prompt_round2.txt').read().replace('@DIR@',sys.argv[2]).replace('@AVOID@',av)
open(sys.argv[2]+'/TASK.md','w').write(t)
P
fi
