#!/usr/bin/env python3
"""review-time tool: records, for every reviewed writer of the evaluator's stacks, the kinds of writes it performs today
(tables/valstack_writers.json "ops"). Never run by a check."""
import json, os, sys
sys.path.insert(0, os.path.join(os.path.dirname(__file__), ".."))
from vlib import core, mir as M, panics as PN, panicinv as PI
ctx = core.Ctx("quick")
P = ctx.P
path = os.path.join(core.VERIF, "tables", "valstack_writers.json")
doc = json.load(open(path))
ops = {}
for f in P.funcs.values():
    for bi, t in f.calls():
        if not t["args"]:
            continue
        n = PN.norm_path(M.callee_name(t) or "")
        for i, a in enumerate(t["args"]):
            r = f.root_of(a, through_named=True)
            if r[0] != "place":
                continue
            fp = f.field_path(r[1])
            if fp and fp[-1] in ("exprs_to_eval", "evalled_values"):
                mut = (i == 0 and n.endswith(PI._MUTATORS)) or "::mem::" in n or (i > 0 and "&mut" in ((t.get("argtys") or [""] * 9)[i]))
                if mut:
                    base = f.path.split("::{closure")[0]
                    if base in doc["writers"]:
                        ops.setdefault(base, set()).add("%s.%s" % (fp[-1], n.split("::")[-1]))
doc["ops"] = {k: sorted(v) for k, v in sorted(ops.items())}
json.dump(doc, open(path, "w"), indent=1)
print(json.dumps(doc["ops"], indent=1))
