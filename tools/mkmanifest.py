#!/usr/bin/env python3
"""Regenerates /verif/MANIFEST.json from the table below (single source of truth)."""
import json, os
HERE = os.path.dirname(os.path.dirname(os.path.abspath(__file__)))

NA = {
 "C05": "differential agreement with a reference interpreter on all core programs is a statement about computed values; no structural clause is a necessary condition short of re-implementing the semantics (static analysis does not apply).",
 "C11": "equality of values between incremental and batch histories depends on evaluator semantics, not on a code shape; nothing decidable from source short of executing programs.",
 "C16": "checker soundness w.r.t. runtime type errors is a theorem relating two 3000-line semantic functions; out of reach without a formalised semantics (the shared piece, is_subtype, is covered by C14).",
 "C17": "formatter preserving the syntax tree depends on offset/line arithmetic over arbitrary text; the named defect is an absent consideration, not a violated shape (panic sites of format are under C01).",
 "C18": "idempotence is a fixed point of a 9-phase text pipeline: a runtime quantity with no structural necessary condition.",
 "C20": "extract variable/function preserve behaviour: free-variable and insertion-point computations over all programs; value-level property.",
 "C22": "safety of --fix edits is a property of byte ranges computed at run time from positions.",
 "C32": "prelude functions are Garden source (__prelude.gdn), which none of the Rust-level analyses read; the Rust built-ins they call are inside C02.",
 "C33": "print/parse round trip of all syntax trees needs a printer and tree equality over generated inputs; parser-shape clauses are claimed under C01/C03 instead.",
}

# pid -> (technique, level text, level note, design ref)
CHECKS = {}


def chk(pid, technique, text, note, ref):
    CHECKS[pid] = (technique, text, note, ref)


chk("C24", "MIR dominance: effect-table calls dominated by enforce_sandbox false edge (interprocedural), config store dominance, who-may-write, no re-entry; REFUSE-FIRST (every path through a guarded built-in arm passes the sandbox test); allow-listed file read with re-checked refusal shape in check_snippet",
    "Every call into the std effect table reachable from eval::eval is shown to sit behind the false edge of an enforce_sandbox test on every CFG path and call chain; both sandbox entry points set the flag before any evaluation; a proof over code shape for all programs, not a sample of them.",
    "Trusted: rustc's MIR and callee resolution; the effect table (std::fs/process/net/stdin/Path probes); dependency internals are not walked. One accepted probe (source_file canonicalize) and one file read (check_snippet's import resolution, whose refusal shape under the sandbox is re-checked) are allow-listed with their reasons.",
    "DESIGN.md section 4 C24")

chk("C25", "MIR CFG: limit comparisons edge-dominate the step (edge-removal reachability), tick increment dominance, frame-push placement, config store dominance, blocking-call guards; thorough: loop and recursion inventory; no-panic inventory over the sandbox entry points; NATIVE-LOOPS (non-iterator and integer-range loops against a reviewed table) and RECURSION inventories; blocking table includes file reads; the allow-listed import read is excused only while read_src's regular-file guard keeps its shape",
    "Structural necessary conditions of the step budget proved for every path through the interpreter loop: no step without both limit checks, no frame push without a checked step, limits configured before evaluation, blocking calls guarded. Decides those clauses for all programs; does not bound the time of one native step.",
    "Trusted: rustc MIR; the blocking-API table. Deep value nesting inside one step is reported by the thorough tier as a known finding.",
    "DESIGN.md section 4 C25")

chk("C08", "MIR CFG must-pass-through: every non-step exit of the interpreter loop restores the popped expression; no-effect-before-check; flag consumed once; RE-ENTRY (Interrupted arms of the session front ends hand no &mut Env to anything); NAMESPACE-WRITERS shared with C10; the stack-writer rules of C02/C09 (nothing but reviewed writers touches pending entries and operands); ENTRY-INDEPENDENT (no branch inside the interpreter loop depends on a value computed before the loop); the flag rules accept a per-step helper under the same obligations",
    "For every path of eval::eval from the pop of (state, expr) to a return that skips the step, restore_stack_frame(pair, []) is on the path, nothing but the tick counter is written before the checks, and the interrupt flag is cleared only on the Interrupted edge; so the machine state at an interrupt equals the state before the step, for every step of every program.",
    "Trusted: rustc MIR. Decides the state-restoration clause; equality of printed output additionally assumes steps are deterministic.",
    "DESIGN.md section 4 C08")

chk("C26", "MIR CFG: exit(1) edge-dominated by failures>0 and reached unconditionally; sibling agreement of the two failure-count closures; per-iteration must-pass pop_to_toplevel and min=max=1 verdict rows; SELECTION-FILTER (test selection, in loop or iterator form, depends only on is-a-test and the -n filter); NO-SHARED-BUDGET (no run-wide tick/stack limit on the garden test path); ALL-FILES-LOADED (path count: main hands exactly one entry per listed file to run_tests_in_files)",
    "The exit-status clause and the per-test reset clause hold on every CFG path of run_tests_in_files and eval_tests; counts printed and counts deciding the exit status are computed by the same predicate over the same summary.",
    "Trusted: rustc MIR. Independence with respect to namespace-level state (definitions a test mutates) is not decided.",
    "DESIGN.md section 4 C26")

chk("C34", "MIR CFG: value hand-out edge-dominated by exported_syms.contains (run time and check time), filtered copy for unqualified imports, visibility bookkeeping per arm, cycle guard dominance, who-may-write; CYCLE-KEY-NORMAL (the cycle key derives from normalize()); a path is marked seen only on the way to loading it; FRAME-NAMESPACE (call frames take the namespace of the defining file); IMPORT-FILTER in loop and iterator form",
    "Both places that hand a member of an imported namespace to a program are proved to pass the visibility test on every path from the lookup hit; unqualified imports copy only tested members; exported_syms is maintained in one function with Public=>insert/CurrentFile=>remove; the recursive import load is behind the paths_seen test.",
    "Trusted: rustc MIR. Re-exports through chains of namespaces and type visibility are not decided.",
    "DESIGN.md section 4 C34")

chk("C30", "MIR dominance chain eval<drop<join<drain<done; interval path-count dataflow done==1 per handler/op arm with callee summaries; last-message and in-order-send shapes; ATOMIC-TAKE (one lock per flush, text taken out under it); FRESH-ID (session ids from a growing counter); ID-ECHO (raw id cloned into every response); FRAMING (exact-length reads); `done` messages counted through helper summaries; no-panic inventory over the nREPL threads",
    "Ordering clauses proved on every CFG path: the flusher is joined and both buffers drained before any `done` is built, each handler and each op arm yields exactly one `done` (min=max=1 over all paths), and it is the last element sent. Interleavings beyond join-before-final-drain are not decided.",
    "Trusted: rustc MIR; mpsc FIFO; single writer thread. Thread schedules are not explored (a static analysis cannot); worker panic-freedom is a separate obligation.",
    "DESIGN.md section 4 C30")

chk("C31", "MIR: reset-on-dequeue must-pass, interrupt addressing provenance (lookup key derives from request session id), who-sets-the-flag, WHO-CLEARS (only the dequeue reset, the evaluator's Interrupted edge and the watchdog may clear a flag), per-step load dominance",
    "Necessary conditions named by the property, each proved for all paths: flag cleared between dequeue and handler and never after; interrupt/close address exactly the named session; only four sites set a flag; evaluator loads it every step. Lost/leaked interrupts under specific interleavings are NOT decided.",
    "Trusted: rustc MIR. Schedules are out of reach of static analysis; these are necessary, not sufficient, conditions.",
    "DESIGN.md section 4 C31")

chk("C13", "syntax-table coverage: diagonal arms of `impl PartialEq for Value_` vs the enum's variants; same-field conjunction shape per arm; != is derived; operator dispatch agreement; identity field (runtime_type or type_name) compared for enum and struct values; CONTEXT-FREE-TYPE (MIR taint: frame type bindings do not flow into built values); DICT-TYPE-ORDER-FREE (a dict's hidden value type comes from a join, another dict or a fixed type); LIST-TYPE-FROM-ELEMENTS (operand provenance: a list built by adding an element never inherits the receiver's hidden element type)",
    "Coverage clauses the compiler cannot enforce because of the `_ => false` catch-all: every variant has its diagonal arm, each literal-syntax arm compares every value-carrying field of the two sides pairwise, and != is the negation on the same operands. A relation of that shape is an equivalence by induction on values; values are never computed.",
    "Trusted: syn parse of values.rs/eval.rs; std/rpds element-wise equality. NaN reflexivity is excluded by the property (finite floats). One known finding: `-0.0 == 0.0` is True although the two print differently (IEEE equality; recorded, not repaired).",
    "DESIGN.md section 4 C13")

chk("C10", "field-coverage: StackFrame fields (from the type) classified by a reviewed table; each state field reset by pop_to_toplevel on frame 0 on every path (MIR); Abort arm shapes; ABORT-CALLS unconditional (every path through the Command::Abort arm passes pop_to_toplevel); NAMESPACE-WRITERS (who may replace a frame's namespace); BLOCK-SCOPE-ORDER; initial lengths assumed by truncate(k); C06's block discipline rules",
    "Reset-coverage clause: every per-evaluation field of the surviving frame is reset by :abort's only mechanism on every path, frames above are dropped, the Abort arms never evaluate afterwards. A new collection field without classification fails closed.",
    "Trusted: rustc MIR/ADT layout facts; the field classification table (reviewed, one reason per field). Whether top-level locals of the failed input should survive is not decided.",
    "DESIGN.md section 4 C10")

chk("C14", "schema conformance: symbolic evaluation of is_subtype's match arms into first-match decision table + per-arm truth conditions with argument provenance (variance), compared with the preorder schema; FUN-TYPE-HONEST (the parameter types of the Fun type built for a lambda literal are the types bound for its parameters)",
    "is_subtype is shown to be an instance of a schema (top, bottom, componentwise with stated variance, nominal user types, equality on parameters, mixed constructors false) whose every instance is reflexive and transitive on well-formed error-free types; variance is read off the provenance of recursive-call arguments. A proof by schema, for all types, not an enumeration.",
    "Trusted: syn parse; the boolean-block evaluator's idiom set (fails closed outside it); the paper argument that the schema implies a preorder. Error types and ill-formed arities excluded as in the property.",
    "DESIGN.md section 4 C14")

chk("C15", "schema conformance: rows of unify matched against upper-bound rows of the C14 relation; fold shape of unify_all; MIR call-presence for the five combining constructs; JOIN-INPUT-COVER (every match arm's type reaches unify_all); FAIL-TOP (MIR dataflow: the type used when unification fails derives neither from the failure payload nor from an input); NO-PSEUDO-JOIN (no construct returns one of two branch types selected by is_subtype)",
    "Every Some(X) that unify can return is justified as an upper bound by a row of the subtype schema under the condition it is returned, unify_all is the left fold from bottom, and list/dict/if/try/match inference reach these functions. By induction the combined type is a supertype of every input, and equal inputs return themselves.",
    "Trusted: syn parse, rustc MIR call graph. How each caller uses a successful result (hover text) is not decided; what it substitutes on failure is (FAIL-TOP).",
    "DESIGN.md section 4 C15")

chk("C03", "table agreement (lexer operator constants / token->kind match / enum variants / evaluator dispatch and helper arms) + infix-loop shape of parse_expression (accumulator fold, rhs parser cannot absorb an operator, rotation idiom rejected); OPERAND-CLOSED (MIR CFG: every operand parser that calls parse_expression looks at the next token afterwards; statement forms are the reviewed exceptions); USED-FLAG-RECURSE (the value-usage pass visits every sub-expression field of every Expression_ variant); DONE-MEANS-VALUE (no path of eval_expr marks its expression done and schedules an unevaluated sub-expression; shared with C27); LAYOUT-FREE (who-may: only two reviewed parser functions branch on line numbers)",
    "The grouping structure is decided for chains of any length: a single loop folding BinaryOperator(acc, op, rhs) with an rhs parser that cannot consume a following operator yields left nesting by induction, with one precedence level; the four operator tables agree row by row. Values chains evaluate to are not computed.",
    "Trusted: syn parse. The shape is a sufficient condition; an equivalent but differently structured parser would be reported (fail closed).",
    "DESIGN.md section 4 C03")

chk("C04", "MIR assert inventory (no overflow/div assert on signed ints reachable from eval, interval table re-checked) + syntax op-table per operator arm, zero/negative guards, sibling agreement of += with + (operation and store), UPDATE-ORDER, operand order; ERROR-RESTORE (error exits of the arithmetic helpers hand back the popped operands in push order; shared with C07's symbolic sequence analysis); DUP-ORDER (operands an arm of eval_expr pops and pushes back keep their stack order)",
    "Necessary structural clauses for every operator arm and every signed arithmetic site reachable from the evaluator: documented Rust operation on (lhs, rhs), guards present, unrepresentable results raise, compound assignment agrees with the binary operator. Numerical results are taken from Rust's definitions, not computed.",
    "Trusted: rustc MIR (overflow checks on), syn parse, Rust's wrapping_*/checked_* semantics. One known finding: `x += e` reads x after evaluating e (differs from `x = x + e` when e assigns x).",
    "DESIGN.md section 4 C04")

chk("C06", "abstract simulation of MIR under fixed enum discriminants: owes-table of eval_expr (blocks popped per (variant, state)) vs blocks popped by eval_break/eval_continue per discarded or re-scheduled entry (conservation), stop-only-at-running-loop; PUSH-PAIRING (per-step conservation: blocks pushed - popped = owed by what the step schedules - owed by its entry, with helper summaries); RETURN-CLEARS (pending entries cleared and inner binding blocks dropped); CONSUME-NEXT-BLOCK (eval_block moves bindings_next_block out); BLOCK-SCOPE-ORDER; FRAME-COVER (shared with C10: pop_to_toplevel resets the surviving frame)",
    "The push/pop discipline of binding blocks is decided for every (Expression_ variant, state) entry and every path of the unwinding code: what an entry's own arm would pop is exactly what break/continue pop when they remove it, they stop only at the loop whose body runs, and return drops the whole frame. That discipline is what makes a block's variables invisible after any exit.",
    "Trusted: rustc MIR; the abstraction that an entry in a state that pops a block exists only while that block is pushed. Name-resolution results are not computed.",
    "DESIGN.md section 4 C06")

chk("C07", "symbolic sequence analysis over the syntax tree: values popped vs values handed to RestoreValues at each of ~150 error sites (reverse-equality), callee-pop summaries, inherited context at the two dispatchers; MIR: effect-before-error on eval_expr's fallible calls, Err-edge restore in eval::eval; EXIT-RESTORE (return value pushed back before every frame-exit error, through helpers); RESUME-ENTRY (loop-bypassing return only at top level); the restored value goes back into the frame it was popped from; the pop/restore walk substitutes local vector-builder helpers and models Vec::reverse",
    "For every error path of every step function the values pushed back are exactly the values popped, in reverse order, and no continuation stays scheduled when a helper fails; so re-running the failed step sees the same machine state. Decided per site for all programs; message text and side effects of re-running are not decided.",
    "Trusted: syn parse, rustc MIR; the walker's idiom set (vec! literals, pushes, for-loops over args, mirrored pop vectors, optional pop groups) - a construction outside it is reported, not assumed.",
    "DESIGN.md section 4 C07")

chk("C12", "table inverse check (escape/unescape match arms) + exact regular-language decision: product of the printed-literal DFA with STRING_RE's leftmost-first DFA (regex-automata), DFA inclusion for float/int text; NUMBER-PARSE (literal values come from std's parse on the `_`-stripped token text; numbers printed with std Display); UNIT-MIX (MIR unit dataflow: no char-sequence index derives from a byte offset, no str slice bound from a character count); PRINT-CONTEXT-FREE (no display arm branches on the printed text of a child value)",
    "Lexical clauses decided exactly for all strings: every literal escape_string_literal can print is read back by the lexer as exactly one token ending at its closing quote, whatever follows it, and unescape inverts escape row by row; printed finite floats and ints are whole number tokens. Not sampled; a failing tree yields a witness literal.",
    "Trusted: regex-automata's DFA (same engine family as the regex crate), syn parse, Rust's float Display shape. Compound values and parse->equal-value are not decided.",
    "DESIGN.md section 4 C12")

chk("C23", "regex newline-reachability by DFA search selects multi-line token kinds; syntax provenance rules for end line/column of their Position literals and for every byte-offset advance / slice bound in the lexer loop; field-shape of Position::merge and CheckDiagnostic export; POSITION-TRIPLE (each lexer Position literal: start from from_offset(start_offset), end from from_offset(end_offset) or start + one common length); POSITION-GROUP / POSITION-PAIRS (MIR, crate-wide: a position edited or assembled from other positions keeps offset, line and column of each end together); UNIT-MIX over the whole crate; UTF16-UNITS (shared with C29)",
    "Lexical clauses for all input texts: offsets advance only by character-boundary quantities, multi-line tokens take their end line/column from the end offset, merge pairs start fields with the first operand and end fields with the later end, exported line numbers are uniformly 1-based. Other position arithmetic is not decided.",
    "Trusted: syn parse, regex-automata DFA. Fix positions are covered as far as their field pairing goes (POSITION-GROUP/PAIRS); LSP conversions are under C29; the numerical value of computed offsets is not decided.",
    "DESIGN.md section 4 C23")

chk("C01", "MIR panic-site inventory over the front end's reachable functions with dominance/dataflow discharge rules and a reviewed residue table whose guards are re-checked; parser progress-assertion idiom rule; pop/unpop pairing typestate; LOOP-GUARD (token loops that can reach parse_symbol leave on no progress), D-PROGRESS, KEYWORD-GUARD; RECURSION-PROGRESS (every cycle of token-taking parser functions passes a call made after certain progress, or a reviewed edge whose guard is re-checked); residue rows may name establishing calls elsewhere (relies_on); guard fingerprints (comparisons canonicalised) and guard-call census on reviewed rows; thorough: NATIVE-LOOPS and RECURSION inventories",
    "Every panic-capable MIR operation (Assert terminators; unwrap/expect/panic!/unreachable!/assert!; indexing, slicing, RefCell borrows and the panicking-API table) in the functions reachable from the lexer, parser, checker and formatter entry points is enumerated; each is discharged by a small static proof (dominating length/arity/peek test, unsigned-add assumption, regex literal compiles, guard live ranges for RefCell) or by a reviewed row naming the guard it relies on; a new or unguarded site is reported with a call path. Decides the no-panic reading of C01 for all inputs; hangs and stack depth are only covered where listed.",
    "Trusted: rustc MIR and callee resolution (class-hierarchy fallback for unresolved trait calls); the panicking-API table stands in for dependency code; reviewed residue rows are human arguments (173 rows, each with its reason; named guards, guard fingerprints and the census of guard calls re-checked on every run; a row is re-found after a local is renamed only if its guards still hold). Known finding (thorough tier): stack depth on deeply nested syntax.",
    "DESIGN.md sections 3 and 4 C01")

chk("C02", "MIR panic-site inventory over everything reachable from eval::eval (D-ARITY for built-in argument indexing, D-FRAME who-may-shrink, D-BORROW guard live ranges + transitive borrow summaries, D-DISPATCH, D-SLICEORDER); who-may-write rule for the value/expression stacks (kinds of writes per reviewed writer; helpers split out of a writer inherit its review); BREAK-VALUE; USED-FLAG (shared with C03: operands are flagged used unconditionally and every sub-expression is visited); WHO-CALLS-EVAL / TOPLEVEL-REPLACE; guard fingerprints on reviewed rows; thorough: NATIVE-LOOPS and RECURSION",
    "As C01, over the 590 functions the evaluator can reach: decides for all programs that no reachable Rust panic site is left unargued. The value-stack pops are a reviewed class backed by the who-may-write rule VALSTACK-WRITERS.",
    "Trusted: as C01. D-VALSTACK assumes each scheduled sub-expression pushes exactly one value (not proved; the known finding `1 + continue` inside a for body is the recorded counterexample class). Drop-glue recursion on deeply nested values is outside MIR call facts.",
    "DESIGN.md sections 3 and 4 C02")

chk("C09", "MIR panic-site inventory over the JSON worker thread's reachable code; interval path-count dataflow (exactly one print_as_json per request path, callee summaries); worker-loop exit shape; SKIP-BALANCE and VALSTACK-WRITERS who-may-write rules; FRAMING-EXACT (payload read with read_exact); WHO-CALLS-EVAL / TOPLEVEL-REPLACE; FRAME-COVER (shared with C10); C08's restore rules; RESTORE-BALANCE (C07's symbolic pop/restore walk: as many values handed back as popped); READER-NEVER-BLOCKS (nothing the stdin thread calls can wait on the worker)",
    "A panic on the worker thread loses every later request, so the inventory of C01/C02 is taken from handle_request_in_worker / eval_worker / handle_request; RESPONSE-ONCE proves min=max=1 responses on every CFG path of the request handler (Interrupt answered by the reader thread).",
    "Trusted: as C01/C02. Content and order of responses are not decided; the stdin framing loop is out of scope.",
    "DESIGN.md section 4 C09")

chk("C28", "MIR panic-site inventory over lsp::run_lsp's reachable code; per-method region path-count (exactly one response iff an id is present, none for notifications); loop-exit shape; pipeline agreement with `garden check`; DOC-SYNC (stored and checked text = contentChanges.last().text, followed through a shared helper); DIAG-COMPLETE (one published diagnostic per item on every path of the conversion loops); ARM-SHAPE also covers arms selected by a non-equality predicate on the method; FRAME-LENGTH (unit dataflow: the Content-Length value is the byte length of the text written)",
    "Panic-freedom of every handler the server can run is decided as in C01; ARM-SHAPE decides on handle_message's CFG that each of the 12 request methods answers exactly once when an id is present and that notifications never answer; the server loop leaves only on end of input or `exit`.",
    "Trusted: as C01; serde serialisation of the server's own response types does not fail. Range conversion clauses are under C29; equality of diagnostics beyond the pipeline shape is not decided.",
    "DESIGN.md section 4 C28")

chk("C29", "MIR unit dataflow (bytes / chars / UTF-16 code units; call-site-to-parameter and return summaries inside lsp::): every LSP Position.character is a UTF-16 count, no comparison or sum mixes units; LINE-RELATIVE provenance of the column slice; EDIT-RANGE / ONE-TEXT (resolved operands, closure captures followed: the text positions are converted against is the text handed to the refactoring); LINE-BYTES (no byte offset from the lengths of lines() items); SAME-CORE (call graph: the LSP producer and main call the same core function)",
    "Structural necessary conditions of both halves of the property, each decided for all documents: columns the server sends are UTF-16 counts measured from the start of the line and the client's column is compared with a UTF-16 count; every TextEdit range comes from a text-taking converter applied to the same text the refactoring ran on; each LSP edit producer calls the function the command line calls. The offset<->position round trip and the edited text themselves are not computed.",
    "Trusted: rustc MIR; std's encode_utf16/len_utf16/char_indices; clients send UTF-16 positions. Line arithmetic (which line an offset is on, CRLF handling) and the refactorings' own output are not decided; one reviewed exception (garden_pos_to_lsp_range_no_src, never used for edits).",
    "DESIGN.md section 4 C29")

chk("C19", "MIR edge dominance and operand provenance: SELECT-BY-DEFINITION (the rename visitor records symbol.position only on the equal edge of the comparison between the definition position looked up under symbol.id and the target's); DEF-SOURCE (set_binding / LocalBindings::set store the symbol's own position for the same symbol; every use site stores, under the use's id, what LocalBindings::get of the use's own name returned; who-may-write id_to_def_pos); LOOKUP-INNERMOST (reversed block iteration); SCOPE-PAIRING (path-count dataflow: enter_block/exit_block balanced on every path of every type-checker function); APPLY-RANGE (splice loop writes the new name once per position, between start_offset and end_offset); SAME-CORE (call graph: LSP and command line share rename_positions; handle_rename converts with the text-taking converter); who-may-call: only set_binding puts a definition in scope",
    "Structural necessary conditions of 'exactly the occurrences of one variable', each decided on the code for all programs: occurrences are selected by definition identity, never by spelling; the definition-position table is filled from the scope lookup of the symbol's own name, innermost block first; block scopes are balanced; the splice touches exactly the recorded ranges; server and command line share the computation. Which definition the language's scope rules bind a use to on a given program, and the output of the renamed program, are not decided.",
    "Trusted: rustc MIR; the visitor reaches every symbol occurrence; the new name is fresh (given by the property). Was 'not applicable' in the plan; claimed for these clauses only.",
    "DESIGN.md section 4 C19")

chk("C21", "MIR operand provenance and region rules on the PreludeDbg arm of eval_built_in_call: DBG-IDENTITY (every push_value in the arm pushes a clone of arg_values[0]; at most one per path; no pop, no binding write), DBG-STDERR-ONLY (every output site of the arm is _eprint, a PrintedStderr response or the nREPL stderr buffer); WRAP-SPLICE (the slices in wrap_in_dbg are [..start_offset], [start_offset..end_offset], [end_offset..] of one position around the literal `dbg(`); SAME-CORE (call graph); ANNOTATION-OFFERED (annotation_src prints a type only outside its Error arm and on the false edge of is_no_value())",
    "Structural necessary conditions of the wrap-in-dbg half, plus one shape clause of the other half: `dbg(e)` evaluates to the value of `e`, its printing goes to standard error in every output mode, and the edit wraps exactly the selected expression's byte range. The add-type-annotation half and the equality of the two programs' outputs are not decided.",
    "Trusted: rustc MIR; `dbg` is bound to PreludeDbg; the call machinery evaluates a built-in's argument once (C02/C07). Was 'not applicable' in the plan; claimed for these clauses only.",
    "DESIGN.md section 4 C21")

chk("C27", "MIR dominance and operand provenance: STOP-AFTER-VALUE (the early return of the interpreter loop is dominated by the step, by the true edge of stop_at_expr_id == stepped expression id, and by the true edge of done_subexpressions(); the value is evalled_values.last()); OBSERVED-USED (set_observed_expr_value_used dominates every stop-id store, same id); INNERMOST (reversed walk of the ids at the offset); STOP-ID-SCOPED (every Some store to stop_at_expr_id in eval_up_to is followed by a None store on every path to a return); DONE-MEANS-VALUE; EVERY-ARM-COMPLETES (every arm of eval_expr, and every Ok path of the stepper helpers, marks the expression done or schedules it again); MARK-REACHES-ALL (MutVisitor::visit_expr_ descends into every expression-bearing variant)",
    "Structural necessary conditions of eval-up-to reporting the observed expression's own, completed value, decided on the code for all programs and positions. That the reported value equals the value of a plain run (argument reuse, loops, the for-in special case) and when an error is reported are not decided.",
    "Trusted: rustc MIR; find_item_at lists enclosing items outermost first. Was 'not applicable' in the plan; claimed for these clauses only.",
    "DESIGN.md section 4 C27")

ENGINES = [
 {"name": "gfacts", "path": "tools/gfacts", "kind_free_text": "rustc_private driver (nightly) dumping the type-checked MIR (CFG, resolved callees, asserts, places with field names) of every function of the garden crate as JSON; run as RUSTC_WORKSPACE_WRAPPER under cargo +nightly check on /repo's current tree"},
 {"name": "gshape", "path": "tools/gshape", "kind_free_text": "syn-2 syntax tree dumper (match arms, patterns, literals, struct initialisers) for table/shape rules"},
 {"name": "grex", "path": "tools/grex", "kind_free_text": "regex-syntax/regex-automata tool: compiles the lexer's regex constants to DFAs and decides language questions by automaton search"},
 {"name": "check", "path": "check", "kind_free_text": "Python orchestrator: hashes /repo sources, re-extracts facts when they changed, evaluates the rules (dominators, edge dominance, call graph, table agreement), subtracts exact-key known findings, writes evidence"},
]


def main():
    props = [json.loads(l) for l in open(os.path.join(HERE, "properties.jsonl"))]
    ids = [p["id"] for p in props]
    checks = []
    for pid in ids:
        if pid not in CHECKS:
            continue
        tech, text, note, ref = CHECKS[pid]
        checks.append({
            "property_id": pid,
            "quick_cmd": "./check %s --tier quick" % pid,
            "thorough_cmd": "./check %s --tier thorough" % pid,
            "evidence_file": "evidence/%s.json" % pid,
            "replay_cmd_template": "./check --explain {path}",
            "engine": "check",
            "level_claimed": {"category": "other", "text": text, "design_ref": ref},
            "level_note": note,
            "technique": tech,
        })
    na = []
    for pid in ids:
        if pid in CHECKS:
            continue
        reason = NA.get(pid, "not yet claimed: the static rule for this property is not built yet (see DESIGN.md section 4)")
        na.append({"property_id": pid, "reason": reason})
    man = {
        "version": 1,
        "setup_cmd": "./setup.sh",
        "hooks": {
            "guard": "wilfred_garden_verif",
            "enable": "no hooks are needed: the checks analyse /repo's source as compiled by `cargo +nightly check` (MIR) and parsed by syn; nothing in /repo is instrumented",
            "baseline_off_cmd": "cd /repo && (cargo nextest run --workspace --no-fail-fast --test-threads 8 --offline || cargo test --workspace --no-fail-fast --offline)",
            "source_commits": [],
            "add_only": True,
        },
        "engines": [dict(e, serves_properties=sorted(CHECKS)) for e in ENGINES],
        "checks": checks,
        "notes": "Static analysis only. Every check re-extracts MIR/syntax facts from /repo's working tree when its content hash changed. Genuine defects found are in known-findings.json (exact keys) or repaired by `fix:` commits in /repo.",
        "not_applicable": na,
    }
    with open(os.path.join(HERE, "MANIFEST.json"), "w") as fh:
        json.dump(man, fh, indent=1)
    print("MANIFEST.json: %d checks, %d not_applicable" % (len(checks), len(na)))


if __name__ == "__main__":
    main()
