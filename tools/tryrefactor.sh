#!/bin/sh
# usage: tryrefactor.sh <diff>...  -- applies each behaviour-preserving patch to a scratch worktree and runs every check (must stay silent)
for P in "$@"; do
  W=$(mktemp -d /tmp/rf-XXXXXX); rmdir $W
  git -C /repo worktree add --detach $W HEAD >/dev/null 2>&1
  if git -C $W apply "$P" 2>/dev/null; then
    out=$(cd /verif && VERIF_REPO=$W ./check --all 2>&1)
    bad=$(echo "$out" | grep -v "^KNOWN-FINDING" | grep -v ": OK " | grep -v "^\[facts\]" | grep -v "^note:")
    if [ -z "$bad" ]; then echo "$P: silent"; else echo "$P: ALARM"; echo "$bad" | grep -v "^VIOLATION" | cut -c1-300 | head -12; fi
  else echo "$P: does not apply"; fi
  git -C /repo worktree remove --force $W; rm -rf $W
done
