// gshape: parse Rust source files with syn and dump a compact JSON syntax tree.
// usage: gshape <out.json> <root-dir> <file.rs>...   (paths in output are relative to root-dir)
// Every node: {"k": kind, "sp": [line, col, eline, ecol], ...}. Columns are 0-based chars.
// Rules are evaluated over this tree by the Python orchestrator; nothing here is a verdict.
use proc_macro2::{Span, TokenStream, TokenTree};
use quote::ToTokens;
use std::fmt::Write as _;
use syn::parse::Parser;
use syn::punctuated::Punctuated;
use syn::spanned::Spanned;
use syn::*;

enum J {
    Null,
    B(bool),
    I(i64),
    S(String),
    A(Vec<J>),
    O(Vec<(&'static str, J)>),
}
fn js(s: impl Into<String>) -> J {
    J::S(s.into())
}
impl J {
    fn write(&self, out: &mut String) {
        match self {
            J::Null => out.push_str("null"),
            J::B(b) => out.push_str(if *b { "true" } else { "false" }),
            J::I(i) => {
                let _ = write!(out, "{}", i);
            }
            J::S(s) => {
                out.push('"');
                for c in s.chars() {
                    match c {
                        '"' => out.push_str("\\\""),
                        '\\' => out.push_str("\\\\"),
                        '\n' => out.push_str("\\n"),
                        '\r' => out.push_str("\\r"),
                        '\t' => out.push_str("\\t"),
                        c if (c as u32) < 0x20 => {
                            let _ = write!(out, "\\u{:04x}", c as u32);
                        }
                        c => out.push(c),
                    }
                }
                out.push('"');
            }
            J::A(v) => {
                out.push('[');
                for (i, x) in v.iter().enumerate() {
                    if i > 0 {
                        out.push(',');
                    }
                    x.write(out);
                }
                out.push(']');
            }
            J::O(v) => {
                out.push('{');
                for (i, (k, x)) in v.iter().enumerate() {
                    if i > 0 {
                        out.push(',');
                    }
                    out.push('"');
                    out.push_str(k);
                    out.push_str("\":");
                    x.write(out);
                }
                out.push('}');
            }
        }
    }
}

fn sp(s: Span) -> J {
    let a = s.start();
    let b = s.end();
    J::A(vec![
        J::I(a.line as i64),
        J::I(a.column as i64),
        J::I(b.line as i64),
        J::I(b.column as i64),
    ])
}
fn node(k: &'static str, s: Span, mut rest: Vec<(&'static str, J)>) -> J {
    let mut v = vec![("k", js(k)), ("sp", sp(s))];
    v.append(&mut rest);
    J::O(v)
}
fn txt<T: ToTokens>(t: &T) -> String {
    // normalised token text: single spaces between tokens, with a few joins undone
    let s = t.to_token_stream().to_string();
    s.replace(" :: ", "::")
        .replace(" , ", ", ")
        .replace("( ", "(")
        .replace(" )", ")")
        .replace(" (", "(")
        .replace("[ ", "[")
        .replace(" ]", "]")
        .replace("& ", "&")
        .replace(" . ", ".")
        .replace(" ;", ";")
        .replace(" ,", ",")
        .replace(" < ", "<")
        .replace(" >", ">")
}
fn opt(x: Option<J>) -> J {
    x.unwrap_or(J::Null)
}

fn attrs_cfg_test(attrs: &[Attribute]) -> bool {
    attrs.iter().any(|a| {
        let t = a.to_token_stream().to_string();
        t.contains("cfg") && t.contains("test")
    })
}

fn lit(l: &Lit) -> J {
    match l {
        Lit::Str(s) => node("LitStr", l.span(), vec![("v", js(s.value()))]),
        Lit::Char(c) => node("LitChar", l.span(), vec![("v", js(c.value().to_string()))]),
        Lit::Int(i) => node(
            "LitInt",
            l.span(),
            vec![("v", js(i.base10_digits().to_string())), ("suffix", js(i.suffix().to_string()))],
        ),
        Lit::Bool(b) => node("LitBool", l.span(), vec![("v", J::B(b.value))]),
        Lit::Float(f) => node("LitFloat", l.span(), vec![("v", js(f.base10_digits().to_string()))]),
        Lit::Byte(b) => node("LitByte", l.span(), vec![("v", J::I(b.value() as i64))]),
        Lit::ByteStr(_) => node("LitByteStr", l.span(), vec![("txt", js(txt(l)))]),
        _ => node("LitOther", l.span(), vec![("txt", js(txt(l)))]),
    }
}

fn path_str(p: &Path) -> String {
    // path without generic arguments
    let mut s = String::new();
    if p.leading_colon.is_some() {
        s.push_str("::");
    }
    for (i, seg) in p.segments.iter().enumerate() {
        if i > 0 {
            s.push_str("::");
        }
        s.push_str(&seg.ident.to_string());
    }
    s
}

fn pat(p: &Pat) -> J {
    let s = p.span();
    match p {
        Pat::Ident(i) => node(
            "PIdent",
            s,
            vec![
                ("name", js(i.ident.to_string())),
                ("by_ref", J::B(i.by_ref.is_some())),
                ("mut", J::B(i.mutability.is_some())),
                ("sub", opt(i.subpat.as_ref().map(|(_, p)| pat(p)))),
            ],
        ),
        Pat::Lit(l) => node("PLit", s, vec![("lit", lit(&l.lit))]),
        Pat::Or(o) => node("POr", s, vec![("cases", J::A(o.cases.iter().map(pat).collect()))]),
        Pat::Path(pp) => node("PPath", s, vec![("path", js(path_str(&pp.path)))]),
        Pat::Reference(r) => node("PRef", s, vec![("pat", pat(&r.pat))]),
        Pat::Rest(_) => node("PRest", s, vec![]),
        Pat::Slice(sl) => node("PSlice", s, vec![("elems", J::A(sl.elems.iter().map(pat).collect()))]),
        Pat::Struct(st) => node(
            "PStruct",
            s,
            vec![
                ("path", js(path_str(&st.path))),
                (
                    "fields",
                    J::A(
                        st.fields
                            .iter()
                            .map(|f| {
                                J::O(vec![
                                    ("name", js(f.member.to_token_stream().to_string())),
                                    ("pat", pat(&f.pat)),
                                ])
                            })
                            .collect(),
                    ),
                ),
                ("rest", J::B(st.rest.is_some())),
            ],
        ),
        Pat::Tuple(t) => node("PTuple", s, vec![("elems", J::A(t.elems.iter().map(pat).collect()))]),
        Pat::TupleStruct(t) => node(
            "PTupleStruct",
            s,
            vec![("path", js(path_str(&t.path))), ("elems", J::A(t.elems.iter().map(pat).collect()))],
        ),
        Pat::Wild(_) => node("PWild", s, vec![]),
        Pat::Paren(pp) => pat(&pp.pat),
        Pat::Type(t) => node("PType", s, vec![("pat", pat(&t.pat)), ("ty", js(txt(&t.ty)))]),
        Pat::Range(r) => node("PRange", s, vec![("txt", js(txt(r)))]),
        Pat::Macro(m) => node("PMacro", s, vec![("txt", js(txt(m)))]),
        _ => node("POther", s, vec![("txt", js(txt(p)))]),
    }
}

fn block(b: &Block) -> J {
    node("Block", b.span(), vec![("stmts", J::A(b.stmts.iter().map(stmt).collect()))])
}

fn stmt(st: &Stmt) -> J {
    match st {
        Stmt::Local(l) => {
            let (init, els) = match &l.init {
                Some(i) => (Some(expr(&i.expr)), i.diverge.as_ref().map(|(_, e)| expr(e))),
                None => (None, None),
            };
            node("Let", l.span(), vec![("pat", pat(&l.pat)), ("init", opt(init)), ("else", opt(els))])
        }
        Stmt::Item(i) => node("ItemStmt", i.span(), vec![("item", item(i))]),
        Stmt::Expr(e, semi) => {
            node("ExprStmt", e.span(), vec![("e", expr(e)), ("semi", J::B(semi.is_some()))])
        }
        Stmt::Macro(m) => node(
            "ExprStmt",
            m.span(),
            vec![("e", mac(&m.mac, m.span())), ("semi", J::B(m.semi_token.is_some()))],
        ),
    }
}

fn tokens_json(ts: TokenStream) -> J {
    let mut v = vec![];
    for t in ts {
        match t {
            TokenTree::Group(g) => v.push(J::O(vec![
                ("g", js(format!("{:?}", g.delimiter()))),
                ("ts", tokens_json(g.stream())),
            ])),
            TokenTree::Ident(i) => v.push(J::O(vec![("i", js(i.to_string()))])),
            TokenTree::Punct(p) => v.push(J::O(vec![("p", js(p.as_char().to_string()))])),
            TokenTree::Literal(l) => {
                let s = l.to_string();
                match syn::parse_str::<Lit>(&s) {
                    Ok(Lit::Str(ls)) => v.push(J::O(vec![("s", js(ls.value()))])),
                    Ok(Lit::Char(lc)) => v.push(J::O(vec![("c", js(lc.value().to_string()))])),
                    _ => v.push(J::O(vec![("l", js(s))])),
                }
            }
        }
    }
    J::A(v)
}

fn mac(m: &Macro, s: Span) -> J {
    let name = path_str(&m.path);
    let mut fields: Vec<(&'static str, J)> = vec![("name", js(name.clone()))];
    let short = name.rsplit("::").next().unwrap_or("").to_string();
    // matches!(expr, pat [if guard])
    if short == "matches" {
        let parser = |input: syn::parse::ParseStream| -> Result<(Expr, Pat, Option<Expr>)> {
            let e: Expr = input.parse()?;
            input.parse::<Token![,]>()?;
            let p = Pat::parse_multi_with_leading_vert(input)?;
            let g = if input.peek(Token![if]) {
                input.parse::<Token![if]>()?;
                Some(input.parse::<Expr>()?)
            } else {
                None
            };
            let _ = input.parse::<Option<Token![,]>>();
            Ok((e, p, g))
        };
        if let Ok((e, p, g)) = parser.parse2(m.tokens.clone()) {
            fields.push(("scrutinee", expr(&e)));
            fields.push(("pat", pat(&p)));
            fields.push(("guard", opt(g.as_ref().map(expr))));
            return node("Macro", s, fields);
        }
    }
    if short == "lazy_static" {
        // static ref NAME: Ty = expr; ...
        let parser = |input: syn::parse::ParseStream| -> Result<Vec<(String, String, Expr)>> {
            let mut v = vec![];
            while !input.is_empty() {
                let _ = input.call(Attribute::parse_outer)?;
                let _: Visibility = input.parse()?;
                input.parse::<Token![static]>()?;
                input.parse::<Token![ref]>()?;
                let id: Ident = input.parse()?;
                input.parse::<Token![:]>()?;
                let ty: Type = input.parse()?;
                input.parse::<Token![=]>()?;
                let e: Expr = input.parse()?;
                input.parse::<Token![;]>()?;
                v.push((id.to_string(), txt(&ty), e));
            }
            Ok(v)
        };
        if let Ok(v) = parser.parse2(m.tokens.clone()) {
            fields.push((
                "statics",
                J::A(
                    v.iter()
                        .map(|(n, t, e)| {
                            J::O(vec![("name", js(n.clone())), ("ty", js(t.clone())), ("init", expr(e))])
                        })
                        .collect(),
                ),
            ));
            return node("Macro", s, fields);
        }
    }
    // generic: comma separated expressions (vec!, format!, println!, assert!, msgtext!...)
    let parser = Punctuated::<Expr, Token![,]>::parse_terminated;
    if let Ok(p) = parser.parse2(m.tokens.clone()) {
        fields.push(("args", J::A(p.iter().map(expr).collect())));
    } else {
        // vec![x; n]
        let parser2 = |input: syn::parse::ParseStream| -> Result<(Expr, Expr)> {
            let a: Expr = input.parse()?;
            input.parse::<Token![;]>()?;
            let b: Expr = input.parse()?;
            Ok((a, b))
        };
        if let Ok((a, b)) = parser2.parse2(m.tokens.clone()) {
            fields.push(("repeat", J::A(vec![expr(&a), expr(&b)])));
        } else {
            fields.push(("tokens", tokens_json(m.tokens.clone())));
        }
    }
    node("Macro", s, fields)
}

fn expr(e: &Expr) -> J {
    let s = e.span();
    match e {
        Expr::Array(a) => node("Array", s, vec![("elems", J::A(a.elems.iter().map(expr).collect()))]),
        Expr::Assign(a) => node("Assign", s, vec![("l", expr(&a.left)), ("r", expr(&a.right))]),
        Expr::Binary(b) => node(
            "Binary",
            s,
            vec![("op", js(b.op.to_token_stream().to_string())), ("l", expr(&b.left)), ("r", expr(&b.right))],
        ),
        Expr::Block(b) => block(&b.block),
        Expr::Unsafe(b) => block(&b.block),
        Expr::Break(b) => node("Break", s, vec![("e", opt(b.expr.as_ref().map(|e| expr(e))))]),
        Expr::Continue(_) => node("Continue", s, vec![]),
        Expr::Call(c) => node(
            "Call",
            s,
            vec![("f", expr(&c.func)), ("args", J::A(c.args.iter().map(expr).collect()))],
        ),
        Expr::Cast(c) => node("Cast", s, vec![("e", expr(&c.expr)), ("ty", js(txt(&c.ty)))]),
        Expr::Closure(c) => node(
            "Closure",
            s,
            vec![("params", J::A(c.inputs.iter().map(pat).collect())), ("body", expr(&c.body))],
        ),
        Expr::Field(f) => node(
            "Field",
            s,
            vec![("e", expr(&f.base)), ("name", js(f.member.to_token_stream().to_string()))],
        ),
        Expr::ForLoop(f) => node(
            "For",
            s,
            vec![("pat", pat(&f.pat)), ("iter", expr(&f.expr)), ("body", block(&f.body))],
        ),
        Expr::If(i) => node(
            "If",
            s,
            vec![
                ("cond", expr(&i.cond)),
                ("then", block(&i.then_branch)),
                ("else", opt(i.else_branch.as_ref().map(|(_, e)| expr(e)))),
            ],
        ),
        Expr::Index(i) => node("Index", s, vec![("e", expr(&i.expr)), ("i", expr(&i.index))]),
        Expr::Let(l) => node("LetCond", s, vec![("pat", pat(&l.pat)), ("e", expr(&l.expr))]),
        Expr::Lit(l) => lit(&l.lit),
        Expr::Loop(l) => node("Loop", s, vec![("body", block(&l.body))]),
        Expr::Macro(m) => mac(&m.mac, s),
        Expr::Match(m) => node(
            "Match",
            s,
            vec![
                ("e", expr(&m.expr)),
                (
                    "arms",
                    J::A(
                        m.arms
                            .iter()
                            .map(|a| {
                                node(
                                    "Arm",
                                    a.span(),
                                    vec![
                                        ("pat", pat(&a.pat)),
                                        ("pat_txt", js(txt(&a.pat))),
                                        ("guard", opt(a.guard.as_ref().map(|(_, g)| expr(g)))),
                                        ("body", expr(&a.body)),
                                    ],
                                )
                            })
                            .collect(),
                    ),
                ),
            ],
        ),
        Expr::MethodCall(m) => node(
            "MethodCall",
            s,
            vec![
                ("recv", expr(&m.receiver)),
                ("method", js(m.method.to_string())),
                ("args", J::A(m.args.iter().map(expr).collect())),
            ],
        ),
        Expr::Paren(p) => expr(&p.expr),
        Expr::Group(p) => expr(&p.expr),
        Expr::Path(p) => node("Path", s, vec![("path", js(path_str(&p.path)))]),
        Expr::Range(r) => node(
            "Range",
            s,
            vec![
                ("lo", opt(r.start.as_ref().map(|e| expr(e)))),
                ("hi", opt(r.end.as_ref().map(|e| expr(e)))),
                ("inclusive", J::B(matches!(r.limits, RangeLimits::Closed(_)))),
            ],
        ),
        Expr::Reference(r) => {
            node("Ref", s, vec![("mut", J::B(r.mutability.is_some())), ("e", expr(&r.expr))])
        }
        Expr::Return(r) => node("Return", s, vec![("e", opt(r.expr.as_ref().map(|e| expr(e))))]),
        Expr::Struct(st) => node(
            "Struct",
            s,
            vec![
                ("path", js(path_str(&st.path))),
                (
                    "fields",
                    J::A(
                        st.fields
                            .iter()
                            .map(|f| {
                                J::O(vec![
                                    ("name", js(f.member.to_token_stream().to_string())),
                                    ("e", expr(&f.expr)),
                                ])
                            })
                            .collect(),
                    ),
                ),
                ("rest", opt(st.rest.as_ref().map(|e| expr(e)))),
            ],
        ),
        Expr::Try(t) => node("Try", s, vec![("e", expr(&t.expr))]),
        Expr::Tuple(t) => node("Tuple", s, vec![("elems", J::A(t.elems.iter().map(expr).collect()))]),
        Expr::Unary(u) => node(
            "Unary",
            s,
            vec![("op", js(u.op.to_token_stream().to_string())), ("e", expr(&u.expr))],
        ),
        Expr::While(w) => node("While", s, vec![("cond", expr(&w.cond)), ("body", block(&w.body))]),
        _ => node("Other", s, vec![("txt", js(txt(e)))]),
    }
}

fn sig(sg: &Signature) -> Vec<(&'static str, J)> {
    let mut params = vec![];
    for a in &sg.inputs {
        match a {
            FnArg::Receiver(r) => params.push(J::O(vec![("name", js("self")), ("ty", js(txt(r)))])),
            FnArg::Typed(t) => {
                params.push(J::O(vec![("name", js(txt(&t.pat))), ("ty", js(txt(&t.ty)))]))
            }
        }
    }
    let ret = match &sg.output {
        ReturnType::Default => String::new(),
        ReturnType::Type(_, t) => txt(t),
    };
    vec![("name", js(sg.ident.to_string())), ("params", J::A(params)), ("ret", js(ret))]
}

fn item(i: &Item) -> J {
    let s = i.span();
    match i {
        Item::Fn(f) => {
            let mut v = sig(&f.sig);
            v.push(("test", J::B(attrs_cfg_test(&f.attrs) || f.attrs.iter().any(|a| a.path().is_ident("test")))));
            v.push(("body", block(&f.block)));
            node("Fn", s, v)
        }
        Item::Impl(im) => {
            let mut items = vec![];
            for it in &im.items {
                match it {
                    ImplItem::Fn(f) => {
                        let mut v = sig(&f.sig);
                        v.push(("body", block(&f.block)));
                        items.push(node("Fn", f.span(), v));
                    }
                    ImplItem::Const(c) => items.push(node(
                        "Const",
                        c.span(),
                        vec![("name", js(c.ident.to_string())), ("init", expr(&c.expr))],
                    )),
                    _ => {}
                }
            }
            node(
                "Impl",
                s,
                vec![
                    ("self_ty", js(txt(&im.self_ty))),
                    ("trait", opt(im.trait_.as_ref().map(|(_, p, _)| js(path_str(p))))),
                    ("test", J::B(attrs_cfg_test(&im.attrs))),
                    ("items", J::A(items)),
                ],
            )
        }
        Item::Const(c) => node(
            "Const",
            s,
            vec![("name", js(c.ident.to_string())), ("ty", js(txt(&c.ty))), ("init", expr(&c.expr))],
        ),
        Item::Static(c) => node(
            "Static",
            s,
            vec![("name", js(c.ident.to_string())), ("ty", js(txt(&c.ty))), ("init", expr(&c.expr))],
        ),
        Item::Enum(e) => node(
            "Enum",
            s,
            vec![
                ("name", js(e.ident.to_string())),
                (
                    "variants",
                    J::A(
                        e.variants
                            .iter()
                            .map(|v| {
                                J::O(vec![
                                    ("name", js(v.ident.to_string())),
                                    (
                                        "fields",
                                        J::A(
                                            v.fields
                                                .iter()
                                                .map(|f| {
                                                    J::O(vec![
                                                        (
                                                            "name",
                                                            js(f.ident
                                                                .as_ref()
                                                                .map(|i| i.to_string())
                                                                .unwrap_or_default()),
                                                        ),
                                                        ("ty", js(txt(&f.ty))),
                                                    ])
                                                })
                                                .collect(),
                                        ),
                                    ),
                                ])
                            })
                            .collect(),
                    ),
                ),
            ],
        ),
        Item::Struct(st) => node(
            "StructDef",
            s,
            vec![
                ("name", js(st.ident.to_string())),
                (
                    "fields",
                    J::A(
                        st.fields
                            .iter()
                            .map(|f| {
                                J::O(vec![
                                    (
                                        "name",
                                        js(f.ident.as_ref().map(|i| i.to_string()).unwrap_or_default()),
                                    ),
                                    ("ty", js(txt(&f.ty))),
                                ])
                            })
                            .collect(),
                    ),
                ),
            ],
        ),
        Item::Mod(m) => {
            let items = match &m.content {
                Some((_, its)) => J::A(its.iter().map(item).collect()),
                None => J::Null,
            };
            node(
                "Mod",
                s,
                vec![
                    ("name", js(m.ident.to_string())),
                    ("test", J::B(attrs_cfg_test(&m.attrs))),
                    ("items", items),
                ],
            )
        }
        Item::Macro(m) => node("ItemMacro", s, vec![("mac", mac(&m.mac, s))]),
        Item::Trait(t) => {
            let mut items = vec![];
            for it in &t.items {
                if let TraitItem::Fn(f) = it {
                    let mut v = sig(&f.sig);
                    v.push(("body", opt(f.default.as_ref().map(block))));
                    items.push(node("Fn", f.span(), v));
                }
            }
            node("Trait", s, vec![("name", js(t.ident.to_string())), ("items", J::A(items))])
        }
        Item::Use(_) => node("Use", s, vec![]),
        _ => node("OtherItem", s, vec![]),
    }
}

fn main() {
    let args: Vec<String> = std::env::args().collect();
    if args.len() < 4 {
        eprintln!("usage: gshape <out.json> <root-dir> <file.rs>...");
        std::process::exit(2);
    }
    let out = &args[1];
    let root = std::path::Path::new(&args[2]);
    let mut files = vec![];
    for p in &args[3..] {
        let src = match std::fs::read_to_string(p) {
            Ok(s) => s,
            Err(e) => {
                eprintln!("gshape: cannot read {}: {}", p, e);
                std::process::exit(3);
            }
        };
        let rel = std::path::Path::new(p)
            .strip_prefix(root)
            .map(|x| x.to_string_lossy().to_string())
            .unwrap_or_else(|_| p.clone());
        match syn::parse_file(&src) {
            Ok(f) => files.push(J::O(vec![
                ("file", js(rel)),
                ("items", J::A(f.items.iter().map(item).collect())),
            ])),
            Err(e) => {
                eprintln!("gshape: parse error in {}: {}", p, e);
                std::process::exit(4);
            }
        }
    }
    let mut s = String::new();
    J::A(files).write(&mut s);
    std::fs::write(out, s).expect("write");
}
