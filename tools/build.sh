#!/bin/sh
# Builds the analysis tools offline. Called by /verif/setup.sh.
set -e
HERE="$(cd "$(dirname "$0")" && pwd)"
export CARGO_NET_OFFLINE=true
for t in gfacts gshape grex; do
  if [ -d "$HERE/$t" ]; then
    (cd "$HERE/$t" && cargo build --release --offline)
  fi
done
# warm the private target dir (dependency metadata) and produce the first fact file
mkdir -p "$HERE/../.cache"
"$HERE/run_gfacts.sh" /repo "$HERE/../.cache/warm.json" "$HERE/../.cache/target" && rm -f "$HERE/../.cache/warm.json" "$HERE/../.cache/warm.json.log"
