// grex: decide questions about the lexer's regex constants by automaton construction and graph
// search (no sampling). Uses the same engine family as the `regex` crate (regex-automata dense
// DFAs with leftmost-first match semantics), so token boundaries are those the lexer computes.
//
// stdin: one query per line, TAB separated:
//   compile   <R>            does R compile
//   newline   <R>            can a match of R (anchored at 0) contain '\n'
//   token     <E> <R>        for every s in L(E) and every continuation t, the leftmost-first match of R
//                            on s.t ends exactly at |s|
//   include   <P> <R>        for every s in L(P): R matches s.EOI with the match ending at |s| (P subset of R as tokens)
// stdout: one line per query: "ok <detail>" | "fail <detail with witness>" | "error <msg>"
use regex_automata::dfa::{dense, Automaton, StartKind};
use regex_automata::util::primitives::StateID;
use regex_automata::util::start;
use regex_automata::{Anchored, MatchKind};
use std::collections::{HashMap, VecDeque};
use std::io::{self, BufRead, Write};

type Dfa = dense::DFA<Vec<u32>>;

fn build(pat: &str) -> Result<Dfa, String> {
    dense::Builder::new()
        .configure(
            dense::Config::new()
                .match_kind(MatchKind::LeftmostFirst)
                .start_kind(StartKind::Anchored)
                .accelerate(false),
        )
        .build(pat)
        .map_err(|e| format!("{}", e))
}

fn start(d: &Dfa) -> Result<StateID, String> {
    d.start_state(&start::Config::new().anchored(Anchored::Yes))
        .map_err(|e| format!("{}", e))
}

fn show(bytes: &[u8]) -> String {
    let mut s = String::new();
    for &b in bytes {
        match b {
            b'\n' => s.push_str("\\n"),
            b'\t' => s.push_str("\\t"),
            0x20..=0x7e => s.push(b as char),
            _ => s.push_str(&format!("\\x{:02x}", b)),
        }
    }
    s
}

/// can an anchored match of R contain a newline byte?
fn q_newline(r: &Dfa) -> Result<String, String> {
    // states: (dfa state, seen_newline). A match "contains" the newline if a match state is entered
    // (match ends before the byte just consumed) after the newline was consumed at least one byte earlier,
    // or at EOI after the newline.
    let s0 = start(r)?;
    let mut seen: HashMap<(StateID, bool), Option<((StateID, bool), u8)>> = HashMap::new();
    let mut q = VecDeque::new();
    seen.insert((s0, false), None);
    q.push_back((s0, false));
    while let Some((st, nl)) = q.pop_front() {
        if r.is_dead_state(st) || r.is_quit_state(st) {
            continue;
        }
        if nl && r.is_match_state(r.next_eoi_state(st)) {
            return Ok(format!("fail match containing a newline: \"{}\"", show(&path(&seen, (st, nl)))));
        }
        for b in 0u16..=255 {
            let b = b as u8;
            let nx = r.next_state(st, b);
            if r.is_dead_state(nx) {
                continue;
            }
            // entering a match state after consuming b: the match ended before b
            if nl && r.is_match_state(nx) {
                return Ok(format!("fail match containing a newline: \"{}\"", show(&path(&seen, (st, nl)))));
            }
            let key = (nx, nl || b == b'\n');
            if !seen.contains_key(&key) {
                seen.insert(key, Some(((st, nl), b)));
                q.push_back(key);
            }
        }
    }
    Ok("ok no match of this pattern can contain a newline".to_string())
}

fn path<K: std::hash::Hash + Eq + Copy>(seen: &HashMap<K, Option<(K, u8)>>, mut k: K) -> Vec<u8> {
    let mut out = vec![];
    while let Some(Some((p, b))) = seen.get(&k) {
        out.push(*b);
        k = *p;
    }
    out.reverse();
    out
}

/// from state `st` of R (which has just consumed the first byte after s), is a later match reachable?
fn later_match(r: &Dfa, st: StateID) -> Option<Vec<u8>> {
    let mut seen: HashMap<StateID, Option<(StateID, u8)>> = HashMap::new();
    let mut q = VecDeque::new();
    seen.insert(st, None);
    q.push_back(st);
    while let Some(cur) = q.pop_front() {
        if r.is_dead_state(cur) || r.is_quit_state(cur) {
            continue;
        }
        if cur != st || true {
            // EOI after at least one more byte than the |s| boundary
            if r.is_match_state(r.next_eoi_state(cur)) {
                return Some(path(&seen, cur));
            }
        }
        for b in 0u16..=255 {
            let b = b as u8;
            let nx = r.next_state(cur, b);
            if r.is_dead_state(nx) {
                continue;
            }
            if r.is_match_state(nx) {
                let mut p = path(&seen, cur);
                p.push(b);
                return Some(p);
            }
            if !seen.contains_key(&nx) {
                seen.insert(nx, Some((cur, b)));
                q.push_back(nx);
            }
        }
    }
    None
}

fn q_token(e_pat: &str, r: &Dfa, only_eoi: bool) -> Result<String, String> {
    let e = build(&format!("^(?:{})\\z", e_pat))?;
    let e0 = start(&e)?;
    let r0 = start(r)?;
    let mut seen: HashMap<(StateID, StateID), Option<((StateID, StateID), u8)>> = HashMap::new();
    let mut q = VecDeque::new();
    seen.insert((e0, r0), None);
    q.push_back((e0, r0));
    let mut complete = 0usize;
    let mut states = 0usize;
    while let Some((qe, qr)) = q.pop_front() {
        states += 1;
        if e.is_dead_state(qe) {
            continue;
        }
        if e.is_match_state(e.next_eoi_state(qe)) {
            // s = path is a complete member of L(E); R is in state qr after consuming it
            complete += 1;
            let s = path(&seen, (qe, qr));
            if r.is_dead_state(qr) {
                return Ok(format!("fail R stops matching before the end of \"{}\"", show(&s)));
            }
            // (1) match ending exactly at |s| must be reported for EOI and for every next byte
            if !r.is_match_state(r.next_eoi_state(qr)) {
                return Ok(format!("fail R has no match ending at the end of \"{}\" (followed by end of input)", show(&s)));
            }
            if !only_eoi {
                for b in 0u16..=255 {
                    let b = b as u8;
                    let nx = r.next_state(qr, b);
                    if !r.is_match_state(nx) {
                        // no match ending at |s| when followed by b. If R is still alive it is inside a longer token.
                        if r.is_dead_state(nx) {
                            // dead without match: only acceptable for bytes that cannot start a char (continuation bytes)
                            if (0x80..=0xbf).contains(&b) || b >= 0xf8 {
                                continue;
                            }
                            return Ok(format!("fail after \"{}\" followed by byte {:?} R reports no match ending there", show(&s), show(&[b])));
                        }
                        // alive and no match at |s|: find how it ends
                        let ext = later_match(r, nx);
                        let mut t = vec![b];
                        if let Some(x) = ext {
                            t.extend(x);
                        }
                        return Ok(format!(
                            "fail the token for \"{}\" does not end there: followed by \"{}\" R keeps matching (longer token)",
                            show(&s),
                            show(&t)
                        ));
                    }
                    // (2) no later match
                    if let Some(ext) = later_match(r, nx) {
                        if !ext.is_empty() {
                            let mut t = vec![b];
                            t.extend(ext);
                            return Ok(format!(
                                "fail the token for \"{}\" extends: followed by \"{}\" R reports a longer match",
                                show(&s),
                                show(&t)
                            ));
                        }
                    }
                }
            }
        }
        for b in 0u16..=255 {
            let b = b as u8;
            let ne = e.next_state(qe, b);
            if e.is_dead_state(ne) {
                continue;
            }
            let nr = if r.is_dead_state(qr) { qr } else { r.next_state(qr, b) };
            let key = (ne, nr);
            if !seen.contains_key(&key) {
                seen.insert(key, Some(((qe, qr), b)));
                q.push_back(key);
            }
        }
    }
    if complete == 0 {
        return Ok("fail the source language is empty (vacuous)".to_string());
    }
    Ok(format!("ok product states={} accepting-prefix states={}", states, complete))
}

fn main() {
    let stdin = io::stdin();
    let out = io::stdout();
    let mut out = out.lock();
    for line in stdin.lock().lines() {
        let line = line.unwrap();
        let parts: Vec<&str> = line.split('\t').collect();
        let res = match parts.as_slice() {
            ["compile", r] => build(r).map(|d| format!("ok memory={}", d.memory_usage())),
            ["newline", r] => build(r).and_then(|d| q_newline(&d)),
            ["token", e, r] => build(r).and_then(|d| q_token(e, &d, false)),
            ["include", p, r] => build(r).and_then(|d| q_token(p, &d, true)),
            _ => Err("bad query".to_string()),
        };
        match res {
            Ok(s) => writeln!(out, "{}", s).unwrap(),
            Err(e) => writeln!(out, "error {}", e.replace('\n', " ")).unwrap(),
        }
    }
}
