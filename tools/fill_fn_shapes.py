#!/usr/bin/env python3
"""review-time tool: records the name-free shape hash of every function of /repo's current tree in tables/fn_shapes.json
(see vlib/fnrename.py). Never run by a check."""
import json, os, sys
sys.path.insert(0, os.path.join(os.path.dirname(__file__), ".."))
from vlib import facts as F, fnrename as FR
from vlib.core import VERIF
mirdoc, shape, hh, secs = F.load()
tbl = FR.build_table(mirdoc)
json.dump(tbl, open(os.path.join(VERIF, "tables", "fn_shapes.json"), "w"), indent=0, sort_keys=True)
print(len(tbl), "functions")
