#!/usr/bin/env python3
"""Dump all undischarged, non-residue panic sites reachable from any layer root (unique), grouped by function."""
import sys, os, json
sys.path.insert(0, os.path.dirname(os.path.dirname(os.path.abspath(__file__))))
from vlib import core, panicinv as PI, mir as M
from collections import Counter, defaultdict
LAYERS = json.load(open(os.path.join(core.VERIF, "tables", "layers.json")))
ctx = core.Ctx("quick"); P = ctx.P
roots = sorted({r for l in LAYERS.values() for r in l["roots"]})
reach, inv = PI.inventory(P, roots)
residue = PI.load_residue()
seen = Counter(); byfn = defaultdict(list); n = 0
for f, s in inv:
    if s.discharged: continue
    k = PI.site_key(P, f, s); seen[k] += 1
    row = residue.get(k)
    if row and seen[k] <= row.get("count", 1): continue
    byfn[f.path].append((s, k)); n += 1
print("functions reachable: %d, sites: %d, undischarged+unreviewed: %d in %d functions" % (len(reach), len(inv), n, len(byfn)))
for fn in sorted(byfn):
    print("## %s" % fn)
    for s, k in byfn[fn]:
        print("  %s\n      %s:%d  %s" % (k.split(" # ",1)[1], s.span["file"], s.span["line"], PI.source_line(ctx, s.span)[:150]))
