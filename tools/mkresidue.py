#!/usr/bin/env python3
"""One-off helper (not part of any check): merges triage results (/tmp/review/result_*.json, verdict == safe)
into tables/residue.json for sites that no discharge rule covers. Rows already present are kept."""
import sys, os, json, glob, re
sys.path.insert(0, os.path.dirname(os.path.dirname(os.path.abspath(__file__))))
from vlib import core, panicinv as PI, mir as M
from collections import Counter
LAYERS = json.load(open(os.path.join(core.VERIF, "tables", "layers.json")))
ctx = core.Ctx("quick"); P = ctx.P
roots = sorted({r for l in LAYERS.values() for r in l["roots"]})
reach, inv = PI.inventory(P, roots)
path = os.path.join(core.VERIF, "tables", "residue.json")
doc = json.load(open(path))
rows = doc["rows"]
verd = {}
for fn in glob.glob("/tmp/review/result_*.json"):
    for x in json.load(open(fn)):
        verd.setdefault(x["function"] + " # " + x["site"], []).append(x)
und = Counter(); sites = {}
for f, s in inv:
    if s.discharged: continue
    k = PI.site_key(P, f, s); und[k] += 1; sites[k] = (f, s)
added = 0; nomatch = []
for k, n in und.items():
    if k in rows: continue
    vs = verd.get(k)
    if not vs:
        nomatch.append(k); continue
    if not all(v["verdict"] == "safe" for v in vs):
        continue
    f, s = sites[k]
    names = PI._fn_calls(f)
    req = []
    for v in vs:
        for r in v.get("relies_on", []):
            r2 = re.sub(r"[^A-Za-z0-9_:]", "", r.split("(")[0])
            if len(r2) >= 4 and any(r2.split("::")[-1] == n.split("::")[-1].split("<")[0] for n in names) and r2.split("::")[-1] not in req:
                req.append(r2.split("::")[-1])
    rows[k] = {"count": n, "reason": " / ".join(dict.fromkeys(v["reason"] for v in vs)), "requires": req[:3],
               "where_reviewed": vs[0]["where"]}
    added += 1
json.dump(doc, open(path, "w"), indent=1, sort_keys=True)
print("added", added, "rows; total", len(rows), "; sites without a safe verdict:", len(nomatch))
for k in nomatch: print("  ", k)
