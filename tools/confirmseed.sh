#!/bin/sh
# usage: confirmseed.sh <seed-out/N dir> <ID> <tag>   -- confirms a seeded mutation in a scratch worktree and files it under /verif/seeded/<ID>-<tag>/
# (applies on /repo HEAD; builds; demo must fail with the patch and pass without; existing suite must pass with it)
SRC="$1"; ID="$2"; TAG="$3"
W=/tmp/confirm-$ID-$TAG
OUT=/verif/seeded/$ID-$TAG
rm -rf "$W"; git -C /repo worktree prune
git -C /repo worktree add --detach "$W" HEAD >/dev/null 2>&1 || exit 2
cp -r /repo/target "$W/target"
cd "$W"
LOG="$W/confirm.log"
{
echo "base commit: $(git rev-parse --short HEAD)"
git apply "$SRC/patch.diff" || { echo "RESULT: patch does not apply"; exit 3; }
cargo build --offline 2>&1 | tail -1
DEMO="$SRC/demo.sh"
bash "$DEMO" "$W/target/debug/garden" >"$W/demo_mut.out" 2>&1; rc_mut=$?
echo "demo with mutation: rc=$rc_mut"
cargo nextest run --offline --no-fail-fast --test-threads 8 >"$W/suite.out" 2>&1
tail -6 "$W/suite.out"
FAILS=$(grep -E "^\s+FAIL " "$W/suite.out" | awk '{print $NF}' | sort -u | tr '\n' ' ')
echo "suite failures: [$FAILS]"
for t in $FAILS; do
  case "$t" in *interrupt*|*sigint*|*reftest_nrepl*)
    for i in 1 2 3 4 5 6; do if cargo nextest run --offline "$t" >"$W/rerun.out" 2>&1; then echo "  $t passes alone (try $i)"; break; else echo "  $t failed alone (try $i)"; fi; done;;
  *) echo "  NON-FLAKY FAILURE: $t";; esac
done
git checkout -- src
cargo build --offline 2>&1 | tail -1
bash "$DEMO" "$W/target/debug/garden" >"$W/demo_clean.out" 2>&1; rc_clean=$?
echo "demo without mutation: rc=$rc_clean"
if [ $rc_mut -ne 0 ] && [ $rc_clean -eq 0 ]; then echo "RESULT: demo OK"; else echo "RESULT: demo BAD"; fi
} >"$LOG" 2>&1
mkdir -p "$OUT"
cp "$SRC/patch.diff" "$SRC/demo.sh" "$OUT/" 2>/dev/null
cp "$SRC/meta.json" "$OUT/agent_meta.json" 2>/dev/null
cp "$LOG" "$OUT/confirm.log"
cd /; git -C /repo worktree remove --force "$W"; rm -rf "$W"
tail -3 "$OUT/confirm.log"
