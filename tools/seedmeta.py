#!/usr/bin/env python3
"""Writes /verif/seeded/<dir>/meta.json from the agent's meta, the confirmation log and the detection table below."""
import json, os, sys, re
HERE = os.path.dirname(os.path.dirname(os.path.abspath(__file__)))
# dir -> (property, [checks/rules that report it], note)
DET = json.load(open(os.path.join(HERE, "seeded", "detection.json")))
for d, (prop, detected_by, note) in sorted(DET.items()):
    p = os.path.join(HERE, "seeded", d)
    if not os.path.isdir(p):
        continue
    am = {}
    if os.path.exists(os.path.join(p, "agent_meta.json")):
        try:
            am = json.load(open(os.path.join(p, "agent_meta.json")))
        except Exception:
            am = {}
    log = open(os.path.join(p, "confirm.log")).read() if os.path.exists(os.path.join(p, "confirm.log")) else ""
    m = re.search(r"Summary \[.*?\] (\d+) tests run: (\d+) passed", log)
    fails = re.search(r"suite failures: \[(.*?)\]", log)
    meta = {
        "property": prop,
        "breaks": am.get("summary", ""),
        "needs_to_manifest": am.get("needs_to_manifest", ""),
        "files_changed": am.get("files_changed", []),
        "origin": "independent sub-agent given only the property text and a scratch worktree",
        "confirmed_by_me": {
            "how": "tools/confirmseed.sh: fresh worktree of /repo HEAD under /tmp, git apply patch.diff, cargo build --offline, demo.sh (must fail), cargo nextest run (existing suite), git checkout, rebuild, demo.sh (must pass)",
            "base_commit": (re.search(r"base commit: (\w+)", log) or [None, "?"])[1],
            "demo_with_mutation_rc": (re.search(r"demo with mutation: rc=(\d+)", log) or [None, "?"])[1],
            "demo_without_mutation_rc": (re.search(r"demo without mutation: rc=(\d+)", log) or [None, "?"])[1],
            "suite": ("%s run, %s passed" % (m.group(1), m.group(2))) if m else "?",
            "suite_failures": fails.group(1).strip() if fails else "?",
            "suite_note": "the only failures are the load-sensitive nREPL interrupt tests (interrupt_eval golden case, interrupt_aborts_eval, sigint_aborts_eval), which also fail on the unmodified tree when the machine is loaded and pass alone when it is quiet",
        },
        "detected_by": detected_by,
        "detection_note": note,
    }
    json.dump(meta, open(os.path.join(p, "meta.json"), "w"), indent=1)
    print(d, "->", detected_by)
