"""A small symbolic evaluator for boolean-valued Rust blocks in the idioms this repository uses.

truth(node) computes, for a block/expression of type bool, the set of *conjunctions of atoms*
under which it evaluates to `true` (a DNF), or raises Unknown when it meets a construct outside
the recognised idioms (the caller then fails closed).

Atoms are tuples:
  ("call", fname, arg_desc...)     a call of a tracked function, arguments described by provenance
  ("eq", a, b) / ("ne", a, b)      comparisons; a, b are descriptors, stored in sorted order
  ("not", atom)
  ("forall", atom)                  atom holds for every element pair of a zip
  ("lit", text)                     an opaque boolean expression (method call etc.)
Descriptors: provenance tuples (side, field) for names bound by the arm pattern, ("len", d),
("field", d, name), ("elem", d) for an element of a zipped collection, or ("expr", text).
"""
from . import shape as S


class Unknown(Exception):
    pass


class Env:
    def __init__(self, bindings, tracked, bools=None):
        self.b = dict(bindings)      # name -> descriptor
        self.tracked = set(tracked)  # function names whose calls become atoms
        self.bools = dict(bools or {})  # name -> DNF of a let-bound boolean

    def child(self, extra, bools=None):
        e = Env(self.b, self.tracked, self.bools)
        e.b.update(extra)
        if bools:
            e.bools.update(bools)
        return e


def desc(e, env):
    """descriptor of a value expression."""
    k = e["k"]
    if k == "Path":
        if e["path"] in env.b:
            return env.b[e["path"]]
        return ("expr", e["path"])
    if k in ("Ref",):
        return desc(e["e"], env)
    if k == "Unary" and e["op"] == "*":
        return desc(e["e"], env)
    if k == "Field":
        return ("field", desc(e["e"], env), e["name"])
    if k == "MethodCall":
        m = e["method"]
        if m == "len" and not e["args"]:
            return ("len", desc(e["recv"], env))
        if m in ("iter", "into_iter", "as_ref", "clone", "as_str", "borrow", "deref") and not e["args"]:
            return desc(e["recv"], env)
        return ("expr", "%s.%s()" % (desc(e["recv"], env), m))
    if k == "LitInt":
        return ("int", e["v"])
    if k == "LitStr":
        return ("str", e["v"])
    return ("expr", k)


def zip_sources(e, env):
    """for `A.iter().zip(B.iter())` (or .zip(B)) return (desc(A), desc(B)), else None."""
    if e["k"] == "MethodCall" and e["method"] == "zip" and len(e["args"]) == 1:
        return desc(e["recv"], env), desc(e["args"][0], env)
    return None


def elem_bindings(pat, srcs):
    """bindings for a `(a, b)` pattern over a zip."""
    if pat["k"] == "PTuple" and len(pat["elems"]) == 2 and srcs:
        out = {}
        for p, s in zip(pat["elems"], srcs):
            q = p
            while q["k"] in ("PRef", "PType"):
                q = q["pat"]
            if q["k"] == "PIdent":
                out[q["name"]] = ("elem", s)
            elif q["k"] != "PWild":
                raise Unknown("zip element pattern")
        return out
    raise Unknown("zip pattern")


def _norm_cmp(op, a, b):
    x, y = sorted([a, b], key=repr)
    return ("eq" if op == "==" else "ne", x, y)


def neg(atom):
    if atom[0] == "not":
        return atom[1]
    if atom[0] == "eq":
        return ("ne",) + atom[1:]
    if atom[0] == "ne":
        return ("eq",) + atom[1:]
    return ("not", atom)


def AND(d1, d2):
    return [a | b for a in d1 for b in d2]


def negate_dnf(d):
    """negation of a DNF; supported when it stays small (product of negated atoms)."""
    # not (c1 or c2 ..) = and_i not(c_i); not(c_i) = or_j not(a_ij)
    res = [frozenset()]
    for c in d:
        if not c:
            return []           # not(true) = false
        alts = [frozenset([neg(a)]) for a in sorted(c, key=repr)]
        res = [r | a for r in res for a in alts]
        if len(res) > 64:
            raise Unknown("negation too large")
    return res


def truth(e, env):
    k = e["k"]
    if k == "LitBool":
        return [frozenset()] if e["v"] else []
    if k == "Block":
        return block_truth(e, env)
    if k == "Binary":
        op = e["op"]
        if op == "&&":
            return AND(truth(e["l"], env), truth(e["r"], env))
        if op == "||":
            return truth(e["l"], env) + truth(e["r"], env)
        if op in ("==", "!="):
            return [frozenset([_norm_cmp(op, desc(e["l"], env), desc(e["r"], env))])]
        raise Unknown("binary " + op)
    if k == "Unary" and e["op"] == "!":
        return negate_dnf(truth(e["e"], env))
    if k == "Call":
        fn = e["f"]["path"].split("::")[-1] if e["f"]["k"] == "Path" else None
        if fn in env.tracked:
            return [frozenset([("call", fn) + tuple(desc(a, env) for a in e["args"])])]
        raise Unknown("call of " + str(fn))
    if k == "MethodCall":
        m = e["method"]
        if m == "all" and len(e["args"]) == 1 and e["args"][0]["k"] == "Closure":
            srcs = zip_sources(e["recv"], env)
            c = e["args"][0]
            if srcs and len(c["params"]) == 1:
                inner = env.child(elem_bindings(c["params"][0], srcs))
                d = truth(c["body"], inner)
                if len(d) != 1:
                    raise Unknown("closure body is not a single conjunction")
                return [frozenset(("forall", a) for a in d[0])]
            raise Unknown(".all() over something that is not a zip")
        # method returning bool on a described receiver: opaque literal atom
        return [frozenset([("lit", "%s.%s()" % (desc(e["recv"], env), m))])]
    if k == "If":
        c = truth(e["cond"], env)
        t = truth(e["then"], env)
        if e["else"] is None:
            raise Unknown("if without else in value position")
        f = truth(e["else"], env)
        return AND(c, t) + AND(negate_dnf(c), f)
    if k == "Macro" and e["name"] == "matches":
        return [frozenset([("lit", "matches!")])]
    if k == "Path":
        if e["path"] in env.bools:
            return env.bools[e["path"]]
        return [frozenset([("lit", e["path"])])]
    if k == "Paren":
        return truth(e["e"], env)
    raise Unknown("expression kind " + k)


def _returns_const(block):
    """if the block is exactly `return <bool literal>` (optionally with `;`) give that bool."""
    st = block["stmts"]
    if len(st) == 1 and st[0]["k"] == "ExprStmt":
        e = st[0]["e"]
        if e["k"] == "Return" and e["e"] is not None and e["e"]["k"] == "LitBool":
            return e["e"]["v"]
    return None


def block_truth(b, env):
    """sequential statements: early `return false` guards become required conditions."""
    req = [frozenset()]
    early_true = []
    st = b["stmts"]
    for i, s in enumerate(st):
        last = (i == len(st) - 1)
        if s["k"] == "Let":
            # simple alias: let x = <expr>;
            if s["pat"]["k"] == "PIdent" and s["init"] is not None:
                bools = None
                if s["init"]["k"] in ("MethodCall", "Call", "Binary", "Unary", "If", "Block"):
                    # `let ok = xs.iter().zip(ys).all(|..| ..);` -- a named boolean used later in the value
                    try:
                        d = truth(s["init"], env)
                        if not (len(d) == 1 and len(d[0]) == 1 and next(iter(d[0]))[0] == "lit"):
                            bools = {s["pat"]["name"]: d}
                    except Unknown:
                        bools = None
                env = env.child({s["pat"]["name"]: desc(s["init"], env)}, bools)
            continue
        if s["k"] != "ExprStmt":
            raise Unknown("statement " + s["k"])
        e = s["e"]
        if last and not s["semi"]:
            return early_true + AND(req, truth(e, env))
        if e["k"] == "If" and e["else"] is None:
            rc = _returns_const(e["then"])
            if rc is None:
                raise Unknown("if-statement that is not an early return of a constant")
            c = truth(e["cond"], env)
            if rc is False:
                req = AND(req, negate_dnf(c))
            else:
                early_true += AND(req, c)
                req = AND(req, negate_dnf(c))
            continue
        if e["k"] == "For":
            srcs = zip_sources(e["iter"], env)
            if not srcs:
                raise Unknown("for over something that is not a zip")
            inner = env.child(elem_bindings(e["pat"], srcs))
            # body must consist of early `return false` guards only
            d = block_truth({"k": "Block", "stmts": e["body"]["stmts"] + [
                {"k": "ExprStmt", "semi": False, "e": {"k": "LitBool", "v": True}}]}, inner)
            if len(d) != 1:
                raise Unknown("loop body is not a single conjunction")
            req = AND(req, [frozenset(("forall", a) for a in d[0])])
            continue
        if e["k"] == "Return" and e["e"] is not None:
            return early_true + AND(req, truth(e["e"], env))
        if e["k"] == "Macro":
            continue   # debug/trace macros
        raise Unknown("statement expression " + e["k"])
    raise Unknown("block without value")


def strip_forall(atom):
    while atom[0] == "forall":
        atom = atom[1]
    return atom


def unelem(d):
    """('elem', X) -> X, recursively inside descriptors."""
    if isinstance(d, tuple):
        if d and d[0] == "elem":
            return unelem(d[1])
        return tuple(unelem(x) for x in d)
    return d
