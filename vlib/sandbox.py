"""Shared machinery for C24/C25: which calls reachable from eval::eval are NOT behind the
false edge of an `Env.enforce_sandbox` test, interprocedurally."""
from . import mir as M
from . import dflow as D

ENV_ADT = "env::Env"
ARM_ENUMS = {"BuiltInFunctionKind", "BuiltInMethodKind"}


def guards(f):
    return D.field_switches(f, "enforce_sandbox", ENV_ADT)


def guarded(f, bb):
    for (sb, ft, tt) in guards(f):
        if ft is not None and bb in D.edge_dominated(f, sb, ft):
            return (sb, ft, tt)
    return None


def classify(P, reach, is_target, root="eval::eval"):
    """is_target(callee_name) -> bool. Returns (sites, effn, parent) where sites is a list of
    dicts {fn, bb, callee, term, key, arm, status, chain}; status in guarded|chain-guarded|unguarded."""
    direct = {}
    for p in reach:
        f = P.funcs[p]
        for bi, t in f.calls():
            n = M.callee_name(t)
            if n and is_target(n):
                direct.setdefault(p, []).append((bi, n, t))
    E = P.edges()
    effn = {}
    changed = True
    while changed:
        changed = False
        for p in reach:
            f = P.funcs[p]
            bad = []
            for (bi, n, t) in direct.get(p, []):
                if not guarded(f, bi):
                    bad.append((bi, n))
            for kind, tgt, bi in E.get(p, []):
                if kind == "live":
                    continue
                if tgt in effn and tgt != p and not guarded(f, bi):
                    bad.append((bi, tgt))
            key = sorted(set(bad))
            if bad and effn.get(p) != key:
                effn[p] = key
                changed = True
    seen = set()
    parent = {}
    if root in effn:
        seen.add(root)
        stack = [root]
        while stack:
            p = stack.pop()
            f = P.funcs[p]
            for kind, tgt, bi in E.get(p, []):
                if kind == "live" or tgt not in effn or tgt in seen:
                    continue
                if guarded(f, bi):
                    continue
                seen.add(tgt)
                parent[tgt] = p
                stack.append(tgt)
    sites = []
    for p, ss in sorted(direct.items()):
        f = P.funcs[p]
        for (bi, n, t) in ss:
            arm = D.arm_label(f, bi, enums=ARM_ENUMS)
            key = "%s # %s # %s" % (p, arm or "-", n)
            g = guarded(f, bi)
            chain = None
            if g:
                st = "guarded"
            elif p in seen:
                st = "unguarded"
                chain = [p]
                while chain[-1] in parent:
                    chain.append(parent[chain[-1]])
                chain.reverse()
            else:
                st = "chain-guarded"
            sites.append({"fn": p, "bb": bi, "callee": n, "term": t, "key": key, "arm": arm,
                          "status": st, "chain": chain, "guard": g})
    return sites, effn, direct


def field_stores(P, field, adt=ENV_ADT):
    """path -> [(bb, stmt_index, rvalue, span)] for assignments to <place>.<field>."""
    out = {}
    for f in P.funcs.values():
        for bi, b in enumerate(f.blocks):
            for si, s in enumerate(b["stmts"]):
                if s["s"] != "assign":
                    continue
                pp = s["place"]["p"]
                if pp and isinstance(pp[-1], dict) and pp[-1].get("name") == field and pp[-1].get("adt") == adt:
                    out.setdefault(f.path, []).append((bi, si, s["rv"], s["span"]))
    return out


def reverse_reach(P, target):
    E = P.edges()
    rev = {}
    for p, es in E.items():
        for kind, tgt, bi in es:
            if kind != "live":
                rev.setdefault(tgt, set()).add(p)
    seen = {target}
    st = [target]
    while st:
        x = st.pop()
        for q in rev.get(x, ()):
            if q not in seen:
                seen.add(q)
                st.append(q)
    return seen, rev


def snippet_import_guard(P):
    """shape of the conditional refusal in eval::check_snippet (fix 657a46c): under enforce_sandbox every import of
    the snippet is tested with starts_with("__") and the function can return before check_toplevel_items.
    Returns (ok, why)."""
    f = P.funcs.get("eval::check_snippet")
    if f is None:
        return False, "eval::check_snippet not found"
    gs = guards(f)
    if len(gs) != 1:
        return False, "expected one enforce_sandbox test in check_snippet, found %d" % len(gs)
    sb, ft, tt = gs[0]
    region = D.edge_dominated(f, sb, tt)
    checks = [bi for bi, t in f.calls() if M.callee_name(t) == "checks::check_toplevel_items"]
    if not checks or not all(f.dominates(sb, c) for c in checks):
        return False, "the sandbox test does not come before check_toplevel_items"
    sw_prefix = False
    for sw in D.call_switches(f, "::starts_with", None):
        if sw["bb"] in region:
            c = None
            for a in sw["call"]["args"][1:]:
                r = f.root_of(a)
                if r[0] == "const":
                    c = r[1].get("s")
            if c == "__":
                sw_prefix = True
    if not sw_prefix:
        return False, "no starts_with(\"__\") test of the import path under the sandbox test"
    rets = set(f.exits())
    early = D.reach_from(f, [tt], avoid_blocks=checks) & rets
    if not early:
        return False, "no return before check_toplevel_items on the sandboxed edge"
    imp = [sw for sw in D.enum_switches(f) if D.short_ty(sw["ety"]) == "ToplevelItem" and sw["bb"] in region]
    if not imp:
        return False, "the sandboxed edge does not inspect the snippet's items"
    # every item is vetted: the loop that inspects the items is left only when its iterator is exhausted
    loops = {}
    for h, a, body in D.natural_loops(f):
        loops.setdefault(h, set()).update(body)
    vet = [body for h, body in loops.items() if any(sw["bb"] in body for sw in imp)]
    if not vet:
        return False, "the snippet's items are not inspected in a loop"
    for body in vet:
        for b in body:
            outs = [x for x in f.succ[b] if x not in body]
            if not outs:
                continue
            t = f.blocks[b]["term"]
            exhausted = False
            if t["t"] == "switch":
                r = f.root_of(t["discr"])
                if r[0] == "rv" and r[3]["rv"]["k"] == "discr":
                    src = f.root_of({"copy": {"l": r[3]["rv"]["place"]["l"], "p": []}}, through_named=True)
                    exhausted = src[0] == "call" and (M.callee_name(src[2]) or "").endswith("::next")
            if not exhausted:
                return False, "the loop that vets the snippet's imports can be left before every item was inspected (an import after that point is never tested)"
    return True, "check_snippet: under enforce_sandbox every item is inspected, each Import is tested with starts_with(\"__\") and a refusal returns before check_toplevel_items"


def read_src_regular_guard(P):
    """shape of fix df32ae5: eval::read_src reads the import target only after a `metadata(path).is_file()` test whose
    false edge returns without reading, both on the function's path parameter. Returns (ok, why)."""
    f = P.funcs.get("eval::read_src")
    if f is None:
        return False, "eval::read_src not found"
    reads = [(bi, t) for bi, t in f.calls() if (M.callee_name(t) or "") in ("std::fs::read", "std::fs::read_to_string")]
    if not reads:
        return False, "read_src does not read a file"
    sws = D.call_switches(f, "::is_file", None)
    if not sws:
        return False, "read_src does not test `is_file()` before reading"

    def from_param(op):
        r = f.root_of(op, through_named=True)
        for _ in range(4):
            if r[0] == "call" and r[2]["args"]:
                r = f.root_of(r[2]["args"][0], through_named=True)
            else:
                break
        return r[0] == "place" and 1 <= r[1]["l"] <= f.argc and r[1]["l"]
    for sw in sws:
        md = f.root_of(sw["call"]["args"][0], through_named=True)
        # the Metadata tested comes from std::fs::metadata(<path parameter>)
        src = None
        cur = md
        for _ in range(6):
            if cur[0] == "place":
                dd = [d for d in f.defs.get(cur[1]["l"], []) if d[1] == "term"]
                if len(dd) != 1:
                    break
                cur = ("call", dd[0][0], dd[0][2])
                continue
            if cur[0] == "call":
                if (M.callee_name(cur[2]) or "") in ("std::fs::metadata", "std::fs::symlink_metadata"):
                    src = from_param(cur[2]["args"][0])
                    break
                if not cur[2]["args"]:
                    break
                cur = f.root_of(cur[2]["args"][0], through_named=True)
            else:
                break
        if not src:
            continue
        if sw["false"] is None:
            continue
        after_refusal = D.reach_from(f, [sw["false"]])
        if all(bi not in after_refusal and f.dominates(sw["bb"], bi) is not None and from_param(t["args"][0]) == src for bi, t in reads):
            if all(bi in D.reach_from(f, [0]) for bi, _ in reads):
                return True, "read_src: std::fs::read(path) is not reachable once metadata(path).is_file() is false"
    return False, "no `metadata(path).is_file()` test whose false edge avoids the read of the same path"
