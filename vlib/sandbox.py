"""Shared machinery for C24/C25: which calls reachable from eval::eval are NOT behind the
false edge of an `Env.enforce_sandbox` test, interprocedurally."""
from . import mir as M
from . import dflow as D

ENV_ADT = "env::Env"
ARM_ENUMS = {"BuiltInFunctionKind", "BuiltInMethodKind"}


def guards(f):
    return D.field_switches(f, "enforce_sandbox", ENV_ADT)


def guarded(f, bb):
    for (sb, ft, tt) in guards(f):
        if ft is not None and bb in D.edge_dominated(f, sb, ft):
            return (sb, ft, tt)
    return None


def classify(P, reach, is_target, root="eval::eval"):
    """is_target(callee_name) -> bool. Returns (sites, effn, parent) where sites is a list of
    dicts {fn, bb, callee, term, key, arm, status, chain}; status in guarded|chain-guarded|unguarded."""
    direct = {}
    for p in reach:
        f = P.funcs[p]
        for bi, t in f.calls():
            n = M.callee_name(t)
            if n and is_target(n):
                direct.setdefault(p, []).append((bi, n, t))
    E = P.edges()
    effn = {}
    changed = True
    while changed:
        changed = False
        for p in reach:
            f = P.funcs[p]
            bad = []
            for (bi, n, t) in direct.get(p, []):
                if not guarded(f, bi):
                    bad.append((bi, n))
            for kind, tgt, bi in E.get(p, []):
                if kind == "live":
                    continue
                if tgt in effn and tgt != p and not guarded(f, bi):
                    bad.append((bi, tgt))
            key = sorted(set(bad))
            if bad and effn.get(p) != key:
                effn[p] = key
                changed = True
    seen = set()
    parent = {}
    if root in effn:
        seen.add(root)
        stack = [root]
        while stack:
            p = stack.pop()
            f = P.funcs[p]
            for kind, tgt, bi in E.get(p, []):
                if kind == "live" or tgt not in effn or tgt in seen:
                    continue
                if guarded(f, bi):
                    continue
                seen.add(tgt)
                parent[tgt] = p
                stack.append(tgt)
    sites = []
    for p, ss in sorted(direct.items()):
        f = P.funcs[p]
        for (bi, n, t) in ss:
            arm = D.arm_label(f, bi, enums=ARM_ENUMS)
            key = "%s # %s # %s" % (p, arm or "-", n)
            g = guarded(f, bi)
            chain = None
            if g:
                st = "guarded"
            elif p in seen:
                st = "unguarded"
                chain = [p]
                while chain[-1] in parent:
                    chain.append(parent[chain[-1]])
                chain.reverse()
            else:
                st = "chain-guarded"
            sites.append({"fn": p, "bb": bi, "callee": n, "term": t, "key": key, "arm": arm,
                          "status": st, "chain": chain, "guard": g})
    return sites, effn, direct


def field_stores(P, field, adt=ENV_ADT):
    """path -> [(bb, stmt_index, rvalue, span)] for assignments to <place>.<field>."""
    out = {}
    for f in P.funcs.values():
        for bi, b in enumerate(f.blocks):
            for si, s in enumerate(b["stmts"]):
                if s["s"] != "assign":
                    continue
                pp = s["place"]["p"]
                if pp and isinstance(pp[-1], dict) and pp[-1].get("name") == field and pp[-1].get("adt") == adt:
                    out.setdefault(f.path, []).append((bi, si, s["rv"], s["span"]))
    return out


def reverse_reach(P, target):
    E = P.edges()
    rev = {}
    for p, es in E.items():
        for kind, tgt, bi in es:
            if kind != "live":
                rev.setdefault(tgt, set()).add(p)
    seen = {target}
    st = [target]
    while st:
        x = st.pop()
        for q in rev.get(x, ()):
            if q not in seen:
                seen.add(q)
                st.append(q)
    return seen, rev
