"""UNIT-MIX: byte offsets and character counts are different units.

A flow-insensitive, per-function taint analysis over MIR:

  sources  BYTE  str::len, String::len, str::find / rfind (payload), regex Match::start / end, char::len_utf8,
                 the offset component of char_indices items, Position.start_offset / end_offset fields
           CHAR  Chars::count, Vec<char>::len, <[char]>::len, (PtrMetadata of a [char])
  flows    moves / copies, + - min max, checked/saturating arithmetic, Option payloads (Some(x) -> x), unwrap_or,
           tuple component .0 of the *WithOverflow results
  sinks    an index into Vec<char> / [char] (Index::index, <[char]>::get, BoundsCheck on a [char]) must not be BYTE;
           a bound of a str / String slice (Index<Range*>, get(range), split_at, is_char_boundary) must not be CHAR

Both directions are bugs that only show with non-ASCII text. Constants carry no unit. A local with several
definitions takes the union of their units (that is what makes `i = first_escape; ... i += 2; chars[i]` visible).
"""
from . import mir as M

BYTE, CHAR = "byte", "char"

BYTE_CALLS = ("core::str::<impl str>::len", "std::string::String::len", "core::str::<impl str>::find",
              "core::str::<impl str>::rfind", "::Match::<'h>::end", "::Match::<'h>::start", "::Match::<'_>::end",
              "::Match::<'_>::start", "core::char::methods::<impl char>::len_utf8")
CHAR_CALLS = ("std::iter::Iterator::count",)   # only when the receiver is Chars
PASS_CALLS = ("::unwrap_or", "::unwrap", "::expect", "::min", "::max", "::saturating_sub", "::saturating_add",
              "::checked_sub", "::checked_add", "::wrapping_add", "::wrapping_sub", "::unwrap_or_default", "::clamp",
              "::map_or")


def _is_char_seq(ty):
    t = ty.replace(" ", "")
    return "Vec<char>" in t or "[char]" in t or "[char;" in t


def _is_str(ty):
    t = ty.replace("&", "").replace("mut ", "").strip()
    return t in ("str", "std::string::String") or t.endswith("::String")


def analyse(f):
    """returns (units: local -> set, sinks: [(bb, kind, operand-local, span, seq type)])"""
    units = {}

    def u(l):
        return units.get(l, set())

    def op_units(op):
        p = M.op_place(op)
        if p is None:
            return set()
        out = set(u(p["l"]))
        return out
    # seed from calls
    seeds = []
    for bi, t in f.calls():
        n = M.callee_name(t) or ""
        d = t.get("dest")
        if not d or d["p"]:
            continue
        at = t.get("argtys") or []
        if any(n.endswith(x) or n == x for x in BYTE_CALLS):
            seeds.append((d["l"], BYTE))
        elif n.endswith("::len") and at and _is_char_seq(at[0]):
            seeds.append((d["l"], CHAR))
        elif n == "std::iter::Iterator::count" and at and "Chars" in at[0]:
            seeds.append((d["l"], CHAR))
    for l, un in seeds:
        units.setdefault(l, set()).add(un)
    # field seeds: places ending in start_offset / end_offset of a Position
    changed = True
    rounds = 0
    while changed and rounds < 40:
        changed = False
        rounds += 1
        for bi, b in enumerate(f.blocks):
            for s in b["stmts"]:
                if s.get("s") != "assign":
                    continue
                dl = s["place"]["l"]
                if s["place"]["p"]:
                    continue
                rv = s["rv"]
                new = set()
                k = rv["k"]
                if k == "use":
                    q = M.op_place(rv["a"])
                    if q is not None:
                        last = q["p"][-1] if q["p"] else None
                        if isinstance(last, dict) and last.get("name") in ("start_offset", "end_offset") and "Position" in (last.get("adt") or ""):
                            new.add(BYTE)
                        else:
                            new |= u(q["l"])
                elif k == "binop":
                    if rv.get("op") in ("Add", "Sub", "AddWithOverflow", "SubWithOverflow", "AddUnchecked", "SubUnchecked"):
                        new |= op_units(rv["a"]) | op_units(rv["b"])
                elif k == "cast":
                    new |= op_units(rv["a"]) if "a" in rv else set()
                elif k == "unop" and rv.get("op") == "PtrMetadata":
                    if _is_char_seq(rv.get("aty") or ""):
                        new.add(CHAR)
                    else:
                        pl = M.op_place(rv["a"])
                        if pl is not None and _is_char_seq(f.local_ty(pl["l"])):
                            new.add(CHAR)
                if new - u(dl):
                    units.setdefault(dl, set()).update(new)
                    changed = True
            t = b["term"]
            if t["t"] == "call" and t.get("dest") and not t["dest"]["p"]:
                n = M.callee_name(t) or ""
                if n.endswith(PASS_CALLS) and t["args"]:
                    new = set()
                    for a in t["args"]:
                        new |= op_units(a)
                    dl = t["dest"]["l"]
                    if new - u(dl):
                        units.setdefault(dl, set()).update(new)
                        changed = True
    sinks = []
    for bi, t in f.calls():
        n = M.callee_name(t) or ""
        at = t.get("argtys") or []
        if len(at) < 2 or len(t["args"]) < 2:
            continue
        if (n.endswith("::index") or n.endswith("::index_mut") or n.endswith("::get") or n.endswith("::get_mut")) and _is_char_seq(at[0]):
            sinks.append((bi, "char-index", t["args"][1], t["span"], at[0]))
        elif (n.endswith("::index") or n.endswith("::get") or n.endswith("::split_at") or n.endswith("::is_char_boundary")) and _is_str(at[0]):
            sinks.append((bi, "byte-bound", t["args"][1], t["span"], at[0]))
    for bi, b in enumerate(f.blocks):
        t = b["term"]
        if t["t"] == "assert" and t.get("ak") == "BoundsCheck":
            ln = t.get("len")
            idx = t.get("index")
            if idx is None or ln is None:
                continue
            r = f.root_of(ln)
            seq = None
            if r[0] == "rv":
                pl = r[3]["rv"].get("place")
                if pl is not None:
                    seq = f.local_ty(pl["l"])
            if seq and _is_char_seq(seq):
                sinks.append((bi, "char-index", idx, t["span"], seq))
    return units, sinks


def range_operand_units(f, op, units):
    """units of the bounds of a Range* aggregate operand (or of a plain usize operand)."""
    p = M.op_place(op)
    if p is None:
        return set()
    out = set(units.get(p["l"], set()))
    d = f.single_def(p["l"])
    if d is not None and d[1] != "term":
        rv = d[2]["rv"]
        if rv["k"] == "agg":
            for a in rv.get("ops", []):
                q = M.op_place(a)
                if q is not None:
                    out |= units.get(q["l"], set())
    return out


def check(P, res, rule, prefixes, floor):
    n = 0
    for p_, f in sorted(P.funcs.items()):
        if not p_.startswith(tuple(prefixes)):
            continue
        units, sinks = analyse(f)
        seen = {}
        for (bi, kind, op, span, seq) in sinks:
            n += 1
            us = range_operand_units(f, op, units)
            k0 = (kind,)
            seen[k0] = seen.get(k0, 0) + 1
            if kind == "char-index" and BYTE in us:
                res.bad(rule, "%s # byte offset indexes characters # %d" % (p_, seen[k0]),
                        "an index into a sequence of chars (%s) is derived from a byte offset (str::find / len / Match::end ...): the two agree only "
                        "for ASCII text, so with a multi-byte character before it the wrong character is read" % seq.replace("&", ""), span)
            elif kind == "byte-bound" and CHAR in us:
                res.bad(rule, "%s # character count slices bytes # %d" % (p_, seen[k0]),
                        "a bound of a str slice is derived from a count of characters: with a multi-byte character before it the slice is wrong or panics", span)
            else:
                res.ok(rule, "%s: %s at %s:%s has no unit conflict" % (p_, kind, span["file"], span["line"]))
    res.floor(rule, "char-sequence indexes and str slice bounds examined", n, floor)
    return n
