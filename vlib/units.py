"""UNIT-MIX: byte offsets and character counts are different units.

A flow-insensitive, per-function taint analysis over MIR:

  sources  BYTE  str::len, String::len, str::find / rfind (payload), regex Match::start / end, char::len_utf8,
                 the offset component of char_indices items, Position.start_offset / end_offset fields
           CHAR  Chars::count, Vec<char>::len, <[char]>::len, (PtrMetadata of a [char])
  flows    moves / copies, + - min max, checked/saturating arithmetic, Option payloads (Some(x) -> x), unwrap_or,
           tuple component .0 of the *WithOverflow results
  sinks    an index into Vec<char> / [char] (Index::index, <[char]>::get, BoundsCheck on a [char]) must not be BYTE;
           a bound of a str / String slice (Index<Range*>, get(range), split_at, is_char_boundary) must not be CHAR

Both directions are bugs that only show with non-ASCII text. Constants carry no unit. A local with several
definitions takes the union of their units (that is what makes `i = first_escape; ... i += 2; chars[i]` visible).
"""
from . import mir as M

BYTE, CHAR, UTF16, LINELEN = "byte", "char", "utf16", "line-length"

BYTE_CALLS = ("core::str::<impl str>::len", "std::string::String::len", "core::str::<impl str>::find",
              "core::str::<impl str>::rfind", "::Match::<'h>::end", "::Match::<'h>::start", "::Match::<'_>::end",
              "::Match::<'_>::start", "core::char::methods::<impl char>::len_utf8")
CHAR_CALLS = ("std::iter::Iterator::count",)   # only when the receiver is Chars
PASS_CALLS = ("::unwrap_or", "::unwrap", "::expect", "::min", "::max", "::saturating_sub", "::saturating_add",
              "::checked_sub", "::checked_add", "::wrapping_add", "::wrapping_sub", "::unwrap_or_default", "::clamp",
              "::map_or")


def _is_char_seq(ty):
    t = ty.replace(" ", "")
    return "Vec<char>" in t or "[char]" in t or "[char;" in t


def _is_str(ty):
    t = ty.replace("&", "").replace("mut ", "").strip()
    return t in ("str", "std::string::String") or t.endswith("::String")


FIELD_UNITS = {("character", "gen_lsp_types::Position"): UTF16, ("column", "parser::position::Position"): BYTE,
               ("end_column", "parser::position::Position"): BYTE, ("start_offset", "parser::position::Position"): BYTE,
               ("end_offset", "parser::position::Position"): BYTE}
CLOSURE_PASS = ("::map_or", "::map", "::unwrap_or_else", "::and_then", "::map_or_else")


def analyse(f, P=None, param_units=None, ret_units=None):
    """returns (units: local -> set, sinks: [(bb, kind, operand-local, span, seq type)])
    param_units: {local index: set} seeds for parameters (from call sites); ret_units: {callee path: set} summaries."""
    units = {}
    for l, us in (param_units or {}).items():
        units.setdefault(l, set()).update(us)

    def u(l):
        return units.get(l, set())

    def op_units(op):
        p = M.op_place(op)
        if p is None:
            return set()
        out = set(u(p["l"]))
        return out
    # seed from calls
    seeds = []
    for bi, t in f.calls():
        n = M.callee_name(t) or ""
        d = t.get("dest")
        if not d or d["p"]:
            continue
        at = t.get("argtys") or []
        if any(n.endswith(x) or n == x for x in BYTE_CALLS):
            seeds.append((d["l"], BYTE))
        elif n.endswith("::len") and at and _is_char_seq(at[0]):
            seeds.append((d["l"], CHAR))
        elif n.endswith("::count") and at and "Chars<" in at[0]:
            seeds.append((d["l"], CHAR))
        elif n.endswith("::count") and at and "EncodeUtf16" in at[0]:
            seeds.append((d["l"], UTF16))
        elif n.endswith("<impl char>::len_utf16"):
            seeds.append((d["l"], UTF16))
        elif n.endswith("CharIndices<'a> as std::iter::Iterator>::next") or (n.endswith("::next") and at and "CharIndices" in at[0]):
            seeds.append((d["l"], BYTE))
        elif ret_units and n in ret_units and ret_units[n]:
            for un in ret_units[n]:
                seeds.append((d["l"], un))
    # lengths of `str::lines()` items: lines() strips "\n" *and* "\r\n", so `len + 1` summed over lines is not a byte
    # distance in a CRLF document
    def from_lines(op, depth=0):
        r = f.root_of(op, through_named=True)
        for _ in range(8):
            if r[0] == "place":
                dd = [d for d in f.defs.get(r[1]["l"], []) if d[1] == "term"]
                if len(dd) != 1:
                    return False
                r = ("call", dd[0][0], dd[0][2])
                continue
            if r[0] != "call":
                return False
            n_ = M.callee_name(r[2]) or ""
            at_ = r[2].get("argtys") or []
            if n_.endswith("<impl str>::lines") or (at_ and "std::str::Lines" in at_[0]):
                return True
            if not r[2]["args"]:
                return False
            r = f.root_of(r[2]["args"][0], through_named=True)
        return False
    for bi, t in f.calls():
        n = M.callee_name(t) or ""
        d = t.get("dest")
        if not d or d["p"] or not t["args"]:
            continue
        if n == "core::str::<impl str>::len" and from_lines(t["args"][0]):
            seeds.append((d["l"], LINELEN))
        elif n.endswith(("Iterator::sum", "Iterator::fold", "Iterator::max", "Iterator::min")) and from_lines(t["args"][0]) and P is not None:
            # map(|l| l.len() ..) over lines(): the closure's result is a byte count of a stripped line
            r = f.root_of(t["args"][0], through_named=True)
            for _ in range(6):
                if r[0] != "call":
                    break
                for a in r[2]["args"][1:]:
                    cp = _closure_def(f, a)
                    if cp and cp in P.funcs and BYTE in closure_ret_units(P, cp):
                        seeds.append((d["l"], LINELEN))
                if not r[2]["args"]:
                    break
                r = f.root_of(r[2]["args"][0], through_named=True)
    for l, un in seeds:
        units.setdefault(l, set()).add(un)
    # field seeds: places ending in start_offset / end_offset of a Position
    changed = True
    rounds = 0
    while changed and rounds < 40:
        changed = False
        rounds += 1
        for bi, b in enumerate(f.blocks):
            for s in b["stmts"]:
                if s.get("s") != "assign":
                    continue
                dl = s["place"]["l"]
                if s["place"]["p"]:
                    continue
                rv = s["rv"]
                new = set()
                k = rv["k"]
                if k == "use":
                    q = M.op_place(rv["a"])
                    if q is not None:
                        last = q["p"][-1] if q["p"] else None
                        fu = FIELD_UNITS.get((last.get("name"), last.get("adt"))) if isinstance(last, dict) else None
                        if fu is not None:
                            new.add(fu)
                        else:
                            new |= u(q["l"])
                elif k == "binop":
                    if rv.get("op") in ("Add", "Sub", "AddWithOverflow", "SubWithOverflow", "AddUnchecked", "SubUnchecked"):
                        new |= op_units(rv["a"]) | op_units(rv["b"])
                elif k == "cast":
                    if "a" in rv:
                        q = M.op_place(rv["a"])
                        last = q["p"][-1] if q is not None and q["p"] else None
                        fu = FIELD_UNITS.get((last.get("name"), last.get("adt"))) if isinstance(last, dict) else None
                        if fu is not None:
                            new.add(fu)
                        else:
                            new |= op_units(rv["a"])
                elif k == "agg" and rv.get("ak") == "tuple":
                    for a in rv.get("ops", []):
                        new |= op_units(a)
                elif k == "unop" and rv.get("op") == "PtrMetadata":
                    if _is_char_seq(rv.get("aty") or ""):
                        new.add(CHAR)
                    else:
                        pl = M.op_place(rv["a"])
                        if pl is not None and _is_char_seq(f.local_ty(pl["l"])):
                            new.add(CHAR)
                if new - u(dl):
                    units.setdefault(dl, set()).update(new)
                    changed = True
            t = b["term"]
            if t["t"] == "call" and t.get("dest") and not t["dest"]["p"]:
                n = M.callee_name(t) or ""
                if n.endswith(PASS_CALLS) and t["args"]:
                    new = set()
                    for a in t["args"]:
                        new |= op_units(a)
                    if P is not None and n.endswith(CLOSURE_PASS):
                        for a in t["args"][1:]:
                            cp = _closure_def(f, a)
                            if cp and cp in P.funcs:
                                new |= closure_ret_units(P, cp)
                    dl = t["dest"]["l"]
                    if new - u(dl):
                        units.setdefault(dl, set()).update(new)
                        changed = True
    sinks = []
    for bi, t in f.calls():
        n = M.callee_name(t) or ""
        at = t.get("argtys") or []
        if len(at) < 2 or len(t["args"]) < 2:
            continue
        if (n.endswith("::index") or n.endswith("::index_mut") or n.endswith("::get") or n.endswith("::get_mut")) and _is_char_seq(at[0]):
            sinks.append((bi, "char-index", t["args"][1], t["span"], at[0]))
        elif (n.endswith("::index") or n.endswith("::get") or n.endswith("::split_at") or n.endswith("::is_char_boundary")) and _is_str(at[0]):
            sinks.append((bi, "byte-bound", t["args"][1], t["span"], at[0]))
    for bi, b in enumerate(f.blocks):
        t = b["term"]
        if t["t"] == "assert" and t.get("ak") == "BoundsCheck":
            ln = t.get("len")
            idx = t.get("index")
            if idx is None or ln is None:
                continue
            r = f.root_of(ln)
            seq = None
            if r[0] == "rv":
                pl = r[3]["rv"].get("place")
                if pl is not None:
                    seq = f.local_ty(pl["l"])
            if seq and _is_char_seq(seq):
                sinks.append((bi, "char-index", idx, t["span"], seq))
    return units, sinks


def _closure_def(f, op):
    r = f.root_of(op, through_named=True)
    if r[0] == "rv" and r[3]["rv"]["k"] == "agg" and r[3]["rv"].get("ak") == "closure":
        return r[3]["rv"]["def"]
    if r[0] == "const" and "closure" in r[1]:
        return r[1]["closure"]
    return None


_CRET = {}


def closure_ret_units(P, cp):
    cache = P.__dict__.setdefault("_closure_ret_units", {})
    if cp not in cache:
        cache[cp] = set()
        c = P.funcs[cp]
        us, _ = analyse(c, P)
        cache[cp] = set(us.get(0, set()))
    return cache[cp]


CMP = ("Lt", "Le", "Gt", "Ge", "Eq", "Ne")
ARITH = ("Add", "Sub", "AddWithOverflow", "SubWithOverflow", "AddUnchecked", "SubUnchecked")


def mixes(f, units):
    """[(bb, kind, op, units a, units b, span)] comparisons / sums whose operands carry different, disjoint units."""
    out = []
    for bi, b in enumerate(f.blocks):
        for st in b["stmts"]:
            if st.get("s") != "assign" or st["rv"]["k"] != "binop":
                continue
            rv = st["rv"]
            if rv["op"] not in CMP + ARITH:
                continue
            pa, pb = M.op_place(rv["a"]), M.op_place(rv["b"])
            ua = units.get(pa["l"], set()) if pa is not None else set()
            ub = units.get(pb["l"], set()) if pb is not None else set()
            if ua and ub and not (ua & ub):
                out.append((bi, "compare" if rv["op"] in CMP else "arith", rv["op"], ua, ub, st["span"]))
    return out


def module_analysis(P, prefix, rounds=3):
    """interprocedural (call-site -> parameter, return -> call result) unit analysis of the functions under `prefix`."""
    fns = {p: f for p, f in P.funcs.items() if p.startswith(prefix)}
    params = {p: {} for p in fns}
    rets = {}
    result = {}
    for _ in range(rounds):
        for p, f in fns.items():
            us, sinks = analyse(f, P, params[p], rets)
            result[p] = (us, sinks)
            r0 = set(us.get(0, set()))
            if "usize" in f.local_ty(0) or "u32" in f.local_ty(0):
                rets[p] = r0
            for bi, t in f.calls():
                n = M.callee_name(t) or ""
                if n in fns and n != p:
                    for i, a in enumerate(t["args"]):
                        q = M.op_place(a)
                        if q is None:
                            continue
                        ua = us.get(q["l"], set())
                        if ua and i + 1 <= fns[n].argc and ("usize" in fns[n].local_ty(i + 1) or "u32" in fns[n].local_ty(i + 1)):
                            params[n].setdefault(i + 1, set()).update(ua)
    return result, params


def range_operand_units(f, op, units):
    """units of the bounds of a Range* aggregate operand (or of a plain usize operand)."""
    p = M.op_place(op)
    if p is None:
        return set()
    out = set(units.get(p["l"], set()))
    d = f.single_def(p["l"])
    if d is not None and d[1] != "term":
        rv = d[2]["rv"]
        if rv["k"] == "agg":
            for a in rv.get("ops", []):
                q = M.op_place(a)
                if q is not None:
                    out |= units.get(q["l"], set())
    return out


def check(P, res, rule, prefixes, floor):
    n = 0
    for p_, f in sorted(P.funcs.items()):
        if not p_.startswith(tuple(prefixes)):
            continue
        units, sinks = analyse(f)
        seen = {}
        for (bi, kind, op, span, seq) in sinks:
            n += 1
            us = range_operand_units(f, op, units)
            k0 = (kind,)
            seen[k0] = seen.get(k0, 0) + 1
            if kind == "char-index" and BYTE in us:
                res.bad(rule, "%s # byte offset indexes characters # %d" % (p_, seen[k0]),
                        "an index into a sequence of chars (%s) is derived from a byte offset (str::find / len / Match::end ...): the two agree only "
                        "for ASCII text, so with a multi-byte character before it the wrong character is read" % seq.replace("&", ""), span)
            elif kind == "byte-bound" and CHAR in us:
                res.bad(rule, "%s # character count slices bytes # %d" % (p_, seen[k0]),
                        "a bound of a str slice is derived from a count of characters: with a multi-byte character before it the slice is wrong or panics", span)
            else:
                res.ok(rule, "%s: %s at %s:%s has no unit conflict" % (p_, kind, span["file"], span["line"]))
    res.floor(rule, "char-sequence indexes and str slice bounds examined", n, floor)
    return n
