"""Check framework: contexts, results, known findings, evidence writing."""
import json, os, sys, time
from . import facts as F
from . import mir as M

VERIF = F.VERIF


class Violation:
    def __init__(self, rule, key, msg, where=None, data=None):
        self.rule = rule          # rule name, e.g. "EFFECT-GUARD"
        self.key = key            # line-free stable key (used for known-findings matching)
        self.msg = msg            # one-line human text
        self.where = where        # "file:line" (informational only)
        self.data = data or {}


class Result:
    def __init__(self, pid):
        self.pid = pid
        self.obligations = []     # (rule, instance, status)  status in ok|violated|discharged:<rule>|residue
        self.violations = []
        self.samples = []
        self.notes = []
        self.assumptions = []
        self.explanation = ""
        self.extra = {}
        self.counts = {}

    def ok(self, rule, instance, how="ok"):
        self.obligations.append((rule, instance, how))

    def bad(self, rule, key, msg, where=None, data=None):
        self.obligations.append((rule, key, "violated"))
        if isinstance(where, dict) and "file" in where:
            where = "%s:%s" % (where["file"], where.get("line"))
        self.violations.append(Violation(rule, key, msg, where, data))

    def note(self, s):
        self.notes.append(s)

    def sample(self, s):
        if len(self.samples) < 40:
            self.samples.append(s)

    def floor(self, rule, what, got, minimum):
        """fail closed when a rule matched far fewer instances than were confirmed by hand (the rule would be vacuous).
        `minimum` is the confirmed count; merging two call sites into a helper or removing a duplicate legitimately lowers a
        count a little, so the alarm is raised below 60% of it (and always at zero); a smaller drop is noted in the evidence."""
        confirmed = minimum
        minimum = max(1, (confirmed * 6 + 9) // 10) if confirmed > 1 else confirmed
        if minimum <= got < confirmed:
            self.note("%s: %d instance(s) of %s, %d were confirmed by hand when the rule was written (code restructured?)" % (rule, got, what, confirmed))
        if got < minimum:
            self.bad(rule, "%s # floor # %s" % (rule, what),
                     "%s: only %d instance(s) of %s found, %d were confirmed by hand; the rule would be vacuous "
                     "(anchor renamed or restructured?)" % (rule, got, what, minimum))
        else:
            self.ok(rule, "floor:%s=%d(>=%d)" % (what, got, minimum))


class Ctx:
    def __init__(self, tier):
        self.tier = tier
        t0 = time.time()
        mirdoc, shape, hh, secs = F.load()
        # functions that were only renamed / moved since the tables were reviewed are analysed under their reviewed names
        from . import fnrename as FR
        self.renamed = {}
        if not mirdoc.get("_renamed_applied"):
            al = FR.aliases(mirdoc, FR.load_table(VERIF))
            FR.apply(mirdoc, shape, al)
            mirdoc["_renamed_applied"] = al
        self.renamed = mirdoc.get("_renamed_applied") or {}
        self.P = M.Program(mirdoc)
        self.shape = shape
        self.tree = hh
        self.extract_s = secs
        self.load_s = time.time() - t0
        self.repo = F.REPO
        self._src = {}

    def src_lines(self, rel):
        if rel not in self._src:
            with open(os.path.join(self.repo, rel), encoding="utf-8", errors="replace") as fh:
                self._src[rel] = fh.read().split("\n")
        return self._src[rel]

    def src_text(self, rel, sp):
        """source text of a gshape span [l, c, el, ec] (1-based lines, 0-based char columns)."""
        lines = self.src_lines(rel)
        l, c, el, ec = sp
        if l == el:
            return lines[l - 1][c:ec]
        out = [lines[l - 1][c:]]
        out += lines[l:el - 1]
        out.append(lines[el - 1][:ec])
        return "\n".join(out)


def load_known():
    p = os.path.join(VERIF, "known-findings.json")
    if not os.path.exists(p):
        return {"findings": [], "fixed": []}
    with open(p) as fh:
        return json.load(fh)


def finish(res, tier, t0, level="other"):
    """Subtract known findings (exact key), write evidence, print verdict lines, return exit code."""
    known = load_known()
    kf = {}
    for e in known.get("findings", []):
        if e["property"] == res.pid:
            kf[e["key"]] = e
    real = []
    listed = []
    for v in res.violations:
        if v.key in kf:
            listed.append((v, kf[v.key]))
        else:
            real.append(v)
    outdir = os.path.join(VERIF, "out")
    os.makedirs(outdir, exist_ok=True)
    os.makedirs(os.path.join(VERIF, "evidence"), exist_ok=True)
    for v, e in listed:
        print("KNOWN-FINDING: property=%s %s [%s] %s" % (res.pid, e.get("what", v.msg), v.rule, v.where or ""))
    stale = [k for k in kf if k not in {v.key for v, _ in listed}]
    for k in stale:
        print("note: known finding no longer reported (fixed or code moved): %s" % k)
    code = 0
    for i, v in enumerate(real):
        rp = os.path.join(outdir, "%s-violation-%d.json" % (res.pid, i))
        with open(rp, "w") as fh:
            json.dump({"property": res.pid, "rule": v.rule, "key": v.key, "message": v.msg,
                       "where": v.where, "data": v.data, "tree": getattr(res, "tree", None)}, fh, indent=1)
        print("%s: [%s] %s  (%s)" % (res.pid, v.rule, v.msg, v.where or "-"))
        print("VIOLATION property=%s replay=%s" % (res.pid, rp))
        code = 1
    n_obl = len(res.obligations)
    n_viol = sum(1 for o in res.obligations if o[2] == "violated")
    nontrivial = len({(o[0], o[1]) for o in res.obligations if o[2] != "ok" or True})
    distinct = len({(o[0], o[1]) for o in res.obligations})
    by_rule = {}
    for r, inst, st in res.obligations:
        d = by_rule.setdefault(r, {"instances": 0, "violated": 0})
        d["instances"] += 1
        if st == "violated":
            d["violated"] += 1
    cov = {
        "explanation": res.explanation,
        "evaluations": max(n_obl, 1),
        "distinct_nontrivial": distinct,
        "rule": "each rule instance (call site, CFG path obligation, table row, panic-capable site) found in the "
                "current tree is one evaluation; distinct = distinct (rule, instance-key) pairs",
        "samples": res.samples or [o[1] for o in res.obligations[:10]],
        "obligations": n_obl,
        "discharged": n_obl - n_viol,
        "exhaustive": True,
        "rules": by_rule,
        "known_findings_reported": [e["key"] for _, e in listed],
        "notes": res.notes,
        "tree_hash": getattr(res, "tree", ""),
    }
    cov.update(res.extra)
    ev = {
        "property_id": res.pid,
        "tier": tier,
        "seed": int(os.environ.get("VERIF_SEED", "0") or 0),
        "level": level,
        "coverage": cov,
        "assumptions": res.assumptions,
        "wall_s": round(time.time() - t0, 3),
        "violations": len(real),
    }
    # runs against a scratch tree (VERIF_REPO, used by selftest and the seed/refactor tools) do not overwrite the
    # evidence of /repo
    evdir = os.path.join(VERIF, "evidence") if not os.environ.get("VERIF_REPO") else os.path.join(outdir, "scratch-evidence")
    os.makedirs(evdir, exist_ok=True)
    with open(os.path.join(evdir, res.pid + ".json"), "w") as fh:
        json.dump(ev, fh, indent=1)
    if code == 0:
        print("%s: OK  (%d rule instances over tree %s; %d known finding(s) listed; %.1fs)" % (
            res.pid, n_obl, getattr(res, "tree", "?"), len(listed), time.time() - t0))
    return code
