"""PANIC-INV: inventory of panic-capable sites reachable from a set of roots, discharge rules, reviewed residue."""
import json, os, re
from . import mir as M
from . import dflow as D
from . import panics as PN
from .core import VERIF

UNSIGNED = ("usize", "u32", "u64", "u128")


# ------------------------------------------------------------------ discharge rules
def d_usize(P, f, s):
    if s.kind in ("assert:Overflow(Add)", "assert:Overflow(Mul)") and s.detail in UNSIGNED:
        return "D-USIZE: unsigned add/mul of lengths/offsets; overflow needs > 2^63 bytes of input"
    return None


def _slice_param_root(f, op):
    """the parameter (local index) a PtrMetadata/len operand measures, or None."""
    r = f.root_of(op, through_named=True)
    if r[0] == "rv" and r[3]["rv"]["k"] == "unop" and r[3]["rv"]["op"] in ("PtrMetadata", "Len"):
        r = f.root_of(r[3]["rv"]["a"], through_named=True)
    if r[0] == "place":
        return r[1]
    if r[0] == "call" and (M.callee_name(r[2]) or "").endswith("::len") and r[2]["args"]:
        r2 = f.root_of(r[2]["args"][0], through_named=True)
        if r2[0] == "place":
            return r2[1]
    return None


def arity_checks(f):
    """[(continue_block, N, values_place, positions_place)] for `check_arity(.., N, positions, values)?`"""
    if hasattr(f, "_arity_checks"):
        return f._arity_checks
    out = []
    for bi, t in f.calls():
        if M.callee_name(t) != "eval::check_arity" or len(t["args"]) < 6:
            continue
        n = D.const_int(f, t["args"][3])
        if n is None:
            continue
        cont = D.try_continue_block(f, bi)
        if cont is None:
            continue
        pv = f.root_of(t["args"][5], through_named=True)
        pp = f.root_of(t["args"][4], through_named=True)
        out.append((cont[1], n, pv[1] if pv[0] == "place" else None, pp[1] if pp[0] == "place" else None))
    f._arity_checks = out
    return out


def _noderef(p):
    return {"l": p["l"], "p": [e for e in p["p"] if e != "deref"]}


def _same_place(a, b):
    """reference-insensitive place equality (`*_6` and `_6` name the same slice)."""
    return a is not None and b is not None and a["l"] == b["l"] and \
        M.place_key(_noderef(a)) == M.place_key(_noderef(b))


def d_arity(P, f, s):
    idx = None
    base = None
    if s.kind == "assert:BoundsCheck":
        idx = D.const_int(f, s.term["index"])
        base = _slice_param_root(f, s.term["len"])
    elif s.kind in ("call:Vec::index", "call:slice::index") and len(s.term["args"]) == 2:
        idx = D.const_int(f, s.term["args"][1])
        r = f.root_of(s.term["args"][0], through_named=True)
        base = r[1] if r[0] == "place" else None
    if idx is None or base is None:
        return None
    for (cont, n, pv, pp) in arity_checks(f):
        if n > idx and (_same_place(base, pv) or _same_place(base, pp)) and f.dominates(cont, s.bb):
            which = "values" if _same_place(base, pv) else "positions (same length as values, EQUAL-LEN)"
            return "D-ARITY: index %d < %d guaranteed by check_arity(.., %d, ..)? on the argument %s" % (idx, n, n, which)
    return None


def _len_constraints(f):
    """edges on which `len(X) >= m` is known: list of (switch_bb, target_bb, place X, m)"""
    if hasattr(f, "_len_constraints"):
        return f._len_constraints
    out = []
    for sw in D.bool_switches(f):
        r = sw["root"]
        if r[0] == "call":
            n = M.callee_name(r[2]) or ""
            if n.endswith("::is_empty") and r[2]["args"]:
                x = f.root_of(r[2]["args"][0], through_named=True)
                if x[0] == "place":
                    out.append((sw["bb"], sw["false"], x[1], 1))
            continue
        if r[0] != "rv" or r[3]["rv"]["k"] != "binop":
            continue
        rv = r[3]["rv"]
        op = rv["op"]
        la, lb = _slice_param_root(f, rv["a"]), _slice_param_root(f, rv["b"])
        ca, cb = D.const_int(f, rv["a"]), D.const_int(f, rv["b"])
        # is an operand a length?
        def is_len(o):
            rr = f.root_of(o, through_named=True)
            if rr[0] == "call" and (M.callee_name(rr[2]) or "").endswith("::len"):
                return True
            if rr[0] == "rv" and rr[3]["rv"]["k"] == "unop" and rr[3]["rv"]["op"] in ("PtrMetadata", "Len"):
                return True
            return False
        if is_len(rv["a"]) and cb is not None and la is not None:
            X, c = la, cb
            cons = {"Eq": ("true", c), "Ne": ("false", c), "Ge": ("true", c), "Gt": ("true", c + 1), "Lt": ("false", c), "Le": ("false", c + 1)}
        elif is_len(rv["b"]) and ca is not None and lb is not None:
            X, c = lb, ca
            cons = {"Eq": ("true", c), "Ne": ("false", c), "Le": ("true", c), "Lt": ("true", c + 1), "Gt": ("false", c), "Ge": ("false", c + 1)}
        else:
            continue
        if op in cons:
            edge, m = cons[op]
            out.append((sw["bb"], sw[edge], X, m))
    f._len_constraints = out
    return out


def d_len(P, f, s):
    idx = None
    base = None
    if s.kind == "assert:BoundsCheck":
        idx = D.const_int(f, s.term["index"])
        base = _slice_param_root(f, s.term["len"])
    elif s.kind in ("call:Vec::index", "call:slice::index") and len(s.term["args"]) == 2:
        idx = D.const_int(f, s.term["args"][1])
        r = f.root_of(s.term["args"][0], through_named=True)
        base = r[1] if r[0] == "place" else None
    if idx is None or base is None:
        return None
    for (sb, tgt, X, m) in _len_constraints(f):
        if m > idx and _same_place(X, base) and tgt is not None and s.bb in D.edge_dominated(f, sb, tgt):
            return "D-LEN: index %d under a dominating test that the length is at least %d" % (idx, m)
    return None


def d_constidx(P, f, s):
    """an index into a fixed-size array with a constant index below the array's (constant) length."""
    if s.kind != "assert:BoundsCheck":
        return None
    idx = D.const_int(f, s.term["index"])
    ln = D.const_int(f, s.term["len"])
    if idx is not None and ln is not None and 0 <= idx < ln:
        return "D-CONSTIDX: constant index %d into an array of constant length %d" % (idx, ln)
    return None


def d_constre(P, f, s):
    if s.kind not in ("call:Result::unwrap", "call:Result::expect"):
        return None
    r = f.root_of(s.term["args"][0], through_named=True)
    if r[0] == "call" and (M.callee_name(r[2]) or "") == "regex::Regex::new":
        c = f.root_of(r[2]["args"][0])
        if c[0] == "const" and "s" in c[1]:
            return "D-CONSTRE: Regex::new on the literal %r (compiled by the C12 REGEX-COMPILE check)" % c[1]["s"][:40]
    return None


def d_lock(P, f, s):
    if s.kind not in ("call:Result::unwrap", "call:Result::expect"):
        return None
    r = f.root_of(s.term["args"][0], through_named=True)
    if r[0] == "call" and (M.callee_name(r[2]) or "").endswith("Mutex::<T>::lock"):
        return "D-LOCK: lock() fails only if another thread panicked while holding the mutex (no panic => no poison)"
    return None


def d_sub_guard(P, f, s):
    """unsigned `a - b` dominated by a test that a >= b (or a > b), on the edge where it holds."""
    if s.kind != "assert:Overflow(Sub)" or s.detail not in UNSIGNED:
        return None
    a, b = s.term["a"], s.term["b"]
    ka, kb = PN.describe_operand(f, a), PN.describe_operand(f, b)
    cb = D.const_int(f, b)
    for sw in D.bool_switches(f):
        r = sw["root"]
        if r[0] != "rv" or r[3]["rv"]["k"] != "binop":
            continue
        rv = r[3]["rv"]
        x, y = PN.describe_operand(f, rv["a"]), PN.describe_operand(f, rv["b"])
        op = rv["op"]
        cy = D.const_int(f, rv["b"])
        edge = None
        # a >= b
        if (x, y) == (ka, kb) and op in ("Ge", "Gt"):
            edge = "true"
        elif (x, y) == (ka, kb) and op in ("Lt", "Le") and (op == "Lt"):
            edge = "false"
        elif (x, y) == (kb, ka) and op in ("Le", "Lt"):
            edge = "true"
        elif (x, y) == (kb, ka) and op == "Gt":
            edge = "false"
        # a - const under a > const' / a >= const' / a != 0 / a == 0 false
        elif cb is not None and x == ka and cy is not None:
            if op == "Gt" and cy + 1 >= cb:
                edge = "true"
            elif op == "Ge" and cy >= cb:
                edge = "true"
            elif op == "Eq" and cy == 0 and cb == 1:
                edge = "false"
            elif op == "Ne" and cy == 0 and cb == 1:
                edge = "true"
            elif op == "Lt" and cy >= cb:
                edge = "false"
            elif op == "Le" and cy + 1 >= cb:
                edge = "false"
        if edge and sw[edge] is not None and s.bb in D.edge_dominated(f, sw["bb"], sw[edge]):
            return "D-SUBGUARD: %s - %s under a dominating comparison that makes it non-negative" % (ka, kb)
    return None


RULES = []


# ------------------------------------------------------------------ inventory
def site_key(P, f, s):
    arm = D.arm_label(f, s.bb, enums={"BuiltInFunctionKind", "BuiltInMethodKind"}) if f.n > 400 else ""
    fn = f.path
    return "%s # %s%s # %s" % (fn, (arm + " # ") if arm else "", s.kind, s.detail)


_PROGRAM = None


def inventory(P, roots, rta=True, stop=()):
    global _PROGRAM
    _PROGRAM = P
    reach = P.reachable(roots, rta=rta, stop=stop)
    out = []
    for p in sorted(reach):
        f = P.funcs[p]
        for s in PN.sites_of(f):
            why = None
            for rule in RULES:
                why = rule(P, f, s)
                if why:
                    break
            s.discharged = why
            out.append((f, s))
    return reach, out


def load_residue():
    p = os.path.join(VERIF, "tables", "residue.json")
    if not os.path.exists(p):
        return {}
    return json.load(open(p))["rows"]


def source_line(ctx, span):
    try:
        return ctx.src_lines(span["file"])[span["line"] - 1].strip()
    except Exception:
        return ""


# ------------------------------------------------------------------ D-FRAME (frame stack never empty)
FRAME_VEC_TY = "Vec<env::StackFrame>"
_FRAME_OK_CALLEES = ("::deref", "::deref_mut", "::index", "::index_mut", "::is_empty", "::len", "::push",
                     "::clone", "::iter", "::iter_mut", "::last", "::last_mut", "::first", "::get", "::as_slice")


def frame_invariant(P):
    """FRAME-NONEMPTY: who-may-shrink rule over every call in the crate that receives the frame vector
    (`Vec<StackFrame>`): only `pop` under the false edge of `len == 1` and `truncate(k>=1)` may shrink it.
    Returns (ok, [problem strings], n_instances)."""
    if hasattr(P, "_frame_inv"):
        return P._frame_inv
    problems = []
    n = 0
    for f in P.funcs.values():
        for bi, t in f.calls():
            tys = t.get("argtys") or []
            if not any(FRAME_VEC_TY in x for x in tys):
                continue
            name = PN.norm_path(M.callee_name(t) or "?")
            recv = tys[0] if tys else ""
            if FRAME_VEC_TY not in recv:
                # the vector is passed as a non-receiver argument (mem::swap/take/replace, extend ...)
                problems.append("%s: frame vector passed to `%s` (%s)" % (f.path, name, f.loc(t.get("fn_span"))))
                continue
            n += 1
            if name.endswith("Vec::<T, A>::pop"):
                ok = False
                for sw in D.bool_switches(f):
                    r = sw["root"]
                    if r[0] != "rv" or r[3]["rv"]["k"] != "binop" or r[3]["rv"]["op"] != "Eq":
                        continue
                    rv = r[3]["rv"]
                    c = D.const_int(f, rv["b"])
                    la = f.root_of(rv["a"], through_named=True)
                    if c != 1 or la[0] != "call" or not (M.callee_name(la[2]) or "").endswith("::len"):
                        continue
                    if FRAME_VEC_TY not in ((la[2].get("argtys") or [""])[0]):
                        continue
                    if sw["false"] is not None and bi in D.edge_dominated(f, sw["bb"], sw["false"]):
                        ok = True
                        break
                if not ok:
                    problems.append("%s: frame vector `pop()` not under the false edge of `len() == 1` (%s)" % (f.path, f.loc(t.get("fn_span"))))
            elif name.endswith("Vec::<T, A>::truncate"):
                k = D.const_int(f, t["args"][1]) if len(t["args"]) > 1 else None
                if k is None or k < 1:
                    problems.append("%s: frame vector truncate(%s) may empty it (%s)" % (f.path, k, f.loc(t.get("fn_span"))))
            elif not name.endswith(_FRAME_OK_CALLEES):
                problems.append("%s: frame vector handed to `%s`, which may shrink it (%s)" % (f.path, name, f.loc(t.get("fn_span"))))
    P._frame_inv = (not problems, problems, n)
    return P._frame_inv


def _def_call(f, op):
    """the call that produced (the referent of) an operand: sees through `&*` re-borrows."""
    r = f.root_of(op, through_named=True, through_deref_calls=False)
    if r[0] == "call":
        return r[2]
    if r[0] == "place" and all(e == "deref" for e in r[1]["p"]):
        d = f.single_def(r[1]["l"])
        if d is not None and d[1] == "term":
            return d[2]
    return None


def _is_frame_vec_access(f, op):
    """operand is last()/last_mut()/first() of (a deref of) the frame vector."""
    c = _def_call(f, op)
    if c is None or not (M.callee_name(c) or "").endswith(("::last", "::last_mut", "::first", "::first_mut")):
        return False
    a = _def_call(f, c["args"][0])
    for _ in range(3):
        if a is not None and (M.callee_name(a) or "").endswith(("::deref", "::deref_mut")):
            if FRAME_VEC_TY in ((a.get("argtys") or [""])[0]):
                return True
            a = _def_call(f, a["args"][0])
        else:
            break
    return False


def d_frame(P, f, s):
    if s.kind not in ("call:Option::unwrap", "call:Option::expect"):
        return None
    if not _is_frame_vec_access(f, s.term["args"][0]):
        return None
    ok, problems, n = frame_invariant(P)
    if ok:
        return "D-FRAME: the frame vector is never empty (FRAME-NONEMPTY: %d receivers checked; only pop under len()!=1 and truncate(1) shrink it)" % n
    return None


# ------------------------------------------------------------------ D-VALSTACK
def d_valstack(P, f, s):
    if s.kind not in ("call:Option::unwrap", "call:Option::expect"):
        return None
    r = f.root_of(s.term["args"][0], through_named=True)
    if r[0] == "call" and (M.callee_name(r[2]) or "") == "env::Env::pop_value":
        return ("D-VALSTACK: pop of the value stack in an evaluated-subexpressions handler; relies on the value-stack "
                "discipline (each scheduled sub-expression pushes exactly one value) -- reviewed class, see VALSTACK-COUNT")
    return None


# ------------------------------------------------------------------ D-PEEK
_PEEK_OK = ("TokenStream::<'a>::peek", "parser::peeked_symbol_is", "TokenStream::<'a>::prev", "TokenStream::<'a>::is_empty",
            "TokenStream::<'a>::peek_two")


def _tokens_local(f, op):
    r = f.root_of(op, through_named=True)
    if r[0] == "place":
        return r[1]["l"]
    return None


def d_peek(P, f, s):
    """`tokens.pop().unwrap()` dominated by a successful peek on the same stream with nothing consumed between."""
    if s.kind not in ("call:Option::unwrap", "call:Option::expect"):
        return None
    r = f.root_of(s.term["args"][0], through_named=True)
    if r[0] != "call" or not (M.callee_name(r[2]) or "").endswith("TokenStream::<'a>::pop"):
        return None
    pop_bb = r[1]
    tl = _tokens_local(f, r[2]["args"][0])
    if tl is None:
        return None
    cands = []
    # (a) if peeked_symbol_is(tokens, ..) { .. }
    for sw in D.bool_switches(f):
        rr = sw["root"]
        if rr[0] == "call" and (M.callee_name(rr[2]) or "").endswith("parser::peeked_symbol_is") and \
                _tokens_local(f, rr[2]["args"][0]) == tl and sw["true"] is not None:
            cands.append((sw["bb"], sw["true"], "peeked_symbol_is"))
    # (b) if let Some(token) = tokens.peek() { .. }
    for sw in D.enum_switches(f):
        pl = sw["place"]
        d = f.single_def(pl["l"]) if not pl["p"] else None
        if d is None or d[1] != "term":
            continue
        if not (M.callee_name(d[2]) or "").endswith("TokenStream::<'a>::peek"):
            continue
        if _tokens_local(f, d[2]["args"][0]) != tl:
            continue
        for tgt, names in sw["by_target"].items():
            if names == ["Some"]:
                cands.append((sw["bb"], tgt, "peek() == Some"))
        if sw["otherwise_variants"] == ["Some"] and sw["otherwise"] not in sw["by_target"]:
            cands.append((sw["bb"], sw["otherwise"], "peek() == Some"))
    for (sb, tgt, how) in cands:
        region = D.edge_dominated(f, sb, tgt)
        if pop_bb not in region:
            continue
        # blocks on paths edge-target -> pop block
        fwd = D.reach_from(f, [tgt])
        between = {b for b in fwd if b in region and pop_bb in D.reach_from(f, [b])} - {pop_bb}
        clean = True
        for b in between:
            t = f.blocks[b]["term"]
            if t["t"] != "call":
                continue
            n = M.callee_name(t) or ""
            if any(_tokens_local(f, a) == tl for a in t["args"]) and not n.endswith(_PEEK_OK):
                clean = False
                break
        if clean:
            return "D-PEEK: pop() under a successful %s on the same token stream with nothing consumed in between" % how
    return None


# ------------------------------------------------------------------ D-DISPATCH
def _callers_of(P, path):
    if not hasattr(P, "_rev_calls"):
        rev = {}
        for g in P.funcs.values():
            for bi, t in g.calls():
                n = M.callee_name(t)
                if n in P.funcs:
                    rev.setdefault(n, []).append((g, bi))
        P._rev_calls = rev
    return P._rev_calls.get(path, [])


def d_dispatch(P, f, s):
    """unreachable!() in the fall-through arm of a helper's match on an enum, when every caller only
    calls the helper from arms of a match on the same enum whose variants all have explicit arms here."""
    if s.kind not in ("call:panic", "call:panic_fmt") or "entered unreachable code" not in s.detail:
        return None
    ctx = D.arm_context(f, s.bb)
    if not ctx:
        return None
    ety, W = ctx[-1]
    callers = _callers_of(P, f.path)
    if not callers:
        return None
    seenV = set()
    for g, bi in callers:
        cc = [c for c in D.arm_context(g, bi) if c[0].replace("&", "").strip() == ety.replace("&", "").strip()]
        if not cc:
            return None
        V = set(cc[-1][1])
        if V & set(W):
            return None
        seenV |= V
    return "D-DISPATCH: callers reach this helper only for %s variants {%s}, all of which have explicit arms here" % (
        D.short_ty(ety), ", ".join(sorted(seenV)))


# ------------------------------------------------------------------ D-BORROW
def _cell_ty(t):
    a = (t.get("argtys") or [""])[0]
    m = re.search(r"RefCell<(.*)>$", a)
    return m.group(1) if m else a


def borrow_sites(f):
    """[(bb, term, cell type, mode, guard local or None)] for RefCell borrow-like calls in f."""
    if hasattr(f, "_borrow_sites"):
        return f._borrow_sites
    out = []
    for bi, t in f.calls():
        k = PN.panic_api_kind(M.callee_name(t) or "")
        if k not in ("RefCell::borrow", "RefCell::borrow_mut"):
            continue
        mode = "mut" if k.endswith("mut") else "shared"
        n = M.callee_name(t) or ""
        guard = t["dest"]["l"] if (not t["dest"]["p"] and n.endswith(("::borrow", "::borrow_mut"))) else None
        out.append((bi, t, _cell_ty(t), mode, guard))
    f._borrow_sites = out
    return out


def guard_region(f, call_bb, g):
    """blocks whose *terminator* executes while guard local g (or a local it was moved into) is alive."""
    t = f.blocks[call_bb]["term"]
    if t["target"] is None:
        return set()
    alias = {g}
    changed = True
    while changed:
        changed = False
        for b in f.blocks:
            for st in b["stmts"]:
                if st["s"] == "assign" and st["rv"]["k"] == "use":
                    q = M.op_place(st["rv"]["a"])
                    if q is not None and not q["p"] and q["l"] in alias and not st["place"]["p"] and st["place"]["l"] not in alias:
                        alias.add(st["place"]["l"]); changed = True
    region = set()
    dq = [t["target"]]
    seen = set(dq)
    while dq:
        b = dq.pop()
        blk = f.blocks[b]
        if blk["cleanup"]:
            continue
        ended = any(st["s"] == "dead" and st.get("l", st.get("local")) in alias for st in blk["stmts"])
        tt = blk["term"]
        if not ended:
            region.add(b)
        if ended:
            continue
        if tt["t"] == "drop" and not tt["place"]["p"] and tt["place"]["l"] in alias:
            continue
        for nx in f.succ[b]:
            if nx not in seen:
                seen.add(nx); dq.append(nx)
    return region


def borrow_summary(P):
    """fn path -> set of (cell type, mode) borrowed by the function or anything it may call."""
    if hasattr(P, "_borrow_summary"):
        return P._borrow_summary
    E = P.edges()
    direct = {}
    for f in P.funcs.values():
        direct[f.path] = {(ct, m) for (_, _, ct, m, _) in borrow_sites(f)}
    summ = {p: set(v) for p, v in direct.items()}
    changed = True
    while changed:
        changed = False
        for p, es in E.items():
            cur = summ[p]
            before = len(cur)
            for kind, tgt, bi in es:
                if kind == "live":
                    continue
                if tgt in summ:
                    cur |= summ[tgt]
            if len(cur) != before:
                changed = True
    P._borrow_summary = summ
    return summ


def _conflict(m1, m2):
    return m1 == "mut" or m2 == "mut"


def borrow_overlaps(P, reach):
    """BORROW-OVERLAP obligations over the reachable functions.
    Returns (n_guards, [(fn, where, message, key)])  -- candidate double borrows."""
    summ = borrow_summary(P)
    E = P.edges()
    out = []
    n = 0
    for p in sorted(reach):
        f = P.funcs[p]
        bs = borrow_sites(f)
        if not bs:
            continue
        tgt_by_bb = {}
        for kind, tgt, bi in E.get(p, []):
            if kind != "live":
                tgt_by_bb.setdefault(bi, set()).add(tgt)
        for (bi, t, ct, mode, g) in bs:
            if g is None:
                continue
            n += 1
            region = guard_region(f, bi, g)
            for (bj, t2, ct2, mode2, g2) in bs:
                if bj == bi or bj not in region:
                    continue
                if ct2 == ct and _conflict(mode, mode2):
                    a1 = PN.describe_operand(f, t["args"][0]); a2 = PN.describe_operand(f, t2["args"][0])
                    out.append((f, f.loc(t2.get("fn_span")),
                                "%s of `%s` while a %s guard of `%s` (same cell type %s) is alive" % (
                                    "borrow_mut" if mode2 == "mut" else "borrow", a2,
                                    "RefMut" if mode == "mut" else "Ref", a1, D.short_ty(ct)),
                                "%s # overlap # %s/%s # %s/%s" % (p, a1, mode, a2, mode2)))
            for b in region:
                for tgt in tgt_by_bb.get(b, ()):
                    for (ct2, mode2) in summ.get(tgt, ()):
                        if ct2 == ct and _conflict(mode, mode2):
                            a1 = PN.describe_operand(f, t["args"][0])
                            out.append((f, f.loc(f.blocks[b]["term"].get("fn_span") or f.blocks[b]["term"].get("span")),
                                        "call into `%s`, which may %s a RefCell<%s>, while a %s guard of `%s` is alive" % (
                                            tgt, "mutably borrow" if mode2 == "mut" else "borrow", D.short_ty(ct),
                                            "RefMut" if mode == "mut" else "Ref", a1),
                                        "%s # held-across-call # %s/%s # %s/%s" % (p, a1, mode, tgt, mode2)))
    # dedupe
    seen = set()
    ded = []
    for x in out:
        if x[3] in seen:
            continue
        seen.add(x[3]); ded.append(x)
    return n, ded


def d_borrow(P, f, s):
    if s.kind not in ("call:RefCell::borrow", "call:RefCell::borrow_mut"):
        return None
    # intra-procedural part; the interprocedural part is the BORROW-OVERLAP obligation list
    mode = "mut" if s.kind.endswith("mut") else "shared"
    ct = _cell_ty(s.term)
    for (bi, t, ct2, mode2, g) in borrow_sites(f):
        if g is None or bi == s.bb:
            continue
        if ct2 == ct and _conflict(mode, mode2) and s.bb in guard_region(f, bi, g):
            return None
    return "D-BORROW: no conflicting guard of RefCell<%s> is alive in this function here (callers are covered by BORROW-OVERLAP)" % D.short_ty(ct)


# ------------------------------------------------------------------ D-PROGRESS
def d_progress(P, f, s):
    """`assert!(tokens.idx > start_idx)` directly behind `if tokens.idx <= start_idx { break }` cannot fire."""
    if not s.kind.startswith("call:panic") or "The parser should always make forward progress" not in s.detail:
        return None
    from . import parseprog as PP
    idiom, why = PP.classify(P, f, s)
    if idiom == "G1":
        return "D-PROGRESS: " + why
    return None


# ------------------------------------------------------------------ D-ZERODIV
def d_zerodiv(P, f, s):
    """wrapping_rem_euclid / wrapping_div & co panic only on a zero divisor: discharged under the false edge of `rhs == 0`."""
    if s.kind != "call:int::zero-div" or len(s.term["args"]) < 2:
        return None
    rhs = PN.describe_operand(f, s.term["args"][1])
    for sw in D.bool_switches(f):
        r = sw["root"]
        if r[0] != "rv" or r[3]["rv"]["k"] != "binop" or r[3]["rv"]["op"] not in ("Eq", "Ne"):
            continue
        rv = r[3]["rv"]
        x, y = PN.describe_operand(f, rv["a"]), PN.describe_operand(f, rv["b"])
        if {x, y} != {rhs, "0"}:
            continue
        edge = "false" if rv["op"] == "Eq" else "true"
        if sw[edge] is not None and s.bb in D.edge_dominated(f, sw["bb"], sw[edge]):
            return "D-ZERODIV: the divisor %s is tested against 0 and this call is on the non-zero edge" % rhs
    return None


# ------------------------------------------------------------------ D-SLICEORDER (source slices by AST positions)
def _offset_desc(f, op):
    d = PN.describe_operand(f, op)
    if d.endswith(".start_offset") or d.endswith(".end_offset"):
        return d
    return None


def _le_guarded(f, bb, a, b):
    """a <= b holds at bb by a dominating comparison on the same described operands."""
    for sw in D.bool_switches(f):
        r = sw["root"]
        if r[0] != "rv" or r[3]["rv"]["k"] != "binop":
            continue
        rv = r[3]["rv"]
        x, y = PN.describe_operand(f, rv["a"]), PN.describe_operand(f, rv["b"])
        op = rv["op"]
        edge = None
        if (x, y) == (a, b):
            edge = {"Le": "true", "Lt": "true", "Gt": "false", "Eq": "true"}.get(op)
        elif (x, y) == (b, a):
            edge = {"Ge": "true", "Gt": "true", "Lt": "false", "Eq": "true"}.get(op)
        if edge and sw[edge] is not None and bb in D.edge_dominated(f, sw["bb"], sw[edge]):
            return True
    return False


def d_slice_order(P, f, s):
    """`&src[a..b]` with a, b offsets of syntax-tree positions: in order either because both come from one
    Position (POS-INVARIANT: start <= end) or because a dominating comparison says so; `..b` and `a..` need no
    order. Bounds and char boundaries rest on POS-INVARIANT (offsets are token boundaries of the sliced text)."""
    if s.kind != "call:str::index" or len(s.term["args"]) < 2:
        return None
    r = f.root_of(s.term["args"][1], through_named=True)
    if r[0] != "rv" or r[3]["rv"]["k"] != "agg" or not str(r[3]["rv"].get("adt", "")).startswith("std::ops::Range"):
        return None
    rv = r[3]["rv"]
    descs = [_offset_desc(f, o) for o in rv["ops"]]
    if any(d is None for d in descs):
        return None
    if rv["variant"] in ("RangeTo", "RangeFrom"):
        return "D-SLICEORDER: open-ended slice at the position offset %s (POS-INVARIANT: token boundary within the sliced text)" % descs[0]
    if rv["variant"] == "Range":
        a, b = descs
        if a.rsplit(".", 1)[0] == b.rsplit(".", 1)[0] and a.endswith(".start_offset") and b.endswith(".end_offset"):
            return "D-SLICEORDER: both bounds are the start/end of one Position %s (POS-INVARIANT: start <= end)" % a.rsplit(".", 1)[0]
        if _le_guarded(f, s.bb, a, b):
            return "D-SLICEORDER: %s <= %s by a dominating comparison (bounds within the text by POS-INVARIANT)" % (a, b)
    return None


RULES = [d_usize, d_arity, d_len, d_constidx, d_constre, d_lock, d_sub_guard, d_frame, d_valstack, d_peek, d_dispatch, d_borrow, d_slice_order, d_zerodiv, d_progress]


# ------------------------------------------------------------------ the PANIC-INV rule
def _fn_calls(f):
    if not hasattr(f, "_callee_names"):
        f._callee_names = {M.callee_name(t) or "" for _, t in f.calls()}
    return f._callee_names


def guarded_by_call(f, bb, callee_suffix):
    """bb is only reachable through one edge of a switch whose discriminant is (derived from) the result of a
    call to a function whose path ends with callee_suffix."""
    for bi in f.rpo:
        t = f.blocks[bi]["term"]
        if t["t"] != "switch":
            continue
        r = f.root_of(t["discr"], through_named=True)
        for _ in range(3):
            if r[0] == "rv" and r[3]["rv"]["k"] == "unop":
                r = f.root_of(r[3]["rv"]["a"], through_named=True)
            elif r[0] == "rv" and r[3]["rv"]["k"] == "discr":
                r = f.root_of({"copy": {"l": r[3]["rv"]["place"]["l"], "p": []}}, through_named=True)
            else:
                break
        if r[0] != "call" or not (M.callee_name(r[2]) or "").endswith(callee_suffix):
            continue
        for tgt in set(f.succ[bi]):
            if bb in D.edge_dominated(f, bi, tgt):
                return True
    return False


GUARD_LIKE = ("is_char_boundary", "starts_with", "ends_with", "strip_prefix", "strip_suffix", "saturating_sub",
              "checked_add", "checked_sub", "checked_mul", "checked_div", "checked_rem", "char_indices", "is_ascii", "clamp",
              "peeked_symbol_is", "has")
# (ubiquitous accessors such as len/get/first/min are left out on purpose: hoisting a repeated `s.len()` into a
# variable changes their count without changing any guard)


def guard_census(f):
    """how many times the function calls each guard-like std/helper routine (bounds, emptiness, boundary tests ..)."""
    if hasattr(f, "_census"):
        return f._census
    c = {}
    for _, t in f.calls():
        n = (M.callee_name(t) or "").split("::")[-1].split("<")[0]
        if n in GUARD_LIKE:
            c[n] = c.get(n, 0) + 1
    f._census = c
    return c


def census_lost(f, recorded):
    now = guard_census(f)
    return ["%s x%d (was x%d)" % (k, now.get(k, 0), v) for k, v in sorted(recorded.items()) if now.get(k, 0) < v]


_CMP = re.compile(r"^(Gt|Ge|Lt|Le|Ne|Eq)\((.*)\)=(T|F)$")


def _split_top(s):
    """split `a,b` at the top-level comma."""
    depth = 0
    for i, c in enumerate(s):
        if c in "([":
            depth += 1
        elif c in ")]":
            depth -= 1
        elif c == "," and depth == 0:
            return s[:i], s[i + 1:]
    return None


_ENUM_IS = re.compile(r"^(Option|Result)<.*> is (.*)$")
_PRED = re.compile(r"^(is_some|is_none|is_ok|is_err)\((.*)\)=(T|F)$")


def _shallow(expr, keep=2):
    """`is_empty(collect(filter_map(enumerate())))` -> `is_empty(collect($))`: how a tested value was *derived* beyond two
    levels of calls is not part of the condition (`.filter_map(f)` and `.filter(p).map(g)` give the same test)."""
    def parse(i, level):
        # returns (text, next index); parses one comma-separated argument list element starting at i
        out = []
        while i < len(expr):
            ch = expr[i]
            if ch == "(":
                # the identifier just emitted is a callee name
                j = len(out)
                while j > 0 and (out[j - 1].isalnum() or out[j - 1] in "_:<>"):
                    j -= 1
                inner, i = parse_args(i + 1, level + 1)
                if level + 1 > keep:
                    del out[j:]
                    out.append("$")
                else:
                    out.append("(" + inner + ")")
                continue
            if ch in ",)":
                return "".join(out), i
            out.append(ch)
            i += 1
        return "".join(out), i

    def parse_args(i, level):
        parts = []
        while i < len(expr):
            txt, i = parse(i, level)
            parts.append(txt)
            if i < len(expr) and expr[i] == ",":
                i += 1
                continue
            if i < len(expr) and expr[i] == ")":
                return ",".join(parts), i + 1
        return ",".join(parts), i
    txt, _ = parse(0, 0)
    return txt


def canon_guard(g):
    """one spelling per condition: `Gt(a,b)=F`, `Le(a,b)=T` and `Ge(b,a)=T` are the same comparison; `x.is_none()` true and
    the `None` arm of a match on x are the same test; derivation chains deeper than two calls are not part of it."""
    m = _ENUM_IS.match(g)
    if m:
        return "%s is %s" % (m.group(1), m.group(2))
    m = _PRED.match(g)
    if m:
        pred, _arg, tv = m.groups()
        t = tv == "T"
        fam = "Option" if pred in ("is_some", "is_none") else "Result"
        pos = pred in ("is_some", "is_ok")
        variant = {("Option", True): "Some", ("Option", False): "None", ("Result", True): "Ok", ("Result", False): "Err"}[(fam, pos == t)]
        return "%s is %s" % (fam, variant)
    if g.endswith(("=T", "=F")) and "(" in g:
        g = _shallow(g[:-2]) + g[-2:]
    m = _CMP.match(g)
    if not m:
        return g
    op, args, tv = m.groups()
    ab = _split_top(args)
    if ab is None:
        return g
    a, b = ab
    t = tv == "T"
    if op in ("Eq", "Ne"):
        eq = (op == "Eq") == t
        x, y = sorted((a, b))
        return "Eq(%s,%s)=%s" % (x, y, "T" if eq else "F")
    # reduce to Lt / Le with =T
    if op == "Gt":
        op, a, b = "Lt", b, a
    elif op == "Ge":
        op, a, b = "Le", b, a
    if not t:
        # !(a < b) == b <= a ; !(a <= b) == b < a
        op, a, b = ("Le", b, a) if op == "Lt" else ("Lt", b, a)
    return "%s(%s,%s)=T" % (op, a, b)


def _guards_match(row, ordinal, now):
    """the site's current guard set covers one of the guard sets recorded for this key at review time."""
    now = {canon_guard(x) for x in now}
    return any({canon_guard(x) for x in g} <= now for g in row["guards"])


def _guards_lost(row, now):
    now = {canon_guard(x) for x in now}
    best = min(row["guards"], key=lambda g: len({canon_guard(x) for x in g} - now))
    return sorted(x for x in best if canon_guard(x) not in now)


def caller_guards_ok(P, f, guards):
    """residue rows may state how each caller establishes the callee's precondition:
    {caller path: callee suffix whose result the caller must test before the call}. Unknown callers fail."""
    problems = []
    for g, bi in _callers_of(P, f.path):
        want = guards.get(g.path)
        if want is None:
            problems.append("new caller `%s` (%s)" % (g.path, g.loc(g.blocks[bi]["term"].get("fn_span"))))
        elif not guarded_by_call(g, bi, want):
            problems.append("`%s` no longer tests `%s` on the way to the call (%s)" % (g.path, want, g.loc(g.blocks[bi]["term"].get("fn_span"))))
    return problems


# ------------------------------------------------------------------ guard fingerprints of reviewed sites
def _canon(f, op, depth=3):
    """name-free description of an operand: structure, fields, callee names and constants, no local names."""
    r = f.root_of(op, through_named=True)
    if r[0] == "const":
        c = r[1]
        if "v" in c:
            return str(c["v"])
        if "s" in c:
            return repr(c["s"])[:24]
        # a string pattern of a `match` is a constant printed as its source text (`"="`)
        tx = c.get("text", "")
        if isinstance(tx, str) and len(tx) >= 2 and tx.startswith('"') and tx.endswith('"'):
            return repr(tx[1:-1])[:24]
        return "const"
    if r[0] == "place":
        fl = [e.get("name") or ("@" + e["downcast"] if "downcast" in e else "") for e in r[1]["p"] if isinstance(e, dict)]
        fl = [x for x in fl if x]
        return "$" + "".join("." + x for x in fl)
    if r[0] == "call":
        t = r[2]
        n = (M.callee_name(t) or "indirect").split("::")[-1]
        if depth > 0 and t["args"]:
            return "%s(%s)" % (n, _canon(f, t["args"][0], depth - 1))
        return n + "()"
    if r[0] == "rv":
        rv = r[3]["rv"]
        if rv["k"] == "binop" and depth > 0:
            return "%s(%s,%s)" % (rv["op"].replace("WithOverflow", ""), _canon(f, rv["a"], depth - 1), _canon(f, rv["b"], depth - 1))
        if rv["k"] == "unop" and depth > 0:
            return "%s(%s)" % (rv["op"], _canon(f, rv["a"], depth - 1))
        if rv["k"] == "cast" and depth > 0:
            # a cast between signed and unsigned integers changes what a comparison means (`i as usize >= n` ends a loop on a
            # negative i, `i >= n as i64` does not): it is part of the condition. Other casts are transparent.
            tgt = str(rv.get("ty", ""))
            q_ = M.op_place(rv["a"])
            src = f.local_ty(q_["l"]) if q_ is not None and not q_["p"] else ""
            ints_s = ("i8", "i16", "i32", "i64", "i128", "isize")
            ints_u = ("u8", "u16", "u32", "u64", "u128", "usize")
            if (tgt in ints_u and src in ints_s) or (tgt in ints_s and src in ints_u):
                return "as_%s(%s)" % (tgt, _canon(f, rv["a"], depth - 1))
            return _canon(f, rv["a"], depth - 1)
        if rv["k"] == "discr":
            return "discr"
        return rv["k"]
    return "?"


def _closure_of(f, op):
    r = f.root_of(op, through_named=True)
    if r[0] == "rv" and r[3]["rv"]["k"] == "agg" and r[3]["rv"].get("ak") == "closure":
        return r[3]["rv"]["def"]
    if r[0] == "const" and "closure" in r[1]:
        return r[1]["closure"]
    return None


def _closure_result(P, cpath):
    """name-free description of what a predicate closure returns (its `_0` definitions)."""
    c = P.funcs.get(cpath)
    if c is None:
        return "?"
    outs = []
    for d in c.defs.get(0, []):
        if d[1] == "term":
            t = d[2]
            outs.append("%s(%s)" % ((M.callee_name(t) or "indirect").split("::")[-1], ",".join(_canon(c, a, 2) for a in t["args"][:2])))
        else:
            rv = d[2]["rv"]
            if rv["k"] == "binop":
                outs.append("%s(%s,%s)" % (rv["op"], _canon(c, rv["a"]), _canon(c, rv["b"])))
            elif rv["k"] == "use":
                outs.append(_canon(c, rv["a"]))
            else:
                outs.append(rv["k"])
    return "|".join(sorted(set(outs))) or "?"


def _via_closures(P, f, place_local, depth=8):
    """closures (filter/map/position/find/and_then predicates ..) on the way from a value back to its sources."""
    out = []
    cur = ("place", {"l": place_local, "p": []})
    r = f.root_of({"copy": {"l": place_local, "p": []}}, through_named=True)
    for _ in range(depth):
        if r[0] == "place":
            dd = [d for d in f.defs.get(r[1]["l"], []) if d[1] == "term"]
            if len(dd) != 1:
                break
            r = ("call", dd[0][0], dd[0][2])
            continue
        if r[0] != "call":
            break
        t = r[2]
        n = (M.callee_name(t) or "?").split("::")[-1]
        for a in t["args"][1:]:
            cp = _closure_of(f, a)
            if cp:
                out.append("via %s(|..| %s)" % (n, _closure_result(P, cp)))
        if not t["args"]:
            break
        r = f.root_of(t["args"][0], through_named=True)
    return out


def guard_fingerprint(f, bb):
    """the conditions under which control can reach block bb: every switch edge that bb is only reachable through,
    described without local names (so renaming does not change it, but a changed operator/constant/callee does)."""
    if not hasattr(f, "_fp_cache"):
        f._fp_cache = {}
    if bb in f._fp_cache:
        return f._fp_cache[bb]
    out = set()
    for sw in D.bool_switches(f):
        if not f.dominates(sw["bb"], bb) or sw["bb"] == bb:
            continue
        for edge in ("true", "false"):
            tgt = sw[edge]
            if tgt is not None and bb in D.edge_dominated(f, sw["bb"], tgt):
                r = sw["root"]
                if r[0] == "rv":
                    d = _canon(f, {"copy": {"l": r[3]["place"]["l"], "p": []}}) if False else None
                    rv = r[3]["rv"]
                    if rv["k"] == "binop":
                        d = "%s(%s,%s)" % (rv["op"], _canon(f, rv["a"]), _canon(f, rv["b"]))
                    else:
                        d = rv["k"]
                elif r[0] == "call":
                    t = r[2]
                    d = "%s(%s)" % ((M.callee_name(t) or "indirect").split("::")[-1], ",".join(_canon(f, a, 2) for a in t["args"][:2]))
                elif r[0] == "place":
                    d = _canon(f, {"copy": r[1]})
                else:
                    d = r[0]
                out.add("%s=%s" % (d, "T" if edge == "true" else "F"))
    for sw in D.enum_switches(f):
        if not f.dominates(sw["bb"], bb) or sw["bb"] == bb:
            continue
        # the exhausted/not-exhausted test of an iterator loop is control structure, not a guard of the data
        pl = sw["place"]
        dd = f.single_def(pl["l"]) if not pl["p"] else None
        if dd is not None and dd[1] == "term" and (M.callee_name(dd[2]) or "").endswith(("::next", "::next_back")):
            continue
        hit = False
        for tgt, names in sw["by_target"].items():
            if bb in D.edge_dominated(f, sw["bb"], tgt):
                out.add("%s is %s" % (D.short_ty(sw["ety"]), "|".join(sorted(names))))
                hit = True
        o = sw["otherwise"]
        if o not in sw["by_target"] and sw["otherwise_variants"] and bb in D.edge_dominated(f, sw["bb"], o):
            out.add("%s is %s" % (D.short_ty(sw["ety"]), "|".join(sorted(sw["otherwise_variants"]))))
            hit = True
        if hit and _PROGRAM is not None and not pl["p"]:
            # the tested Option/Result came through predicate closures: their conditions are part of the guard
            for v in _via_closures(_PROGRAM, f, pl["l"]):
                out.add(v)
    f._fp_cache[bb] = sorted(out)
    return f._fp_cache[bb]


def call_fingerprints(P, fn, callee):
    """sorted guard fingerprints (canonical) of every call of `callee` (path suffix) in function `fn` and its closures."""
    out = []
    for p_, g in P.funcs.items():
        if p_ != fn and not p_.startswith(fn + "::{closure"):
            continue
        for bi, t in g.calls():
            n = M.callee_name(t) or ""
            if n == callee or n.endswith("::" + callee):
                out.append(sorted(canon_guard(x) for x in guard_fingerprint(g, bi)))
    return sorted(out)


def relies_on_changed(P, deps):
    """a residue row may name calls elsewhere that establish its precondition:
    [{"fn": path, "callee": suffix, "guards": [[..], ..]}] -- the conditions under which those calls happen must be exactly
    the ones recorded at review time (a call that became conditional no longer establishes anything)."""
    problems = []
    for d in deps:
        if d["fn"] not in P.funcs:
            problems.append("`%s` no longer exists" % d["fn"])
            continue
        now = call_fingerprints(P, d["fn"], d["callee"])
        want = sorted(sorted(canon_guard(x) for x in g) for g in d.get("guards", []))
        if now != want:
            problems.append("`%s` called `%s` under %s when reviewed and calls it under %s now" % (d["fn"], d["callee"], want, now))
    return problems


def requires_ok(f, req):
    """a residue row names the guards it relies on (callee-name substrings); they must still be called in f."""
    names = _fn_calls(f)
    missing = [r for r in req if not any(r in n for n in names)]
    return missing


_MSG_KINDS = ("call:Option::expect", "call:Result::expect", "call:panic", "call:panic_fmt", "call:panicking")
_IDENT = re.compile(r"(?<![.\w'])([A-Za-z_][A-Za-z0-9_]*)\b(?!\()")


def canon_key(key):
    """a site key with local variable names blanked out (`exprs[Sub(len(exprs),2)]` -> `$[Sub(len($),2)]`), used only to
    recognise a reviewed site again after a local was renamed. Details that are messages are left alone."""
    parts = key.split(" # ")
    if len(parts) < 3:
        return key
    kind = parts[-2]
    if kind in _MSG_KINDS or kind.startswith("assert:Overflow") or kind.startswith("assert:Division") or kind.startswith("assert:Remainder"):
        return key
    # `..` of a range is not a field access: keep it apart while blanking identifiers
    # a pattern binding and the payload projection it stands for read the same (`token_str` / `_tmp@Some.0`)
    d_ = re.sub(r"(\w)(?:@\w+(?:\.\d+)*)+", r"\1", parts[-1])
    parts[-1] = _IDENT.sub("$", d_.replace("..", " \u2025 ")).replace(" \u2025 ", "..")
    return " # ".join(parts)


def run(ctx, res, layers, floor_fns, floor_sites, extra_roots=(), label="PANIC-INV"):
    """Evaluates PANIC-INV over the union of the given layers' roots. Adds obligations / violations to res.
    Returns (reach, inventory)."""
    P = ctx.P
    LAYERS = json.load(open(os.path.join(VERIF, "tables", "layers.json")))
    roots = []
    for l in layers:
        for r in LAYERS[l]["roots"]:
            if r not in P.funcs:
                raise M.MissingAnchor("root function `%s` of layer %s" % (r, l))
            roots.append(r)
    roots += list(extra_roots)
    reach, inv = inventory(P, roots)
    residue = load_residue()
    from collections import Counter
    seen = Counter()
    by_rule = Counter()
    used_rows = set()
    renamed_use = {}
    live_keys = {site_key(P, f0, s0) for f0, s0 in inv if not s0.discharged}
    n_res = 0
    for f, s in inv:
        k = site_key(P, f, s)
        if s.discharged:
            rule = s.discharged.split(":")[0]
            by_rule[rule] += 1
            res.ok(label, k, "discharged:" + rule)
            continue
        seen[k] += 1
        row = residue.get(k)
        if row and seen[k] <= row.get("count", 1):
            missing = requires_ok(f, row.get("requires", []))
            cg = caller_guards_ok(P, f, row["caller_guards"]) if row.get("caller_guards") else []
            if missing:
                res.bad(label, k + " # guard-missing",
                        "reviewed site `%s` relies on %s, which this function no longer calls (%s)" % (k, missing, s.loc()),
                        s.loc(), {"row": row})
            elif row.get("guards") is not None and not _guards_match(row, seen[k], guard_fingerprint(f, s.bb)):
                lost = _guards_lost(row, guard_fingerprint(f, s.bb))
                res.bad(label, k + " # guard-changed",
                        "reviewed site `%s`: a condition it was reviewed under no longer guards it (%s); the safety argument "
                        "('%s') must be re-examined" % (k, "; ".join(lost)[:200], row.get("reason", "")[:120]),
                        s.loc(), {"row": row, "now": guard_fingerprint(f, s.bb)})
            elif row.get("census") and census_lost(f, row["census"]):
                res.bad(label, k + " # guard-call-removed",
                        "reviewed site `%s`: the function makes fewer bounds/boundary/emptiness tests than when it was reviewed (%s); "
                        "the safety argument ('%s') must be re-examined" % (k, ", ".join(census_lost(f, row["census"])), row.get("reason", "")[:120]),
                        s.loc(), {"row": row})
            elif row.get("relies_on") and relies_on_changed(P, row["relies_on"]):
                res.bad(label, k + " # establishing-call-changed",
                        "reviewed site `%s` is safe only because other code establishes its precondition: %s; the safety argument "
                        "('%s') must be re-examined" % (k, "; ".join(relies_on_changed(P, row["relies_on"])), row.get("reason", "")[:120]),
                        s.loc(), {"row": row})
            elif cg:
                res.bad(label, k + " # caller-guard",
                        "reviewed site `%s` relies on its callers establishing a precondition: %s" % (k, "; ".join(cg)),
                        s.loc(), {"row": row})
            else:
                used_rows.add(k)
                n_res += 1
                res.ok(label, k, "residue")
            continue
        # a reviewed site whose local variable was renamed: same function, kind and shape, same guards
        ck = canon_key(k)
        # the same site described through named locals (`let n = x.len(); &s[0..n]` reads as `s[0..len(x)]`)
        if not hasattr(f, "_deep_sites"):
            PN.DEEP = True
            try:
                f._deep_sites = {(s2.bb, s2.kind): s2.detail for s2 in PN.sites_of(f)}
            finally:
                PN.DEEP = False
        dd_ = f._deep_sites.get((s.bb, s.kind))
        ck2 = canon_key(k[:len(k) - len(s.detail)] + dd_) if dd_ is not None and k.endswith(s.detail) else ck
        alt = None
        if True:
            for rk, rrow in residue.items():
                if rk == k:
                    continue
                if rk.split(" # ", 1)[0] != f.path or canon_key(rk) not in (ck, ck2):
                    continue
                if rk in live_keys:
                    continue
                if rrow.get("guards") is not None and not _guards_match(rrow, 1, guard_fingerprint(f, s.bb)):
                    continue
                if requires_ok(f, rrow.get("requires", [])) or (rrow.get("census") and census_lost(f, rrow["census"])):
                    continue
                renamed_use[rk] = renamed_use.get(rk, 0) + 1
                if renamed_use[rk] <= rrow.get("count", 1):
                    alt = rk
                    break
        if alt is not None:
            n_res += 1
            res.ok(label, k, "residue (local renamed; reviewed as `%s`)" % alt.split(" # ")[-1])
            continue
        path = P.call_path(reach, f.path)
        key = k if seen[k] == 1 or not row else "%s # beyond-reviewed-count" % k
        res.bad(label, key,
                "panic-capable %s (%s) in `%s` is reachable and neither discharged by a rule nor reviewed: %s" % (
                    s.kind, s.detail[:60], f.path, source_line(ctx, s.span)[:100]),
                s.loc(), {"call_path": path[:12] + (["..."] if len(path) > 12 else []), "kind": s.kind, "detail": s.detail})
    # interprocedural RefCell obligations
    n_g, ov = borrow_overlaps(P, reach)
    for (f, where, msg, key) in ov:
        row = residue.get(key)
        if row:
            missing = requires_ok(f, row.get("requires", []))
            if not missing:
                res.ok("BORROW-OVERLAP", key, "residue")
                used_rows.add(key)
                continue
        res.bad("BORROW-OVERLAP", key, msg, where)
    res.ok("BORROW-OVERLAP", "guards examined=%d" % n_g)
    ok, problems, n_fr = frame_invariant(P)
    if ok:
        res.ok("FRAME-NONEMPTY", "receivers of the frame vector examined=%d" % n_fr)
    else:
        for pb in problems:
            res.bad("FRAME-NONEMPTY", "FRAME-NONEMPTY # " + pb.split(" (")[0], pb)
    res.floor(label, "functions reachable from %s" % "+".join(layers), len(reach), floor_fns)
    res.floor(label, "panic-capable sites in them", len(inv), floor_sites)
    res.extra.setdefault("panic_inv", {})["+".join(layers)] = {
        "roots": roots, "functions_analysed": len(reach), "sites": len(inv),
        "discharged_by_rule": dict(by_rule), "reviewed_residue_sites": n_res,
        "undischarged": sum(1 for o in res.obligations if o[0] == label and o[2] == "violated")}
    for f, s in inv[:0]:
        pass
    return reach, inv


# ------------------------------------------------------------------ VALSTACK-WRITERS
_MUTATORS = ("::push", "::pop", "::clear", "::truncate", "::insert", "::remove", "::drain", "::append", "::extend",
             "::retain", "::swap_remove", "::split_off", "::resize", "::dedup", "::set_len", "::extend_from_slice")


def valstack_writers(P, res):
    """who-may-write rule for the two per-frame stacks the D-VALSTACK class relies on."""
    tbl = json.load(open(os.path.join(VERIF, "tables", "valstack_writers.json")))["writers"]
    found = {}
    for f in P.funcs.values():
        for bi, t in f.calls():
            if not t["args"]:
                continue
            n = PN.norm_path(M.callee_name(t) or "")
            hits = []
            for i, a in enumerate(t["args"]):
                r = f.root_of(a, through_named=True)
                if r[0] != "place":
                    continue
                fp = f.field_path(r[1])
                if fp and fp[-1] in ("exprs_to_eval", "evalled_values"):
                    hits.append((i, fp[-1]))
            if not hits:
                continue
            for i, fld in hits:
                mut = (i == 0 and n.endswith(_MUTATORS)) or "::mem::" in n or (i > 0 and "&mut" in ((t.get("argtys") or [""] * 9)[i]))
                if mut:
                    found.setdefault(f.path, []).append((fld, n.split("::")[-1], f.loc(t.get("fn_span"))))
    ops_tbl = json.load(open(os.path.join(VERIF, "tables", "valstack_writers.json"))).get("ops", {})
    E = P.edges()
    callers_of = {}
    for src_, es in E.items():
        for kind, tgt, bi in es:
            if kind != "live":
                callers_of.setdefault(tgt.split("::{closure")[0], set()).add(src_.split("::{closure")[0])

    def opset(ws):
        return {"%s.%s" % (a_, b_) for a_, b_, _ in ws}
    by_base = {}
    for p, ws in found.items():
        by_base.setdefault(p.split("::{closure")[0], []).extend(ws)
    # a private helper split out of a reviewed writer inherits its review when every caller is that writer (or another
    # such helper) and the kinds of writes it performs were among those reviewed for the writer
    owner = {}
    changed = True
    while changed:
        changed = False
        for base in by_base:
            if base in tbl or base in owner:
                continue
            cs = callers_of.get(base, set()) - {base}
            owners = {c if c in tbl else owner.get(c) for c in cs}
            if cs and None not in owners and len(owners) == 1:
                owner[base] = owners.pop()
                changed = True
    n = 0
    for base, ws in sorted(by_base.items()):
        n += len(ws)
        w_ = base if base in tbl else owner.get(base)
        if w_ is not None and (w_ == base or opset(ws) <= set(ops_tbl.get(w_, []))):
            extra = opset(ws) - set(ops_tbl.get(w_, opset(ws)))
            # a reviewed writer that no longer exists was inlined into its caller: its kinds of writes travel with it
            for gone in tbl:
                if gone not in P.funcs and gone in ops_tbl:
                    extra -= set(ops_tbl[gone])
            if w_ == base and extra and w_ in ops_tbl:
                res.bad("VALSTACK-WRITERS", "%s # new kind of write # %s" % (base, sorted(extra)),
                        "`%s` is a reviewed writer of the evaluator's stacks, but it now also performs %s, which was not part of what was reviewed (%s)" % (
                            base, sorted(extra), sorted(ops_tbl[w_])), ws[0][2])
            else:
                res.ok("VALSTACK-WRITERS", "%s: %s%s" % (base, sorted(opset(ws)), "" if w_ == base else " (split out of reviewed writer %s)" % w_))
        else:
            res.bad("VALSTACK-WRITERS", "%s # writes # %s" % (base, sorted(opset(ws))),
                    "`%s` mutates the evaluator's %s directly (%s); the value-stack discipline that every "
                    "`pop_value().expect(..)` relies on is only argued for the reviewed writers" % (base, ws[0][0], ws[0][2]), ws[0][2])
    res.floor("VALSTACK-WRITERS", "mutating accesses to exprs_to_eval / evalled_values", n, 20)
    # SKIP-BALANCE (in handle_run_request or the helper its `:skip` arm was split into)
    hr = P.funcs.get("json_session::handle_run_request")
    if hr is None:
        raise M.MissingAnchor("json_session::handle_run_request")
    cands = [hr] + [P.funcs[g] for g, w_ in sorted(owner.items()) if w_ == "json_session::handle_run_request" and g in P.funcs]
    n_pops = 0
    for f in cands:
        pops = [bi for bi, t in f.calls() if (M.callee_name(t) or "").endswith("::pop") and t["args"] and
                f.root_of(t["args"][0], through_named=True)[0] == "place" and
                f.field_path(f.root_of(t["args"][0], through_named=True)[1])[-1:] == ["exprs_to_eval"]]
        pushes = [bi for bi, t in f.calls() if (M.callee_name(t) or "").endswith("::push") and t["args"] and
                  f.root_of(t["args"][0], through_named=True)[0] == "place" and
                  f.field_path(f.root_of(t["args"][0], through_named=True)[1])[-1:] == ["evalled_values"]]
        used_sw = [(sb, ft, tt) for (sb, ft, tt) in D.field_switches(f, "value_is_used")]
        n_pops += len(pops)
        for pb in pops:
            ok = False
            for (sb, ft, tt) in used_sw:
                if f.dominates(pb, sb) and tt is not None and any(x in D.edge_dominated(f, sb, tt) for x in pushes):
                    ok = True
            if ok:
                res.ok("SKIP-BALANCE", "%s: the skipped entry's value is supplied when value_is_used" % f.path)
            else:
                res.bad("SKIP-BALANCE", "json_session::handle_run_request # skip-without-value",
                        "`:skip` drops a pending expression without pushing a value for the expression that was waiting for it: "
                        "skipping the arguments of a call makes the call pop an empty value stack and the eval thread panics",
                        f.loc(f.blocks[pb]["term"].get("fn_span")))
    res.floor("SKIP-BALANCE", "exprs_to_eval.pop() in handle_run_request", n_pops, 1)
    # WHO-CALLS-EVAL: the interpreter loop may only be entered from the reviewed entry points. A new direct caller
    # starts evaluating whatever happens to be pending (entries of an earlier, failed evaluation included).
    callers_tbl = json.load(open(os.path.join(VERIF, "tables", "valstack_writers.json")))["eval_callers"]
    callers = sorted({g.path.split("::{closure")[0] for g in P.funcs.values() for _, t in g.calls() if M.callee_name(t) == "eval::eval"})
    for c in callers:
        if c in callers_tbl:
            res.ok("WHO-CALLS-EVAL", c)
        else:
            res.bad("WHO-CALLS-EVAL", "%s # calls eval::eval" % c,
                    "`%s` enters the interpreter loop directly; only the reviewed entry points may (a new evaluation must go through "
                    "eval_toplevel_exprs, which replaces the entries left pending by an earlier failed evaluation)" % c, P.funcs[c].loc() if c in P.funcs else None)
    res.floor("WHO-CALLS-EVAL", "direct callers of eval::eval", len(callers), 5)
    # TOPLEVEL-REPLACE: eval_toplevel_exprs assigns the whole exprs_to_eval field before it calls eval
    te = P.funcs.get("eval::eval_toplevel_exprs")
    if te is None:
        raise M.MissingAnchor("eval::eval_toplevel_exprs")
    stores = []
    for bi, b in enumerate(te.blocks):
        for st in b["stmts"]:
            if st["s"] == "assign" and te.field_path(st["place"])[-1:] == ["exprs_to_eval"]:
                stores.append(bi)
    ev = [bi for bi, t in te.calls() if M.callee_name(t) == "eval::eval"]
    if stores and ev and all(any(te.dominates(sb, eb) for sb in stores) for eb in ev):
        res.ok("TOPLEVEL-REPLACE", "eval_toplevel_exprs: exprs_to_eval is replaced before every call of eval")
    else:
        res.bad("TOPLEVEL-REPLACE", "eval::eval_toplevel_exprs # no-replace",
                "eval_toplevel_exprs does not replace the frame's pending entries before evaluating (stores=%d, eval calls=%d): entries "
                "left by an earlier failed evaluation would run after the new request" % (len(stores), len(ev)), te.loc())


def stale_rows(ctx, layers):
    """residue rows of functions in these layers that match no current site (informational)."""
    P = ctx.P
    LAYERS = json.load(open(os.path.join(VERIF, "tables", "layers.json")))
    roots = [r for l in layers for r in LAYERS[l]["roots"]]
    reach, inv = inventory(P, roots)
    live = {site_key(P, f, s) for f, s in inv if not s.discharged}
    rows = load_residue()
    out = []
    for k in rows:
        fn = k.split(" # ", 1)[0]
        if fn in reach and k not in live and " # overlap # " not in k:
            out.append(k)
    return out


# ------------------------------------------------------------------ PAIRED-CALLS
PAIR_FAMILIES = [
    ("checks::unused_vars::UnusedVariableVisitor::push_scope", "checks::unused_vars::UnusedVariableVisitor::pop_scope",
     "the scope stack of the unused-variable check: `pop_scope().expect(..)`, `add_binding .. expect(\"Should always be non-empty\")` and the "
     "lookups in mark_used rely on every pop having its push in the same function"),
    ("field:function_stack:push", "field:function_stack:pop",
     "the function-context stack of the recursion-variable check: `function_stack.pop().unwrap()` relies on the push made earlier in the same call"),
    ("checks::type_checker::LocalBindings::enter_block", "checks::type_checker::LocalBindings::exit_block",
     "the block stack of the type checker's local bindings: `LocalBindings::set .. expect(\"Should be non-empty\")` relies on balanced enter/exit"),
]


def paired_calls(P, res, label="PAIRED-CALLS", only=None, floor=15, why_override=None):
    """every function that opens a scope closes it exactly once on every path before it opens the next one or returns, and
    closes nothing it did not open. Conditional open/close pairs are accepted when both sit under the same enum arm."""
    n = 0
    for push_fn, pop_fn, why in PAIR_FAMILIES:
        if only is not None and only not in push_fn:
            continue
        why = why_override or why

        def matcher(spec):
            if spec.startswith("field:"):
                _, fld, op = spec.split(":")

                def m(f, t):
                    n_ = M.callee_name(t) or ""
                    if not n_.endswith("Vec::<T, A>::" + op) or not t["args"]:
                        return False
                    r_ = f.root_of(t["args"][0], through_named=True)
                    return r_[0] == "place" and f.field_path(r_[1])[-1:] == [fld]
                return m
            if spec not in P.funcs:
                raise M.MissingAnchor(spec)
            return lambda f, t: M.callee_name(t) == spec
        is_push, is_pop = matcher(push_fn), matcher(pop_fn)
        for p_, f in sorted(P.funcs.items()):
            pu = [bi for bi, t in f.calls() if is_push(f, t)]
            po = [bi for bi, t in f.calls() if is_pop(f, t)]
            if not pu and not po:
                continue
            n += 1
            rets = [bi for bi in f.reachable_blocks() if f.blocks[bi]["term"]["t"] == "return"]

            def analyse(extra_avoid):
                probs = []
                for x in pu:
                    if x in extra_avoid:
                        continue
                    tgt = f.blocks[x]["term"]["target"]
                    rng = D.event_ranges(f, {q: (1, 1) for q in po}, start=tgt, avoid=set(pu) | extra_avoid) if tgt is not None else {}
                    rr = sorted({rng[b] for b in rets if b in rng})
                    if rr and rr != [(1, 1)]:
                        probs.append("after the open at %s the scope is closed %s times before the next open or return, depending on the path" % (
                            f.loc(f.blocks[x]["term"].get("fn_span")), rr))
                free = D.reach_from(f, [0], avoid_blocks=set(pu) | extra_avoid)
                for q in po:
                    if q in free:
                        probs.append("the close at %s can be reached without an open in this function" % f.loc(f.blocks[q]["term"].get("fn_span")))
                return probs
            problems = analyse(set())
            if problems:
                # two `match` on the same value are the same condition: repeat the analysis once per variant of every enum
                # place that is switched on more than once, with the arms of the other variants removed
                groups = {}
                for sw in D.enum_switches(f):
                    pl = sw["place"]
                    r_ = f.root_of({"copy": pl}, through_named=True)
                    gk = json.dumps(r_[1], sort_keys=True) if r_[0] == "place" else None
                    if gk:
                        groups.setdefault(gk, []).append(sw)
                groups = {k_: v_ for k_, v_ in groups.items() if len(v_) > 1}
                if groups:
                    all_ok = True
                    worst = problems
                    for gk, sws in groups.items():
                        names = set()
                        for sw in sws:
                            for nm in sw["by_target"].values():
                                names |= set(nm)
                            names |= set(sw["otherwise_variants"])
                        for v_ in sorted(names):
                            avoid_ = set()
                            for sw in sws:
                                for tgt, nm in sw["by_target"].items():
                                    if v_ not in nm:
                                        avoid_ |= D.edge_dominated(f, sw["bb"], tgt)
                                if v_ not in sw["otherwise_variants"] and sw["otherwise"] not in sw["by_target"]:
                                    avoid_ |= D.edge_dominated(f, sw["bb"], sw["otherwise"])
                            pr = analyse(avoid_)
                            if pr:
                                all_ok = False
                                worst = pr
                    problems = [] if all_ok else worst
            key = "%s # %s/%s" % (p_, push_fn.split("::")[-1], pop_fn.split("::")[-1])
            if problems:
                res.bad(label, key + " # unbalanced", "%s: %s (%s)" % (p_, "; ".join(problems), why), f.loc())
            else:
                res.ok(label, key + ": %d open / %d close, balanced on every path" % (len(pu), len(po)))
    res.floor(label, "functions that open or close a checked scope", n, floor)
