"""PANIC-INV: inventory of panic-capable sites reachable from a set of roots, discharge rules, reviewed residue."""
import json, os, re
from . import mir as M
from . import dflow as D
from . import panics as PN
from .core import VERIF

UNSIGNED = ("usize", "u32", "u64", "u128")


# ------------------------------------------------------------------ discharge rules
def d_usize(P, f, s):
    if s.kind in ("assert:Overflow(Add)", "assert:Overflow(Mul)") and s.detail in UNSIGNED:
        return "D-USIZE: unsigned add/mul of lengths/offsets; overflow needs > 2^63 bytes of input"
    return None


def _slice_param_root(f, op):
    """the parameter (local index) a PtrMetadata/len operand measures, or None."""
    r = f.root_of(op, through_named=True)
    if r[0] == "rv" and r[3]["rv"]["k"] == "unop" and r[3]["rv"]["op"] in ("PtrMetadata", "Len"):
        r = f.root_of(r[3]["rv"]["a"], through_named=True)
    if r[0] == "place":
        return r[1]
    if r[0] == "call" and (M.callee_name(r[2]) or "").endswith("::len") and r[2]["args"]:
        r2 = f.root_of(r[2]["args"][0], through_named=True)
        if r2[0] == "place":
            return r2[1]
    return None


def arity_checks(f):
    """[(continue_block, N, values_place, positions_place)] for `check_arity(.., N, positions, values)?`"""
    if hasattr(f, "_arity_checks"):
        return f._arity_checks
    out = []
    for bi, t in f.calls():
        if M.callee_name(t) != "eval::check_arity" or len(t["args"]) < 6:
            continue
        n = D.const_int(f, t["args"][3])
        if n is None:
            continue
        cont = D.try_continue_block(f, bi)
        if cont is None:
            continue
        pv = f.root_of(t["args"][5], through_named=True)
        pp = f.root_of(t["args"][4], through_named=True)
        out.append((cont[1], n, pv[1] if pv[0] == "place" else None, pp[1] if pp[0] == "place" else None))
    f._arity_checks = out
    return out


def _noderef(p):
    return {"l": p["l"], "p": [e for e in p["p"] if e != "deref"]}


def _same_place(a, b):
    """reference-insensitive place equality (`*_6` and `_6` name the same slice)."""
    return a is not None and b is not None and a["l"] == b["l"] and \
        M.place_key(_noderef(a)) == M.place_key(_noderef(b))


def d_arity(P, f, s):
    idx = None
    base = None
    if s.kind == "assert:BoundsCheck":
        idx = D.const_int(f, s.term["index"])
        base = _slice_param_root(f, s.term["len"])
    elif s.kind in ("call:Vec::index", "call:slice::index") and len(s.term["args"]) == 2:
        idx = D.const_int(f, s.term["args"][1])
        r = f.root_of(s.term["args"][0], through_named=True)
        base = r[1] if r[0] == "place" else None
    if idx is None or base is None:
        return None
    for (cont, n, pv, pp) in arity_checks(f):
        if n > idx and (_same_place(base, pv) or _same_place(base, pp)) and f.dominates(cont, s.bb):
            which = "values" if _same_place(base, pv) else "positions (same length as values, EQUAL-LEN)"
            return "D-ARITY: index %d < %d guaranteed by check_arity(.., %d, ..)? on the argument %s" % (idx, n, n, which)
    return None


def _len_constraints(f):
    """edges on which `len(X) >= m` is known: list of (switch_bb, target_bb, place X, m)"""
    if hasattr(f, "_len_constraints"):
        return f._len_constraints
    out = []
    for sw in D.bool_switches(f):
        r = sw["root"]
        if r[0] == "call":
            n = M.callee_name(r[2]) or ""
            if n.endswith("::is_empty") and r[2]["args"]:
                x = f.root_of(r[2]["args"][0], through_named=True)
                if x[0] == "place":
                    out.append((sw["bb"], sw["false"], x[1], 1))
            continue
        if r[0] != "rv" or r[3]["rv"]["k"] != "binop":
            continue
        rv = r[3]["rv"]
        op = rv["op"]
        la, lb = _slice_param_root(f, rv["a"]), _slice_param_root(f, rv["b"])
        ca, cb = D.const_int(f, rv["a"]), D.const_int(f, rv["b"])
        # is an operand a length?
        def is_len(o):
            rr = f.root_of(o, through_named=True)
            if rr[0] == "call" and (M.callee_name(rr[2]) or "").endswith("::len"):
                return True
            if rr[0] == "rv" and rr[3]["rv"]["k"] == "unop" and rr[3]["rv"]["op"] in ("PtrMetadata", "Len"):
                return True
            return False
        if is_len(rv["a"]) and cb is not None and la is not None:
            X, c = la, cb
            cons = {"Eq": ("true", c), "Ne": ("false", c), "Ge": ("true", c), "Gt": ("true", c + 1), "Lt": ("false", c), "Le": ("false", c + 1)}
        elif is_len(rv["b"]) and ca is not None and lb is not None:
            X, c = lb, ca
            cons = {"Eq": ("true", c), "Ne": ("false", c), "Le": ("true", c), "Lt": ("true", c + 1), "Gt": ("false", c), "Ge": ("false", c + 1)}
        else:
            continue
        if op in cons:
            edge, m = cons[op]
            out.append((sw["bb"], sw[edge], X, m))
    f._len_constraints = out
    return out


def d_len(P, f, s):
    idx = None
    base = None
    if s.kind == "assert:BoundsCheck":
        idx = D.const_int(f, s.term["index"])
        base = _slice_param_root(f, s.term["len"])
    elif s.kind in ("call:Vec::index", "call:slice::index") and len(s.term["args"]) == 2:
        idx = D.const_int(f, s.term["args"][1])
        r = f.root_of(s.term["args"][0], through_named=True)
        base = r[1] if r[0] == "place" else None
    if idx is None or base is None:
        return None
    for (sb, tgt, X, m) in _len_constraints(f):
        if m > idx and _same_place(X, base) and tgt is not None and s.bb in D.edge_dominated(f, sb, tgt):
            return "D-LEN: index %d under a dominating test that the length is at least %d" % (idx, m)
    return None


def d_constre(P, f, s):
    if s.kind not in ("call:Result::unwrap", "call:Result::expect"):
        return None
    r = f.root_of(s.term["args"][0], through_named=True)
    if r[0] == "call" and (M.callee_name(r[2]) or "") == "regex::Regex::new":
        c = f.root_of(r[2]["args"][0])
        if c[0] == "const" and "s" in c[1]:
            return "D-CONSTRE: Regex::new on the literal %r (compiled by the C12 REGEX-COMPILE check)" % c[1]["s"][:40]
    return None


def d_lock(P, f, s):
    if s.kind not in ("call:Result::unwrap", "call:Result::expect"):
        return None
    r = f.root_of(s.term["args"][0], through_named=True)
    if r[0] == "call" and (M.callee_name(r[2]) or "").endswith("Mutex::<T>::lock"):
        return "D-LOCK: lock() fails only if another thread panicked while holding the mutex (no panic => no poison)"
    return None


def d_sub_guard(P, f, s):
    """unsigned `a - b` dominated by a test that a >= b (or a > b), on the edge where it holds."""
    if s.kind != "assert:Overflow(Sub)" or s.detail not in UNSIGNED:
        return None
    a, b = s.term["a"], s.term["b"]
    ka, kb = PN.describe_operand(f, a), PN.describe_operand(f, b)
    cb = D.const_int(f, b)
    for sw in D.bool_switches(f):
        r = sw["root"]
        if r[0] != "rv" or r[3]["rv"]["k"] != "binop":
            continue
        rv = r[3]["rv"]
        x, y = PN.describe_operand(f, rv["a"]), PN.describe_operand(f, rv["b"])
        op = rv["op"]
        cy = D.const_int(f, rv["b"])
        edge = None
        # a >= b
        if (x, y) == (ka, kb) and op in ("Ge", "Gt"):
            edge = "true"
        elif (x, y) == (ka, kb) and op in ("Lt", "Le") and (op == "Lt"):
            edge = "false"
        elif (x, y) == (kb, ka) and op in ("Le", "Lt"):
            edge = "true"
        elif (x, y) == (kb, ka) and op == "Gt":
            edge = "false"
        # a - const under a > const' / a >= const' / a != 0 / a == 0 false
        elif cb is not None and x == ka and cy is not None:
            if op == "Gt" and cy + 1 >= cb:
                edge = "true"
            elif op == "Ge" and cy >= cb:
                edge = "true"
            elif op == "Eq" and cy == 0 and cb == 1:
                edge = "false"
            elif op == "Ne" and cy == 0 and cb == 1:
                edge = "true"
            elif op == "Lt" and cy >= cb:
                edge = "false"
            elif op == "Le" and cy + 1 >= cb:
                edge = "false"
        if edge and sw[edge] is not None and s.bb in D.edge_dominated(f, sw["bb"], sw[edge]):
            return "D-SUBGUARD: %s - %s under a dominating comparison that makes it non-negative" % (ka, kb)
    return None


RULES = [d_usize, d_arity, d_len, d_constre, d_lock, d_sub_guard]


# ------------------------------------------------------------------ inventory
def site_key(P, f, s):
    arm = D.arm_label(f, s.bb, enums={"BuiltInFunctionKind", "BuiltInMethodKind"}) if f.n > 400 else ""
    fn = f.path
    return "%s # %s%s # %s" % (fn, (arm + " # ") if arm else "", s.kind, s.detail)


def inventory(P, roots, rta=True, stop=()):
    reach = P.reachable(roots, rta=rta, stop=stop)
    out = []
    for p in sorted(reach):
        f = P.funcs[p]
        for s in PN.sites_of(f):
            why = None
            for rule in RULES:
                why = rule(P, f, s)
                if why:
                    break
            s.discharged = why
            out.append((f, s))
    return reach, out


def load_residue():
    p = os.path.join(VERIF, "tables", "residue.json")
    if not os.path.exists(p):
        return {}
    return json.load(open(p))["rows"]


def source_line(ctx, span):
    try:
        return ctx.src_lines(span["file"])[span["line"] - 1].strip()
    except Exception:
        return ""
