"""PANIC-INV: enumeration of panic-capable sites in MIR and the discharge rules."""
import re
from collections import defaultdict
from . import mir as M

# ---- the panicking-API table (frozen after reading the callee inventory of the crate) ----
# regex on the resolved callee path (generic args left in place) -> short kind name
PANIC_API = [
    (r"^core::panicking::panic_fmt$", "panic_fmt"),
    (r"^core::panicking::panic$", "panic"),
    (r"^core::panicking::", "panicking"),
    (r"^std::rt::(begin_panic|panic_fmt)", "panic_fmt"),
    (r"^core::option::Option::<T>::unwrap$", "Option::unwrap"),
    (r"^core::option::Option::<T>::expect$", "Option::expect"),
    (r"^core::option::(unwrap_failed|expect_failed)$", "Option::unwrap"),
    (r"^core::result::Result::<T, E>::unwrap$", "Result::unwrap"),
    (r"^core::result::Result::<T, E>::expect$", "Result::expect"),
    (r"^core::result::Result::<T, E>::(unwrap_err|expect_err)$", "Result::unwrap_err"),
    (r"^<alloc::vec::Vec<T, A> as core::ops::index::Index(Mut)?<I>>::index(_mut)?$", "Vec::index"),
    (r"^<alloc::string::String as core::ops::index::Index(Mut)?<I>>::index(_mut)?$", "str::index"),
    (r"^core::str::traits::<impl core::ops::index::Index(Mut)?<I> for str>::index(_mut)?$", "str::index"),
    (r"^core::slice::index::<impl core::ops::index::Index(Mut)?<I> for \[T\]>::index(_mut)?$", "slice::index"),
    (r"^<std::collections::hash::map::HashMap<K, V, S, A> as core::ops::index::Index<&Q>>::index$", "HashMap::index"),
    (r"^<.*BTreeMap<.*> as core::ops::index::Index<&Q>>::index$", "BTreeMap::index"),
    (r"^<rpds::.*Vector<T, P> as core::ops::index::Index<usize>>::index$", "rpds::Vector::index"),
    (r"^<.* as core::ops::index::Index(Mut)?<.*>>::index(_mut)?$", "other::index"),
    (r"^core::cell::RefCell::<T>::borrow$", "RefCell::borrow"),
    (r"^core::cell::RefCell::<T>::borrow_mut$", "RefCell::borrow_mut"),
    (r"^alloc::vec::Vec::<T, A>::(remove|insert|swap_remove|drain|split_off|swap)$", "Vec::remove-like"),
    (r"^core::slice::<impl \[T\]>::(swap|split_at|split_at_mut|copy_from_slice|clone_from_slice|chunks|chunks_exact|windows|rotate_left|rotate_right|select_nth_unstable\w*)$", "slice::panicky"),
    (r"^alloc::string::String::(insert|insert_str|remove|replace_range|drain|split_off|truncate)$", "String::edit"),
    (r"^core::str::<impl str>::(split_at|split_at_mut)$", "str::split_at"),
    (r"^alloc::str::<impl str>::repeat$", "str::repeat"),
    (r"^alloc::vec::from_elem$", "vec::from_elem"),
    (r"^line_numbers::LinePositions::(from_offset|from_region)$", "LinePositions::from_offset"),
    (r"^core::num::<impl [iu](8|16|32|64|128|size)>::(pow|abs|div_euclid|rem_euclid|next_power_of_two|isqrt|ilog\w*|strict_\w+|unchecked_\w+)$", "int::panicky"),
    (r"^core::num::<impl [iu](8|16|32|64|128|size)>::(wrapping|overflowing)_(div|rem)(_euclid)?$", "int::zero-div"),
    (r"^<&?(mut )?[iu](8|16|32|64|128|size) as (std|core)::ops::(arith::)?(Add|Sub|Mul|Div|Rem|Neg|Shl|Shr)(Assign)?(<.*>)?>::\w+$", "int::ref-arith"),
    (r"^core::iter::traits::iterator::Iterator::step_by$", "Iterator::step_by"),
    (r"^core::char::(methods::<impl char>::)?from_digit$", "char::from_digit"),
    (r"^std::time::Instant::duration_since$|^<std::time::(Instant|SystemTime) as core::ops::arith::(Sub|Add)<.*>>::(sub|add)$|^<core::time::Duration as core::ops::arith::\w+<.*>>::\w+$", "time::arith"),
    (r"^core::time::Duration::(from_secs_f64|from_secs_f32)$", "time::arith"),
    (r"^alloc::rc::Rc::<T>::(new_cyclic)$", "other"),
    (r"^core::cell::RefCell::<T>::(replace|swap|replace_with|take)$", "RefCell::borrow_mut"),
    (r"^core::ops::function::Fn(Mut|Once)?::call(_mut|_once)?$", None),
]
_PANIC_API = [(re.compile(p), k) for p, k in PANIC_API]

# resolved callee paths are printed with `core::`/`alloc::` roots by def_path_str when
# with_no_trimmed_paths is on? (std re-exports print as std::). Normalise both to one spelling.
_NORM = [
    (re.compile(r"\bstd::vec::Vec\b"), "alloc::vec::Vec"),
    (re.compile(r"\bstd::string::String\b"), "alloc::string::String"),
    (re.compile(r"\bstd::option::Option\b"), "core::option::Option"),
    (re.compile(r"\bstd::result::Result\b"), "core::result::Result"),
    (re.compile(r"\bstd::cell::RefCell\b"), "core::cell::RefCell"),
    (re.compile(r"\bstd::ops::Index(Mut)?\b"), r"core::ops::index::Index\1"),
    (re.compile(r"\bstd::collections::HashMap\b"), "std::collections::hash::map::HashMap"),
    (re.compile(r"\bstd::rc::Rc\b"), "alloc::rc::Rc"),
    (re.compile(r"\bstd::iter::Iterator\b"), "core::iter::traits::iterator::Iterator"),
    (re.compile(r"\bstd::ops::Fn(Mut|Once)?\b"), r"core::ops::function::Fn\1"),
    (re.compile(r"^std::vec::from_elem$"), "alloc::vec::from_elem"),
    (re.compile(r"^std::str::<impl str>::repeat$"), "alloc::str::<impl str>::repeat"),
    (re.compile(r"^std::slice::<impl \[T\]>::"), "core::slice::<impl [T]>::"),
    (re.compile(r"^std::num::<impl "), "core::num::<impl "),
]


def norm_path(p):
    for rx, rep in _NORM:
        p = rx.sub(rep, p)
    return p


_api_cache = {}


def panic_api_kind(path):
    if path in _api_cache:
        return _api_cache[path]
    n = norm_path(path)
    r = None
    for rx, k in _PANIC_API:
        if rx.search(n):
            r = k
            break
    _api_cache[path] = r
    return r


class Site:
    __slots__ = ("fn", "bb", "kind", "detail", "span", "term", "discharged", "why")

    def __init__(self, fn, bb, kind, detail, span, term):
        self.fn = fn
        self.bb = bb
        self.kind = kind
        self.detail = detail
        self.span = span
        self.term = term
        self.discharged = None
        self.why = None

    def key(self):
        return "%s # %s # %s" % (self.fn.path, self.kind, self.detail)

    def loc(self):
        return "%s:%d" % (self.span["file"], self.span["line"])


def _const_str_arg(f, t):
    """first string-literal argument of a call (e.g. the expect message)."""
    for a in t["args"]:
        r = f.root_of(a)
        if r[0] == "const" and "s" in r[1]:
            return r[1]["s"]
    return None


def describe_place(f, p):
    """human/stable name of a place: debug names instead of local numbers."""
    if p is None:
        return "?"
    base = f.local_name(p["l"]) or ("arg%d" % p["l"] if p["l"] <= f.argc and p["l"] > 0 else "_tmp")
    s = base
    for e in p["p"]:
        if e == "deref":
            continue
        if isinstance(e, dict) and "name" in e:
            s += "." + e["name"]
        elif isinstance(e, dict) and "downcast" in e:
            s += "@" + e["downcast"]
        elif isinstance(e, dict) and ("index" in e or "cindex" in e):
            s += "[]"
    return s


LEGACY_TMP = False  # migration aid only


DEEP = False  # look through named single-definition locals too (used to re-find a reviewed site after a value was hoisted into a `let`)


def describe_operand(f, op, depth=6):
    r = f.root_of(op, through_named=True) if DEEP else f.root_of(op)
    if r[0] == "const":
        c = r[1]
        if "v" in c:
            return str(c["v"])
        if "s" in c:
            return repr(c["s"])
        return c.get("text", "const")
    if r[0] == "place":
        pl = r[1]
        # `(a - b).0` of an overflow-checked operation: describe the operation
        if not LEGACY_TMP and depth > 0 and len(pl["p"]) == 1 and isinstance(pl["p"][0], dict) and pl["p"][0].get("name") in ("0", 0) \
                and not f.local_name(pl["l"]):
            d = f.single_def(pl["l"])
            if d is not None and d[1] != "term" and d[2]["rv"]["k"] == "binop" and d[2]["rv"]["op"].endswith("WithOverflow"):
                rv = d[2]["rv"]
                return "%s(%s,%s)" % (rv["op"][:-len("WithOverflow")], describe_operand(f, rv["a"], depth - 1),
                                      describe_operand(f, rv["b"], depth - 1))
        return describe_place(f, pl)
    if r[0] == "call":
        t = r[2]
        name = M.callee_name(t) or "indirect"
        short = name.split("::")[-1]
        if depth > 0 and t["args"]:
            return "%s(%s)" % (short, describe_operand(f, t["args"][0], depth - 1))
        return short + "()"
    if r[0] == "rv":
        rv = r[3]["rv"]
        if rv["k"] == "binop" and depth > 0:
            return "%s(%s,%s)" % (rv["op"], describe_operand(f, rv["a"], depth - 1),
                                  describe_operand(f, rv["b"], depth - 1))
        if rv["k"] == "unop" and depth > 0:
            return "%s(%s)" % (rv["op"], describe_operand(f, rv["a"], depth - 1))
        if rv["k"] == "cast" and depth > 0:
            return describe_operand(f, rv["a"], depth - 1)
        if rv["k"] == "discr":
            return "discr(%s)" % describe_place(f, rv["place"])
        return rv["k"]
    return "?"


def describe_index(f, op):
    """`a..b`, `..b`, `a..`, `a..=b` for range aggregates, else the operand's description."""
    r = f.root_of(op, through_named=True)
    if r[0] == "rv" and r[3]["rv"]["k"] == "agg" and str(r[3]["rv"].get("adt", "")).startswith("std::ops::Range"):
        rv = r[3]["rv"]
        ds = [describe_operand(f, o, 4) for o in rv["ops"]]
        v = rv.get("variant")
        if v == "Range" and len(ds) == 2:
            return "%s..%s" % (ds[0], ds[1])
        if v == "RangeTo" and ds:
            return "..%s" % ds[0]
        if v == "RangeFrom" and ds:
            return "%s.." % ds[0]
        if v == "RangeInclusive" and len(ds) >= 2:
            return "%s..=%s" % (ds[0], ds[1])
        if v == "RangeToInclusive" and ds:
            return "..=%s" % ds[0]
        if v == "RangeFull":
            return ".."
        return v or "range"
    return describe_operand(f, op, 4)


def sites_of(f):
    """All panic-capable sites of one function (before discharge)."""
    out = []
    reach = f.reachable_blocks()
    for bi in sorted(reach):
        b = f.blocks[bi]
        t = b["term"]
        if t["t"] == "assert":
            ak = t["ak"]
            if ak in ("Misaligned", "NullPtr", "Other"):
                continue
            if ak == "BoundsCheck":
                # which slice: the len operand is PtrMetadata/Len of a place
                idx = describe_operand(f, t["index"])
                ln = describe_operand(f, t["len"])
                detail = "%s [%s]" % (ln, idx)
                out.append(Site(f, bi, "assert:BoundsCheck", detail, t["span"], t))
            elif ak == "Overflow":
                out.append(Site(f, bi, "assert:Overflow(%s)" % t["op"], t["aty"], t["span"], t))
            else:
                out.append(Site(f, bi, "assert:" + ak, t.get("aty", ""), t["span"], t))
        elif t["t"] == "call":
            name = M.callee_name(t)
            if name is None:
                continue
            c = t["callee"]
            if c.get("rlocal", c.get("local")) and c.get("resolved"):
                continue
            k = panic_api_kind(name)
            if k is None:
                continue
            detail = ""
            if k in ("Option::expect", "Result::expect"):
                detail = _const_str_arg(f, t) or ""
            elif k in ("panic", "panic_fmt", "panicking"):
                exp = t["span"].get("exp") or []
                detail = (_const_str_arg(f, t) or "")[:80]
                if not detail:
                    detail = _fmt_message(f, t)
            else:
                detail = describe_operand(f, t["args"][0]) if t["args"] else ""
                if k in ("str::index", "slice::index", "Vec::index", "String::edit", "other::index") and len(t["args"]) >= 2:
                    detail = "%s[%s]" % (detail, describe_index(f, t["args"][1]))
            out.append(Site(f, bi, "call:" + k, detail, t["span"], t))
    return out


def _fmt_message(f, t):
    """panic_fmt(Arguments): try to recover the literal pieces of the format string."""
    r = f.root_of(t["args"][0]) if t["args"] else None
    if r and r[0] == "call":
        ct = r[2]
        for a in ct["args"]:
            rr = f.root_of(a)
            if rr[0] == "const" and "s" in rr[1]:
                return rr[1]["s"][:80]
            if rr[0] == "const" and "text" in rr[1]:
                return rr[1]["text"][:80]
        return (M.callee_name(ct) or "").split("::")[-1]
    return ""
