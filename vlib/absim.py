"""Set-valued abstract simulation of a MIR CFG under a partial assignment of enum discriminants.

Used to answer questions like "when eval_break discards an entry (If, EvaluatedSubexpressions), how many
binding blocks does it pop, on every path?" without enumerating paths: a forward dataflow whose facts are
small sets of tuples. Switches on tracked enum types are resolved by the assignment; boolean temporaries
are constant-propagated (the `_x = const true/false; switchInt(_x)` shape that `matches!`/`&&`/`||` compile
to, copies, negation); calls of local boolean helper functions that depend only on the tracked discriminants
are evaluated by simulating the helper under the same assignment; every other branch is explored both ways."""
from . import mir as M
from . import dflow as D


def _bool_locals(f):
    if not hasattr(f, "_bool_locals"):
        f._bool_locals = {i for i, l in enumerate(f.locals) if l["ty"] == "bool"}
    return f._bool_locals


def _enum_succ(f, sw_by_bb, bb, assignment):
    sw = sw_by_bb.get(bb)
    if sw is not None:
        for ty, variant in assignment.items():
            if sw["ety"].replace("&", "").strip().endswith(ty):
                for tgt, names in sw["by_target"].items():
                    if variant in names:
                        return [tgt]
                if variant in sw["otherwise_variants"]:
                    return [sw["otherwise"]]
                return []
    return None


class Sim:
    def __init__(self, P=None):
        self.P = P
        self._ret_cache = {}

    def callee_bool(self, path, assignment, depth=0):
        """set of possible boolean return values of local function `path` under the assignment
        (True/False, or None for 'unknown')."""
        key = (path, tuple(sorted(assignment.items())))
        if key in self._ret_cache:
            return self._ret_cache[key]
        self._ret_cache[key] = {None}
        g = self.P.funcs.get(path) if self.P else None
        if g is None or g.locals[0]["ty"] != "bool" or depth > 3 or g.n > 400:
            return {None}
        out = self.simulate(g, 0, assignment, lambda b, v: v, init={()}, want_ret_bool=True, depth=depth + 1)
        vals = set()
        for (kind, bb), vs in out.items():
            if kind == "return":
                vals |= vs
        self._ret_cache[key] = vals or {None}
        return self._ret_cache[key]

    def simulate(self, f, start, assignment, transfer, stops=(), init=((),), cap_sets=512, want_ret_bool=False, depth=0):
        """transfer(bb, value) -> value (hashable). Returns {(kind, bb): set(values)}, kind in stop|return.
        With want_ret_bool the returned 'values' are the known constant of _0 (or None)."""
        sw_by_bb = {sw["bb"]: sw for sw in D.enum_switches(f)}
        bl = _bool_locals(f)
        stops = set(stops)
        facts = {start: {(v, ()) for v in init}}
        out = {}
        work = [start]
        iters = 0
        while work:
            iters += 1
            if iters > 400000:
                raise RuntimeError("abstract simulation did not converge in %s" % f.path)
            b = work.pop()
            blk = f.blocks[b]
            newvals = set()
            for (v, flags) in facts.get(b, ()):
                nv = transfer(b, v)
                d = dict(flags)
                for s in blk["stmts"]:
                    if s["s"] == "dead":
                        d.pop(s["l"], None)
                    elif s["s"] == "assign" and not s["place"]["p"] and s["place"]["l"] in bl:
                        L = s["place"]["l"]
                        rv = s["rv"]
                        val = None
                        if rv["k"] == "use":
                            c = M.op_const(rv["a"])
                            if c is not None and isinstance(c.get("v"), bool):
                                val = c["v"]
                            else:
                                p = M.op_place(rv["a"])
                                if p is not None and not p["p"] and p["l"] in d:
                                    val = d[p["l"]]
                        elif rv["k"] == "unop" and rv["op"] == "Not":
                            p = M.op_place(rv["a"])
                            if p is not None and not p["p"] and p["l"] in d:
                                val = not d[p["l"]]
                        if val is None:
                            d.pop(L, None)
                        else:
                            d[L] = val
                t = blk["term"]
                if t["t"] == "call" and not t["dest"]["p"] and t["dest"]["l"] in bl:
                    L = t["dest"]["l"]
                    d.pop(L, None)
                    c = t.get("callee") or {}
                    tgt = c.get("resolved") or c.get("path")
                    if self.P is not None and tgt in self.P.funcs and c.get("rlocal", c.get("local")):
                        rs = self.callee_bool(tgt, assignment, depth)
                        if len(rs) == 1 and None not in rs:
                            d[L] = next(iter(rs))
                newvals.add((nv, tuple(sorted(d.items()))))
            t = blk["term"]
            if t["t"] == "return":
                if want_ret_bool:
                    out.setdefault(("return", b), set()).update(dict(fl).get(0) for (_, fl) in newvals)
                else:
                    out.setdefault(("return", b), set()).update(x[0] for x in newvals)
                continue
            by_succ = {}
            es = _enum_succ(f, sw_by_bb, b, assignment)
            for (nv, flags) in newvals:
                if es is not None:
                    ss = es
                else:
                    ss = f.succ[b]
                    if t["t"] == "switch" and t["dty"] == "bool":
                        p = M.op_place(t["discr"])
                        if p is not None and not p["p"]:
                            dd = dict(flags)
                            if p["l"] in dd:
                                val = dd[p["l"]]
                                ss = [t["otherwise"]]
                                for sv, sb in t["targets"]:
                                    if bool(sv) == val:
                                        ss = [sb]
                for s in ss:
                    by_succ.setdefault(s, set()).add((nv, flags))
            for s, vs in by_succ.items():
                if s in stops:
                    out.setdefault(("stop", s), set()).update(x[0] for x in vs)
                    continue
                cur = facts.setdefault(s, set())
                before = len(cur)
                cur |= vs
                if len(cur) > cap_sets:
                    raise RuntimeError("abstract simulation: fact set too large at bb%d of %s" % (s, f.path))
                if len(cur) != before:
                    work.append(s)
        return out


def simulate(f, start, assignment, transfer, stops=(), init=((),), P=None):
    return Sim(P).simulate(f, start, assignment, transfer, stops=stops, init=init)
