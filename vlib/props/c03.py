"""C03 Operator chains are left-associative with uniform precedence (structural clauses).

  TABLE-AGREE  lexer operator tables, parser::token_as_binary_op, ast::BinaryOperatorKind and the evaluator's dispatch groups
               agree: token text <-> kind is a bijection onto all kinds; every operator text is produced by the lexer as one
               token (longest tokens first); every kind is dispatched to exactly one evaluator group whose helper has an
               explicit arm for it.
  INFIX-SHAPE  parse_expression folds operators in a loop: the new node is BinaryOperator(<accumulator>, <op of the popped
               token>, <rhs>) assigned back to the accumulator, and <rhs> is parsed by a function from which the infix loop is
               not entered again before an opening delimiter (here: it neither is the loop function nor calls
               token_as_binary_op). That shape is sufficient for left nesting of chains of any length; the one-level
               "rotation" idiom (matching on the parsed rhs being a BinaryOperator) is recognised and rejected.
  OPERAND-CLOSED  every function reachable as an operand of the infix loop that itself calls parse_expression looks at or
               consumes the next token afterwards on every non-error path (the sub-expression is delimited: `if c {`, `(e)`,
               `[a, b]`); the statement forms let / assignment / return are the reviewed exceptions. An operand parser with an
               open tail (`else if` parsed by parse_expression) swallows the rest of the chain.
  INPUT-JOIN      the REPL appends a newline before every continuation line it reads (a chain typed over two lines stays the chain
               that was typed).
  USED-FLAG-RECURSE  an operand contributes exactly one value to the chain only if the parser's value-usage pass
               (set_is_used_expr and its helpers) has decided `value_is_used` for every expression below it (the default is
               true, and the evaluator pushes a value for every expression flagged true). Every field of every Expression_
               variant whose type contains expressions must be bound by its arm and handed to a function of the pass.
Decides the grouping structure, not the values chains evaluate to.
"""
from .. import shape as S
from .. import mir as M

LEX = "src/parser/lex.rs"
PAR = "src/parser.rs"
AST = "src/parser/ast.rs"
EVAL = "src/eval.rs"


def const_array(sh, rel, name):
    for n in S.walk(S.file_items(sh, rel)):
        if n["k"] == "Const" and n.get("name") == name:
            vals = []
            for x in S.walk(n["init"]):
                if x["k"] in ("LitStr", "LitChar"):
                    vals.append(x["v"])
            return vals, S.line(n)
    raise M.MissingAnchor("constant %s not found in %s" % (name, rel))


def kinds_in_pat(p):
    """BinaryOperatorKind variant names mentioned in a pattern."""
    out = []
    for n in S.walk(p):
        if n["k"] == "PPath" and "BinaryOperatorKind::" in n["path"]:
            out.append(n["path"].split("::")[-1])
    return out


import re as _re

_TYNAME = _re.compile(r"[A-Za-z_][A-Za-z0-9_]*")


def ast_types(sh):
    """name -> list of (field name or index, type text) for the structs and enums of the syntax tree."""
    t = {}
    for n in S.walk(S.file_items(sh, AST)):
        if n["k"] == "StructDef":
            t[n["name"]] = [(f["name"], f["ty"]) for f in n["fields"]]
        elif n["k"] == "Enum":
            t[n["name"]] = [("%s.%d" % (v["name"], i), f["ty"]) for v in n["variants"] for i, f in enumerate(v["fields"])]
    return t


def bearing_names(types):
    """type names whose values contain an Expression (least fixpoint from `Expression`)."""
    b = {"Expression"}
    ch = True
    while ch:
        ch = False
        for name, fields in types.items():
            if name not in b and any(set(_TYNAME.findall(ty)) & b for _, ty in fields):
                b.add(name)
                ch = True
    return b


def leaves(ty, types, bearing, depth=0):
    """field paths (tuples of field names) under a value of type `ty` that hold expressions handled by the flag pass
    itself: a type that mentions Expression/Block/FunInfo directly is one leaf; a struct is opened."""
    names = set(_TYNAME.findall(ty))
    if names & {"Expression", "Block", "FunInfo"} or depth > 4:
        # an operand (its value is always popped by the parent's evaluation step) or a block / function body
        return [("<operand>",)] if "Expression" in names and not names & {"Block", "FunInfo"} else [()]
    out = []
    for nm in sorted(names & bearing):
        for fname, fty in types.get(nm, []):
            if set(_TYNAME.findall(fty)) & bearing:
                out += [(fname,) + l for l in leaves(fty, types, bearing, depth + 1)]
    return out


def _taint(body, seeds):
    """names in `body` bound (let / for / if-let / match) from an expression that mentions a tainted name."""
    tainted = set(seeds)
    ch = True
    while ch:
        ch = False
        for n in S.walk(body):
            k = n["k"]
            src = pat = None
            if k == "Let" and n.get("init") is not None:
                src, pat = n["init"], [n["pat"]]
            elif k == "For":
                src, pat = n["iter"], [n["pat"]]
            elif k == "LetCond":
                src, pat = n["e"], [n["pat"]]
            elif k == "Match":
                src, pat = n["e"], [a["pat"] for a in n["arms"]]
            if src is None or not (S.idents_in(src) & tainted):
                continue
            for p_ in pat:
                for b_ in S.pat_bindings(p_):
                    if b_ not in tainted:
                        tainted.add(b_)
                        ch = True
    return tainted


def flag_pass_family(sh):
    out = []
    S._fns_in(S.file_items(sh, PAR), out)
    return {fn["name"]: fn for impl, fn, test in out if not test and impl is None and fn["name"].startswith("set_is_used_")}


def used_flag_recurse(sh, res, rule="USED-FLAG-RECURSE"):
    """USED-FLAG-RECURSE: the pass that decides which expressions push a value reaches every sub-expression."""
    types = ast_types(sh)
    bearing = bearing_names(types)
    fam = flag_pass_family(sh)
    if "set_is_used_expr" not in fam:
        raise M.MissingAnchor("parser::set_is_used_expr not found")
    variants = {v["name"]: v["fields"] for v in S.find_enum(sh, AST, "Expression_")["variants"]}
    fn = fam["set_is_used_expr"]
    bools = [p_["name"] for p_ in fn["params"] if p_["ty"].strip() == "bool"]
    flag_param = bools[0] if bools else None
    ms = [m for m in S.matches_in(fn["body"]) if any("Expression_::" in (a.get("pat_txt") or "") for a in m["arms"])]
    if not ms:
        raise M.MissingAnchor("set_is_used_expr has no match over Expression_")
    m = ms[0]

    def calls_with(body, tainted, leaf):
        for n in S.walk(body):
            if n["k"] == "Call" and n["f"]["k"] == "Path" and n["f"]["path"] in fam:
                for a in n["args"]:
                    if not (S.idents_in(a) & tainted):
                        continue
                    if not leaf:
                        return n
                    flds = {x["name"] for x in S.walk(a) if x["k"] == "Field"}
                    if leaf[-1] in flds or not flds:
                        return n
        return None

    seen = set()
    n_ob = 0

    def alternatives(p):
        if p["k"] == "POr":
            for c in p["cases"]:
                yield from alternatives(c)
        else:
            yield p
    for arm in m["arms"]:
        for alt in alternatives(arm["pat"]):
            v = S.pat_variant(alt)
            if v == "_":
                wild = [x for x in variants if x not in seen and any(set(_TYNAME.findall(f["ty"])) & bearing for f in variants[x])]
                for x in wild:
                    res.bad("USED-FLAG-RECURSE", "parser::set_is_used_expr # %s # wildcard" % x,
                            "Expression_::%s holds sub-expressions but is handled by a wildcard arm of the value-usage pass" % x, "%s:%d" % (PAR, S.line(arm)))
                continue
            if v not in variants:
                continue
            seen.add(v)
            elems = alt.get("elems", []) if alt["k"] == "PTupleStruct" else []
            for i, f in enumerate(variants[v]):
                if not (set(_TYNAME.findall(f["ty"])) & bearing):
                    continue
                if i >= len(elems):
                    res.bad("USED-FLAG-RECURSE", "parser::set_is_used_expr # %s.%d # unbound" % (v, i),
                            "field %d of Expression_::%s (%s) holds sub-expressions but the arm does not bind it" % (i, v, f["ty"]), "%s:%d" % (PAR, S.line(arm)))
                    continue
                e = elems[i]
                if S.pat_variant(e) == "None":
                    continue
                binds = set(S.pat_bindings(e))
                if not binds:
                    res.bad("USED-FLAG-RECURSE", "parser::set_is_used_expr # %s.%d # ignored" % (v, i),
                            "field %d of Expression_::%s (%s) holds sub-expressions but the arm ignores it, so `value_is_used` is never decided below it" % (i, v, f["ty"]), "%s:%d" % (PAR, S.line(arm)))
                    continue
                tainted = _taint(arm["body"], binds)
                for leaf in leaves(f["ty"], types, bearing):
                    n_ob += 1
                    operand = bool(leaf) and leaf[-1] == "<operand>"
                    if operand:
                        leaf = leaf[:-1]
                    c = calls_with(arm["body"], tainted, leaf)
                    if c is not None and operand and c["f"]["path"] == "set_is_used_expr" and len(c["args"]) == 2:
                        # USED-FLAG-VALUE: the parent's evaluation step always pops an operand's value, so the operand is
                        # flagged used unconditionally; only parentheses hand their own flag down
                        flag = c["args"][1]
                        bad_flags = []
                        for n_ in S.walk(arm["body"]):
                            if n_["k"] == "Call" and n_["f"]["k"] == "Path" and n_["f"]["path"] == "set_is_used_expr" and len(n_["args"]) == 2 \
                                    and (S.idents_in(n_["args"][0]) & tainted) and (not leaf or leaf[-1] in {x["name"] for x in S.walk(n_["args"][0]) if x["k"] == "Field"} or not any(x["k"] == "Field" for x in S.walk(n_["args"][0]))):
                                fl = n_["args"][1]
                                is_true = fl["k"] == "LitBool" and fl["v"] is True
                                is_param = fl["k"] == "Path" and fl["path"] == flag_param
                                if v == "Parentheses":
                                    if not is_param:
                                        bad_flags.append(n_)
                                elif not is_true:
                                    bad_flags.append(n_)
                        if bad_flags:
                            res.bad("USED-FLAG-RECURSE", "parser::set_is_used_expr # %s.%d%s # flag" % (v, i, "".join("." + x for x in leaf)),
                                    "the operand %s of Expression_::%s is not flagged `value_is_used = true` unconditionally, but the evaluation step of "
                                    "%s always pops its value: when the flag is false the operand pushes nothing and the step pops a value that is not "
                                    "its own (or an empty stack)" % ("field %d%s" % (i, "".join("." + x for x in leaf)), v, v), "%s:%d" % (PAR, S.line(bad_flags[0])))
                            continue
                    key = "parser::set_is_used_expr # %s.%d%s" % (v, i, "".join("." + x for x in leaf))
                    if c is None:
                        res.bad("USED-FLAG-RECURSE", key + " # no-recursion",
                                "the arm for Expression_::%s does not pass %s to the value-usage pass: statements below it keep the default `value_is_used = true` "
                                "and push stray values between the operands of the enclosing expression" % (v, "field %d%s" % (i, "".join("." + x for x in leaf))), "%s:%d" % (PAR, S.line(arm)))
                    else:
                        res.ok("USED-FLAG-RECURSE", key + " -> " + c["f"]["path"])
    for v in variants:
        if v not in seen and any(set(_TYNAME.findall(f["ty"])) & bearing for f in variants[v]) and not any(
                S.pat_variant(alt) == "_" for arm in m["arms"] for alt in alternatives(arm["pat"])):
            res.bad("USED-FLAG-RECURSE", "parser::set_is_used_expr # %s # no arm" % v, "no arm handles Expression_::%s" % v, "%s:%d" % (PAR, S.line(m)))
    # helpers of the family with a syntax-tree parameter
    for name, hf in sorted(fam.items()):
        if name == "set_is_used_expr":
            continue
        for prm in hf.get("params", []):
            names = set(_TYNAME.findall(prm["ty"]))
            if not (names & bearing) or "Expression" in names and name == "set_is_used_expr":
                continue
            tainted = _taint(hf["body"], {prm["name"]})
            n_ob += 1
            c = None
            for n in S.walk(hf["body"]):
                if n["k"] == "Call" and n["f"]["k"] == "Path" and n["f"]["path"] in fam and any(S.idents_in(a) & tainted for a in n["args"]):
                    c = n
                    break
            key = "parser::%s # %s" % (name, prm["ty"].replace("&mut ", "").strip())
            if c is None:
                res.bad("USED-FLAG-RECURSE", key + " # no-recursion", "%s does not hand its argument on to the value-usage pass" % name, "%s:%d" % (PAR, S.line(hf)))
            else:
                res.ok("USED-FLAG-RECURSE", key + " -> " + c["f"]["path"])
    res.floor("USED-FLAG-RECURSE", "sub-expression fields that must be visited", n_ob, 30)


from .. import dflow as D

# functions in which the last thing parsed may be a full expression (infix loop included) with nothing looked at after it.
# They take everything up to the end of the enclosing expression, so as an operand they absorb the rest of a chain.
OPEN_TAIL_OK = {
    "parser::parse_let": "statement form `let p = e`: the grammar gives it the whole rest of the expression; its value is Unit",
    "parser::parse_assign": "statement form `x = e`, value Unit",
    "parser::parse_assign_update": "statement form `x += e`, value Unit",
    "parser::parse_return": "`return e` never yields a value to the chain",
}
INFIX_FN = "parser::parse_expression"


def input_join(P, res):
    """INPUT-JOIN: the interactive front end assembles a multi-line input by appending a newline *before* each continuation
    line. Appending it after glues the first continuation line to the previous one, and `10 - 4 -` + `3` becomes `10 - 4 -3`
    (the lexer reads `-3` as one literal): a chain typed over two lines is no longer the chain that was typed."""
    f = P.funcs.get("cli_session::read_multiline_syntax")
    if f is None:
        raise M.MissingAnchor("cli_session::read_multiline_syntax not found")
    n = 0
    for bi, t in f.calls():
        if not (M.callee_name(t) or "").endswith("String::push_str") or len(t["args"]) < 2:
            continue
        # the continuation line: a push_str whose argument comes from a readline call, into the accumulated source
        r = f.root_of(t["args"][1], through_named=True)
        src_l = f.root_of(t["args"][0])
        cur = r
        from_readline = False
        for _ in range(6):
            if cur[0] == "place":
                dd = [d for d in f.defs.get(cur[1]["l"], []) if d[1] == "term"]
                if len(dd) != 1:
                    break
                cur = ("call", dd[0][0], dd[0][2])
                continue
            if cur[0] != "call":
                break
            if "readline" in (M.callee_name(cur[2]) or ""):
                from_readline = True
                break
            if not cur[2]["args"]:
                break
            cur = f.root_of(cur[2]["args"][0], through_named=True)
        if not from_readline or src_l[0] != "place":
            continue
        n += 1
        nl = []
        for b2, t2 in f.calls():
            if (M.callee_name(t2) or "").endswith("String::push") and len(t2["args"]) == 2:
                c = M.op_const(t2["args"][1])
                tgt = f.root_of(t2["args"][0])
                if c is not None and c.get("v") == 10 and tgt[0] == "place" and tgt[1]["l"] == src_l[1]["l"]:
                    nl.append(b2)
        # between the readline and the push_str of its result, a newline is pushed (the newline push dominates push_str and
        # is itself after the readline)
        rl_bb = cur[1]
        ok = any(f.dominates(rl_bb, b2) and f.dominates(b2, bi) for b2 in nl)
        key = "cli_session::read_multiline_syntax # continuation line %d" % n
        if ok:
            res.ok("INPUT-JOIN", key + ": a newline is appended before the continuation line")
        else:
            res.bad("INPUT-JOIN", key + " # glued",
                    "a continuation line read by the REPL is appended to the input without a newline in front of it: the last token of the previous line "
                    "and the first of this one are lexed together (`10 - 4 -` + `3` reads as `10 - 4 -3`)", f.loc(t["span"]))
    res.floor("INPUT-JOIN", "continuation lines appended to the input", n, 1)


def operand_closed(P, res):
    """OPERAND-CLOSED: every parser function that can produce an operand and calls parse_expression looks at (or consumes)
    the next token after it on every non-error path to its return -- the sub-expression is delimited."""
    if INFIX_FN not in P.funcs:
        raise M.MissingAnchor(INFIX_FN + " not found")
    E = P.edges()

    def callees(p):
        return {t for k, t, b in E.get(p, []) if k != "live"}
    rhs = [c for c in callees(INFIX_FN) if c.startswith("parser::parse_")]
    if not rhs:
        raise M.MissingAnchor("parse_expression does not call an operand parser")
    seen = set(rhs)
    st = list(rhs)
    while st:
        x = st.pop()
        for c in callees(x):
            if c.startswith("parser::") and c not in seen and c != INFIX_FN and c in P.funcs:
                seen.add(c)
                st.append(c)

    def takes_tokens(n):
        g = P.funcs.get(n)
        return g is not None and any("TokenStream" in g.locals[i]["ty"] for i in range(1, g.argc + 1))

    def looks(n):
        return bool(n) and takes_tokens(n) and not n.endswith("::prev") and not n.endswith("::is_empty")
    n_sites = 0
    open_fns = {}
    for p_ in sorted(seen):
        f = P.funcs[p_]
        sites = [(bi, t) for bi, t in f.calls() if M.callee_name(t) == INFIX_FN]
        if not sites:
            continue
        err = set()
        for sw in D.call_switches(f, "::is_invalid_or_placeholder", None):
            if sw["true"] is not None:
                err |= D.edge_dominated(f, sw["bb"], sw["true"])
        for bi, t in sites:
            n_sites += 1
            tgt = t.get("target")
            if tgt is None:
                continue
            insp = [b for b, tt in f.calls() if b != bi and looks(M.callee_name(tt))]
            r = D.reach_from(f, [tgt], avoid_blocks=set(insp) | err)
            if r & set(f.exits()):
                open_fns.setdefault(p_, []).append(t["span"])
            else:
                res.ok("OPERAND-CLOSED", "%s: the expression parsed at %s is followed by a look at the next token on every path" % (p_, M.span_loc(t["span"]) if hasattr(M, "span_loc") else t["span"]))
    for p_, spans in sorted(open_fns.items()):
        if p_ in OPEN_TAIL_OK:
            res.ok("OPERAND-CLOSED", "%s has an open tail (reviewed: %s)" % (p_, OPEN_TAIL_OK[p_]))
        else:
            res.bad("OPERAND-CLOSED", "%s # open-tail" % p_,
                    "%s is reachable as an operand of the infix loop and ends with a call to parse_expression that nothing delimits: used inside a chain "
                    "it swallows the operators that follow it (`a op <this> op b` groups as `a op (<this> op b)`)" % p_, spans[0])
    for p_ in OPEN_TAIL_OK:
        if p_ not in P.funcs:
            raise M.MissingAnchor("%s (reviewed open-tail statement parser) not found" % p_)
    res.floor("OPERAND-CLOSED", "parse_expression call sites in operand parsers", n_sites, 17)


LINE_TESTS_OK = {
    "parser::parse_comma_separated_exprs": "error recovery only: after the 'expected , or )' diagnostic has been pushed for a missing comma, line positions choose between 'forgotten comma' (continue) and 'forgotten parenthesis' (stop); a program without parse errors never reaches it",
    "parser::parse_return": "`return` followed by a line break returns nothing: the expression on the next line is a new statement (documented)",
}


def layout_free(P, res, rule="LAYOUT-FREE"):
    """how a sequence of tokens groups must not depend on where its line breaks are: a chain wrapped after an operator
    (`a -` newline `b -` newline `c`) is the same chain. Only the reviewed parser functions may branch on line numbers."""
    import json as _json
    from .. import dflow as _D
    n = 0
    for p_, f in sorted(P.funcs.items()):
        if not p_.startswith("parser::") or p_.startswith("parser::lex") or p_.startswith("parser::position") or p_.startswith("parser::diagnostics"):
            continue
        hits = []
        for sw in _D.bool_switches(f):
            r = sw["root"]
            if r[0] == "rv" and r[3]["rv"]["k"] == "binop":
                for k_ in ("a", "b"):
                    rr = f.root_of(r[3]["rv"][k_], through_named=True)
                    if rr[0] == "place" and any(x in ("line_number", "end_line_number") for x in f.field_path(rr[1])):
                        hits.append(sw)
                        break
        if not hits:
            continue
        n += 1
        if p_ in LINE_TESTS_OK:
            res.ok(rule, "%s branches on line numbers (reviewed: %s)" % (p_, LINE_TESTS_OK[p_][:60]))
        else:
            res.bad(rule, "%s # branches on line numbers" % p_, "%s decides how to parse by comparing line numbers: the same tokens group differently (or are rejected) depending "
                    "on where the line breaks fall, e.g. a chain wrapped after an operator" % p_, f.loc(f.blocks[hits[0]["bb"]]["term"].get("span")))
    res.floor(rule, "parser functions that branch on line numbers", n, 2)


def run(ctx, res):
    sh = ctx.shape
    layout_free(ctx.P, res)
    # explicit parentheses override the grouping only if the inner chain has run when the parenthesised expression counts as done
    from . import c27 as _c27
    _c27.done_means_value(ctx.P, res)
    two, l2 = const_array(sh, LEX, "TWO_CHAR_OPERATORS")
    one, l1 = const_array(sh, LEX, "ONE_CHAR_OPERATORS")
    two_tok, _ = const_array(sh, LEX, "TWO_CHAR_TOKENS")
    one_tok, _ = const_array(sh, LEX, "ONE_CHAR_TOKENS")
    kinds = [v["name"] for v in S.find_enum(sh, AST, "BinaryOperatorKind")["variants"]]
    res.floor("TABLE-AGREE", "BinaryOperatorKind variants", len(kinds), 21)
    # ---- token_as_binary_op
    fn = S.find_fn(sh, PAR, "token_as_binary_op")
    ms = S.matches_in(fn["body"])
    if not ms:
        raise M.MissingAnchor("token_as_binary_op has no match")
    t2k = {}
    dup = []
    for a in ms[0]["arms"]:
        p = a["pat"]
        lits = [n["v"] for n in S.walk(p) if n["k"] == "LitStr"]
        ks = [n["path"].split("::")[-1] for n in S.walk(a["body"]) if n["k"] == "Path" and "BinaryOperatorKind::" in n["path"]]
        for t in lits:
            if t in t2k:
                dup.append(t)
            if len(ks) == 1:
                t2k[t] = ks[0]
            else:
                res.bad("TABLE-AGREE", "parser::token_as_binary_op # arm %r" % t, "arm for %r does not yield exactly one BinaryOperatorKind" % t, "%s:%d" % (PAR, S.line(a)))
    for t in dup:
        res.bad("TABLE-AGREE", "parser::token_as_binary_op # duplicate %r" % t, "token text %r has two arms" % t, PAR)
    inv = {}
    for t, k in t2k.items():
        inv.setdefault(k, []).append(t)
    for k in kinds:
        ts = inv.get(k, [])
        key = "BinaryOperatorKind::%s" % k
        if len(ts) == 1:
            res.ok("TABLE-AGREE", "%s <-> %r" % (key, ts[0]))
        elif not ts:
            res.bad("TABLE-AGREE", key + " # no-token", "no token text maps to %s: the operator cannot be written" % k, PAR)
        else:
            res.bad("TABLE-AGREE", key + " # many-tokens %s" % sorted(ts), "%s is produced by several token texts %s" % (k, sorted(ts)), PAR)
    for k in inv:
        if k not in kinds:
            res.bad("TABLE-AGREE", "parser::token_as_binary_op # unknown kind %s" % k, "maps to a kind that is not a variant", PAR)
    # ---- lexer produces each operator text as one token
    lex_ops = set(two) | set(one)
    for t in sorted(t2k):
        key = "lexer token %r" % t
        if t in lex_ops:
            res.ok("TABLE-AGREE", key + " is in the lexer's operator tables")
        else:
            res.bad("TABLE-AGREE", key + " # not-lexed", "operator %r (%s) is not in TWO_CHAR_OPERATORS/ONE_CHAR_OPERATORS: the lexer never produces it as one token" % (t, t2k[t]), "%s:%d" % (LEX, l2))
    for t in two + two_tok:
        if len(t) != 2:
            res.bad("TABLE-AGREE", "lexer two-char table %r" % t, "entry %r of the two-character tables is not two characters long" % t, LEX)
    # longest first: in lex_between the loop over the two-char tables precedes the loop over the one-char tables
    lb = S.find_fn(sh, LEX, "lex_between")
    fors = [n for n in S.walk(lb["body"]) if n["k"] == "For"]
    l_two = [S.line(n) for n in fors if "TWO_CHAR_OPERATORS" in S.idents_in(n["iter"])]
    l_one = [S.line(n) for n in fors if "ONE_CHAR_OPERATORS" in S.idents_in(n["iter"])]
    if l_two and l_one and max(l_two) < min(l_one):
        res.ok("TABLE-AGREE", "lex_between tries two-character operators before one-character operators")
    else:
        res.bad("TABLE-AGREE", "parser::lex::lex_between # order", "two-character operators are not matched before one-character ones (`+.` would lex as `+` `.`)", LEX)
    # ---- evaluator dispatch
    ev = S.find_fn(sh, EVAL, "eval_expr")
    groups = []
    for m in S.matches_in(ev["body"]):
        for a in m["arms"]:
            if S.pat_variant(a["pat"]) == "BinaryOperator":
                ks = kinds_in_pat(a["pat"])
                helpers = [n["f"]["path"] for n in S.walk(a["body"]) if n["k"] == "Call" and n["f"]["k"] == "Path" and n["f"]["path"].startswith("eval_")]
                groups.append((ks, helpers, S.line(a)))
        if groups:
            break
    seen = {}
    for ks, helpers, ln in groups:
        for k in ks:
            if k in seen:
                res.bad("TABLE-AGREE", "eval::eval_expr # %s twice" % k, "BinaryOperatorKind::%s is matched by two arms of eval_expr" % k, "%s:%d" % (EVAL, ln))
            seen[k] = (helpers, ln)
    for k in kinds:
        if k not in seen:
            res.bad("TABLE-AGREE", "eval::eval_expr # %s undispatched" % k, "BinaryOperatorKind::%s has no arm in eval_expr" % k, EVAL)
            continue
        helpers, ln = seen[k]
        if len(helpers) != 1:
            res.bad("TABLE-AGREE", "eval::eval_expr # %s helpers %s" % (k, helpers), "arm for %s does not call exactly one evaluator helper" % k, "%s:%d" % (EVAL, ln))
            continue
        h = S.find_fn(sh, EVAL, helpers[0])
        explicit = set()
        for mm in S.matches_in(h["body"]):
            # the match whose scrutinee is the operator-kind parameter (found by the parameter's type, not its name)
            kind_params = {p_["name"] for p_ in h["params"] if "BinaryOperatorKind" in p_["ty"]}
            if S.idents_in(mm["e"]) & kind_params or (not kind_params and "kind" in ctx.src_text(EVAL, mm["e"]["sp"])):
                for a in mm["arms"]:
                    explicit |= set(kinds_in_pat(a["pat"]))
        n_group = [g for g in groups if k in g[0]][0]
        if k in explicit or (not explicit and len(n_group[0]) == 1):
            res.ok("TABLE-AGREE", "%s -> %s (explicit arm)" % (k, helpers[0]))
        else:
            res.bad("TABLE-AGREE", "eval::%s # no arm for %s" % (helpers[0], k),
                    "eval_expr sends %s to %s, which has no explicit arm for it (falls into its unreachable!/default arm)" % (k, helpers[0]), "%s:%d" % (EVAL, S.line(h)))
    # Display table: informational only
    disp = None
    for it in S.walk(S.file_items(sh, AST)):
        if it["k"] == "Impl" and it.get("trait") == "Display" and it.get("self_ty") == "BinaryOperatorKind":
            disp = it
    if disp:
        for a in S.matches_in(disp)[0]["arms"]:
            k = S.pat_variant(a["pat"])
            txt = [n["v"] for n in S.walk(a["body"]) if n["k"] == "LitStr"]
            if txt and inv.get(k) and txt[0] != inv[k][0]:
                res.note("informational: Display for BinaryOperatorKind::%s prints %r but the token is %r (affects assertion messages only)" % (k, txt[0], inv[k][0]))

    # ---- INFIX-SHAPE
    pe = S.find_fn(sh, PAR, "parse_expression")
    calls_tabo = [n for n in S.walk(pe["body"]) if n["k"] == "Call" and n["f"]["k"] == "Path" and n["f"]["path"] == "token_as_binary_op"]
    if not calls_tabo:
        res.bad("INFIX-SHAPE", "parser::parse_expression # no-infix", "parse_expression does not consult token_as_binary_op: cannot find the infix loop", "%s:%d" % (PAR, S.line(pe)))
    else:
        loops = [n for n in S.walk(pe["body"]) if n["k"] in ("Loop", "While")]
        loop = None
        for lp in loops:
            if any(n is c for c in calls_tabo for n in S.walk(lp)):
                loop = lp
        # BinaryOperator constructions inside the function
        cons = []
        for n in S.walk(pe["body"]):
            if n["k"] == "Call" and n["f"]["k"] == "Path" and n["f"]["path"].endswith("Expression_::BinaryOperator") and len(n["args"]) == 3:
                cons.append(n)
        rot = [m for m in S.matches_in(pe["body"]) if any(S.pat_variant(a["pat"]) == "BinaryOperator" for a in m["arms"])]
        rot += [n for n in S.walk(pe["body"]) if n["k"] in ("LetCond",) and S.pat_variant(n["pat"]) == "BinaryOperator"]
        if loop is None:
            res.bad("INFIX-SHAPE", "parser::parse_expression # no-loop", "infix operators are not folded in a loop (recursive right-hand side gives right nesting)", "%s:%d" % (PAR, S.line(pe)))
        elif rot:
            res.bad("INFIX-SHAPE", "parser::parse_expression # rotation",
                    "parse_expression inspects the parsed right-hand side for a BinaryOperator (one-level rotation): chains of four or more operands are mis-grouped",
                    "%s:%d" % (PAR, S.line(rot[0])))
        elif len(cons) != 1:
            res.bad("INFIX-SHAPE", "parser::parse_expression # constructions=%d" % len(cons), "expected exactly one BinaryOperator construction in the infix loop, found %d" % len(cons), "%s:%d" % (PAR, S.line(pe)))
        else:
            c = cons[0]
            # accumulator: first arg is Rc::new(<acc>), the whole node is assigned to <acc>
            a0 = c["args"][0]
            acc = None
            if a0["k"] == "Call" and a0["f"].get("path") == "Rc::new" and a0["args"][0]["k"] == "Path":
                acc = a0["args"][0]["path"]
            assigned = [n for n in S.walk(loop) if n["k"] == "Assign" and n["l"].get("path") == acc and any(x is c for x in S.walk(n["r"]))]
            a2 = c["args"][2]
            rhs = None
            if a2["k"] == "Call" and a2["f"].get("path") == "Rc::new" and a2["args"][0]["k"] == "Path":
                rhs = a2["args"][0]["path"]
            rhs_fn = None
            for n in S.walk(loop):
                if n["k"] == "Let" and n["pat"]["k"] == "PIdent" and n["pat"]["name"] == rhs and n["init"] and n["init"]["k"] == "Call":
                    rhs_fn = n["init"]["f"].get("path")
            # op comes from the token popped in this iteration
            op = c["args"][1]
            op_ok = False
            if op["k"] == "Path":
                for n in S.walk(loop):
                    if n["k"] in ("Let", "LetCond") and op["path"] in S.pat_bindings(n["pat"]):
                        src = n.get("init") or n.get("e")
                        if src is not None and any(x is t for t in calls_tabo for x in S.walk(src)):
                            op_ok = True
            elif any(x is t for t in calls_tabo for x in S.walk(op)):
                op_ok = True
            pops = [n for n in S.walk(loop) if n["k"] == "MethodCall" and n["method"] == "pop" and n["recv"].get("path") in {p_["name"] for p_ in pe["params"] if "TokenStream" in p_["ty"]}]
            problems = []
            if acc is None or not assigned:
                problems.append("the new node is not `acc = BinaryOperator(Rc::new(acc), ..)`")
            if not op_ok:
                problems.append("the operator is not taken from token_as_binary_op of the current token")
            if not pops:
                problems.append("the operator token is not consumed in the loop")
            if rhs_fn is None:
                problems.append("the right-hand side is not parsed by a direct call")
            elif rhs_fn == "parse_expression":
                problems.append("the right-hand side is parsed by parse_expression itself (right-associative recursion)")
            else:
                rf = S.find_fn(sh, PAR, rhs_fn)
                inner = [n for n in S.walk(rf["body"]) if n["k"] == "Call" and n["f"]["k"] == "Path" and n["f"]["path"] in ("token_as_binary_op", "parse_expression")]
                # calls of parse_expression inside delimiters are fine only in deeper functions; the rhs function itself must not
                if any(n["f"]["path"] == "token_as_binary_op" for n in inner):
                    problems.append("the right-hand-side parser %s handles infix operators itself" % rhs_fn)
                if any(n["f"]["path"] == "parse_expression" for n in inner):
                    problems.append("the right-hand-side parser %s calls parse_expression directly" % rhs_fn)
            if problems:
                res.bad("INFIX-SHAPE", "parser::parse_expression # shape", "; ".join(problems), "%s:%d" % (PAR, S.line(c)))
            else:
                res.ok("INFIX-SHAPE", "parse_expression: loop { op = token_as_binary_op(peek); pop; rhs = %s(); %s = BinaryOperator(%s, op, rhs) }" % (rhs_fn, acc, acc))
                res.sample({"rule": "INFIX-SHAPE", "accumulator": acc, "rhs_parser": rhs_fn, "line": S.line(c)})
    used_flag_recurse(sh, res)
    operand_closed(ctx.P, res)
    input_join(ctx.P, res)
    res.extra["tables"] = {"two_char_ops": two, "one_char_ops": one, "token_to_kind": t2k}
    res.extra["functions_analysed"] = 5
    res.explanation = (
        "Structural clauses. TABLE-AGREE compares four tables extracted from the source (lexer operator constants, the "
        "token->kind match, the enum's variants, the evaluator's dispatch patterns and each helper's explicit arms): bijection "
        "text<->kind onto all 21 kinds, every text lexable as one token with longer tokens tried first, every kind dispatched "
        "once to a helper that names it. INFIX-SHAPE checks that the infix loop builds BinaryOperator(acc, op, rhs) into the "
        "accumulator with rhs parsed by a function that cannot itself absorb a following operator; by induction on the number "
        "of operators that loop yields ((x1 op1 x2) op2 x3)... for chains of any length, with one precedence level because "
        "there is a single loop. Parenthesised sub-expressions are parsed by the primary-expression parser and are one operand. "
        "OPERAND-CLOSED: no operand parser ends in an undelimited parse_expression (statement forms excepted), so an operand "
        "cannot absorb the operators after it. USED-FLAG-RECURSE: the value-usage pass visits every sub-expression field of every Expression_ variant (including the "
        "inside of explicit parentheses), a necessary condition for each operand to leave exactly one value. "
        "Values are not computed.")
