"""C03 Operator chains are left-associative with uniform precedence (structural clauses).

  TABLE-AGREE  lexer operator tables, parser::token_as_binary_op, ast::BinaryOperatorKind and the evaluator's dispatch groups
               agree: token text <-> kind is a bijection onto all kinds; every operator text is produced by the lexer as one
               token (longest tokens first); every kind is dispatched to exactly one evaluator group whose helper has an
               explicit arm for it.
  INFIX-SHAPE  parse_expression folds operators in a loop: the new node is BinaryOperator(<accumulator>, <op of the popped
               token>, <rhs>) assigned back to the accumulator, and <rhs> is parsed by a function from which the infix loop is
               not entered again before an opening delimiter (here: it neither is the loop function nor calls
               token_as_binary_op). That shape is sufficient for left nesting of chains of any length; the one-level
               "rotation" idiom (matching on the parsed rhs being a BinaryOperator) is recognised and rejected.
Decides the grouping structure, not the values chains evaluate to.
"""
from .. import shape as S
from .. import mir as M

LEX = "src/parser/lex.rs"
PAR = "src/parser.rs"
AST = "src/parser/ast.rs"
EVAL = "src/eval.rs"


def const_array(sh, rel, name):
    for n in S.walk(S.file_items(sh, rel)):
        if n["k"] == "Const" and n.get("name") == name:
            vals = []
            for x in S.walk(n["init"]):
                if x["k"] in ("LitStr", "LitChar"):
                    vals.append(x["v"])
            return vals, S.line(n)
    raise M.MissingAnchor("constant %s not found in %s" % (name, rel))


def kinds_in_pat(p):
    """BinaryOperatorKind variant names mentioned in a pattern."""
    out = []
    for n in S.walk(p):
        if n["k"] == "PPath" and "BinaryOperatorKind::" in n["path"]:
            out.append(n["path"].split("::")[-1])
    return out


def run(ctx, res):
    sh = ctx.shape
    two, l2 = const_array(sh, LEX, "TWO_CHAR_OPERATORS")
    one, l1 = const_array(sh, LEX, "ONE_CHAR_OPERATORS")
    two_tok, _ = const_array(sh, LEX, "TWO_CHAR_TOKENS")
    one_tok, _ = const_array(sh, LEX, "ONE_CHAR_TOKENS")
    kinds = [v["name"] for v in S.find_enum(sh, AST, "BinaryOperatorKind")["variants"]]
    res.floor("TABLE-AGREE", "BinaryOperatorKind variants", len(kinds), 21)
    # ---- token_as_binary_op
    fn = S.find_fn(sh, PAR, "token_as_binary_op")
    ms = S.matches_in(fn["body"])
    if not ms:
        raise M.MissingAnchor("token_as_binary_op has no match")
    t2k = {}
    dup = []
    for a in ms[0]["arms"]:
        p = a["pat"]
        lits = [n["v"] for n in S.walk(p) if n["k"] == "LitStr"]
        ks = [n["path"].split("::")[-1] for n in S.walk(a["body"]) if n["k"] == "Path" and "BinaryOperatorKind::" in n["path"]]
        for t in lits:
            if t in t2k:
                dup.append(t)
            if len(ks) == 1:
                t2k[t] = ks[0]
            else:
                res.bad("TABLE-AGREE", "parser::token_as_binary_op # arm %r" % t, "arm for %r does not yield exactly one BinaryOperatorKind" % t, "%s:%d" % (PAR, S.line(a)))
    for t in dup:
        res.bad("TABLE-AGREE", "parser::token_as_binary_op # duplicate %r" % t, "token text %r has two arms" % t, PAR)
    inv = {}
    for t, k in t2k.items():
        inv.setdefault(k, []).append(t)
    for k in kinds:
        ts = inv.get(k, [])
        key = "BinaryOperatorKind::%s" % k
        if len(ts) == 1:
            res.ok("TABLE-AGREE", "%s <-> %r" % (key, ts[0]))
        elif not ts:
            res.bad("TABLE-AGREE", key + " # no-token", "no token text maps to %s: the operator cannot be written" % k, PAR)
        else:
            res.bad("TABLE-AGREE", key + " # many-tokens %s" % sorted(ts), "%s is produced by several token texts %s" % (k, sorted(ts)), PAR)
    for k in inv:
        if k not in kinds:
            res.bad("TABLE-AGREE", "parser::token_as_binary_op # unknown kind %s" % k, "maps to a kind that is not a variant", PAR)
    # ---- lexer produces each operator text as one token
    lex_ops = set(two) | set(one)
    for t in sorted(t2k):
        key = "lexer token %r" % t
        if t in lex_ops:
            res.ok("TABLE-AGREE", key + " is in the lexer's operator tables")
        else:
            res.bad("TABLE-AGREE", key + " # not-lexed", "operator %r (%s) is not in TWO_CHAR_OPERATORS/ONE_CHAR_OPERATORS: the lexer never produces it as one token" % (t, t2k[t]), "%s:%d" % (LEX, l2))
    for t in two + two_tok:
        if len(t) != 2:
            res.bad("TABLE-AGREE", "lexer two-char table %r" % t, "entry %r of the two-character tables is not two characters long" % t, LEX)
    # longest first: in lex_between the loop over the two-char tables precedes the loop over the one-char tables
    lb = S.find_fn(sh, LEX, "lex_between")
    fors = [n for n in S.walk(lb["body"]) if n["k"] == "For"]
    l_two = [S.line(n) for n in fors if "TWO_CHAR_OPERATORS" in S.idents_in(n["iter"])]
    l_one = [S.line(n) for n in fors if "ONE_CHAR_OPERATORS" in S.idents_in(n["iter"])]
    if l_two and l_one and max(l_two) < min(l_one):
        res.ok("TABLE-AGREE", "lex_between tries two-character operators before one-character operators")
    else:
        res.bad("TABLE-AGREE", "parser::lex::lex_between # order", "two-character operators are not matched before one-character ones (`+.` would lex as `+` `.`)", LEX)
    # ---- evaluator dispatch
    ev = S.find_fn(sh, EVAL, "eval_expr")
    groups = []
    for m in S.matches_in(ev["body"]):
        for a in m["arms"]:
            if S.pat_variant(a["pat"]) == "BinaryOperator":
                ks = kinds_in_pat(a["pat"])
                helpers = [n["f"]["path"] for n in S.walk(a["body"]) if n["k"] == "Call" and n["f"]["k"] == "Path" and n["f"]["path"].startswith("eval_")]
                groups.append((ks, helpers, S.line(a)))
        if groups:
            break
    seen = {}
    for ks, helpers, ln in groups:
        for k in ks:
            if k in seen:
                res.bad("TABLE-AGREE", "eval::eval_expr # %s twice" % k, "BinaryOperatorKind::%s is matched by two arms of eval_expr" % k, "%s:%d" % (EVAL, ln))
            seen[k] = (helpers, ln)
    for k in kinds:
        if k not in seen:
            res.bad("TABLE-AGREE", "eval::eval_expr # %s undispatched" % k, "BinaryOperatorKind::%s has no arm in eval_expr" % k, EVAL)
            continue
        helpers, ln = seen[k]
        if len(helpers) != 1:
            res.bad("TABLE-AGREE", "eval::eval_expr # %s helpers %s" % (k, helpers), "arm for %s does not call exactly one evaluator helper" % k, "%s:%d" % (EVAL, ln))
            continue
        h = S.find_fn(sh, EVAL, helpers[0])
        explicit = set()
        for mm in S.matches_in(h["body"]):
            scr = ctx.src_text(EVAL, mm["e"]["sp"])
            if "kind" in scr:
                for a in mm["arms"]:
                    explicit |= set(kinds_in_pat(a["pat"]))
        n_group = [g for g in groups if k in g[0]][0]
        if k in explicit or (not explicit and len(n_group[0]) == 1):
            res.ok("TABLE-AGREE", "%s -> %s (explicit arm)" % (k, helpers[0]))
        else:
            res.bad("TABLE-AGREE", "eval::%s # no arm for %s" % (helpers[0], k),
                    "eval_expr sends %s to %s, which has no explicit arm for it (falls into its unreachable!/default arm)" % (k, helpers[0]), "%s:%d" % (EVAL, S.line(h)))
    # Display table: informational only
    disp = None
    for it in S.walk(S.file_items(sh, AST)):
        if it["k"] == "Impl" and it.get("trait") == "Display" and it.get("self_ty") == "BinaryOperatorKind":
            disp = it
    if disp:
        for a in S.matches_in(disp)[0]["arms"]:
            k = S.pat_variant(a["pat"])
            txt = [n["v"] for n in S.walk(a["body"]) if n["k"] == "LitStr"]
            if txt and inv.get(k) and txt[0] != inv[k][0]:
                res.note("informational: Display for BinaryOperatorKind::%s prints %r but the token is %r (affects assertion messages only)" % (k, txt[0], inv[k][0]))

    # ---- INFIX-SHAPE
    pe = S.find_fn(sh, PAR, "parse_expression")
    calls_tabo = [n for n in S.walk(pe["body"]) if n["k"] == "Call" and n["f"]["k"] == "Path" and n["f"]["path"] == "token_as_binary_op"]
    if not calls_tabo:
        res.bad("INFIX-SHAPE", "parser::parse_expression # no-infix", "parse_expression does not consult token_as_binary_op: cannot find the infix loop", "%s:%d" % (PAR, S.line(pe)))
    else:
        loops = [n for n in S.walk(pe["body"]) if n["k"] in ("Loop", "While")]
        loop = None
        for lp in loops:
            if any(n is c for c in calls_tabo for n in S.walk(lp)):
                loop = lp
        # BinaryOperator constructions inside the function
        cons = []
        for n in S.walk(pe["body"]):
            if n["k"] == "Call" and n["f"]["k"] == "Path" and n["f"]["path"].endswith("Expression_::BinaryOperator") and len(n["args"]) == 3:
                cons.append(n)
        rot = [m for m in S.matches_in(pe["body"]) if any(S.pat_variant(a["pat"]) == "BinaryOperator" for a in m["arms"])]
        rot += [n for n in S.walk(pe["body"]) if n["k"] in ("LetCond",) and S.pat_variant(n["pat"]) == "BinaryOperator"]
        if loop is None:
            res.bad("INFIX-SHAPE", "parser::parse_expression # no-loop", "infix operators are not folded in a loop (recursive right-hand side gives right nesting)", "%s:%d" % (PAR, S.line(pe)))
        elif rot:
            res.bad("INFIX-SHAPE", "parser::parse_expression # rotation",
                    "parse_expression inspects the parsed right-hand side for a BinaryOperator (one-level rotation): chains of four or more operands are mis-grouped",
                    "%s:%d" % (PAR, S.line(rot[0])))
        elif len(cons) != 1:
            res.bad("INFIX-SHAPE", "parser::parse_expression # constructions=%d" % len(cons), "expected exactly one BinaryOperator construction in the infix loop, found %d" % len(cons), "%s:%d" % (PAR, S.line(pe)))
        else:
            c = cons[0]
            # accumulator: first arg is Rc::new(<acc>), the whole node is assigned to <acc>
            a0 = c["args"][0]
            acc = None
            if a0["k"] == "Call" and a0["f"].get("path") == "Rc::new" and a0["args"][0]["k"] == "Path":
                acc = a0["args"][0]["path"]
            assigned = [n for n in S.walk(loop) if n["k"] == "Assign" and n["l"].get("path") == acc and any(x is c for x in S.walk(n["r"]))]
            a2 = c["args"][2]
            rhs = None
            if a2["k"] == "Call" and a2["f"].get("path") == "Rc::new" and a2["args"][0]["k"] == "Path":
                rhs = a2["args"][0]["path"]
            rhs_fn = None
            for n in S.walk(loop):
                if n["k"] == "Let" and n["pat"]["k"] == "PIdent" and n["pat"]["name"] == rhs and n["init"] and n["init"]["k"] == "Call":
                    rhs_fn = n["init"]["f"].get("path")
            # op comes from the token popped in this iteration
            op = c["args"][1]
            op_ok = False
            if op["k"] == "Path":
                for n in S.walk(loop):
                    if n["k"] in ("Let", "LetCond") and op["path"] in S.pat_bindings(n["pat"]):
                        src = n.get("init") or n.get("e")
                        if src is not None and any(x is t for t in calls_tabo for x in S.walk(src)):
                            op_ok = True
            elif any(x is t for t in calls_tabo for x in S.walk(op)):
                op_ok = True
            pops = [n for n in S.walk(loop) if n["k"] == "MethodCall" and n["method"] == "pop" and n["recv"].get("path") == "tokens"]
            problems = []
            if acc is None or not assigned:
                problems.append("the new node is not `acc = BinaryOperator(Rc::new(acc), ..)`")
            if not op_ok:
                problems.append("the operator is not taken from token_as_binary_op of the current token")
            if not pops:
                problems.append("the operator token is not consumed in the loop")
            if rhs_fn is None:
                problems.append("the right-hand side is not parsed by a direct call")
            elif rhs_fn == "parse_expression":
                problems.append("the right-hand side is parsed by parse_expression itself (right-associative recursion)")
            else:
                rf = S.find_fn(sh, PAR, rhs_fn)
                inner = [n for n in S.walk(rf["body"]) if n["k"] == "Call" and n["f"]["k"] == "Path" and n["f"]["path"] in ("token_as_binary_op", "parse_expression")]
                # calls of parse_expression inside delimiters are fine only in deeper functions; the rhs function itself must not
                if any(n["f"]["path"] == "token_as_binary_op" for n in inner):
                    problems.append("the right-hand-side parser %s handles infix operators itself" % rhs_fn)
                if any(n["f"]["path"] == "parse_expression" for n in inner):
                    problems.append("the right-hand-side parser %s calls parse_expression directly" % rhs_fn)
            if problems:
                res.bad("INFIX-SHAPE", "parser::parse_expression # shape", "; ".join(problems), "%s:%d" % (PAR, S.line(c)))
            else:
                res.ok("INFIX-SHAPE", "parse_expression: loop { op = token_as_binary_op(peek); pop; rhs = %s(); %s = BinaryOperator(%s, op, rhs) }" % (rhs_fn, acc, acc))
                res.sample({"rule": "INFIX-SHAPE", "accumulator": acc, "rhs_parser": rhs_fn, "line": S.line(c)})
    res.extra["tables"] = {"two_char_ops": two, "one_char_ops": one, "token_to_kind": t2k}
    res.extra["functions_analysed"] = 5
    res.explanation = (
        "Structural clauses. TABLE-AGREE compares four tables extracted from the source (lexer operator constants, the "
        "token->kind match, the enum's variants, the evaluator's dispatch patterns and each helper's explicit arms): bijection "
        "text<->kind onto all 21 kinds, every text lexable as one token with longer tokens tried first, every kind dispatched "
        "once to a helper that names it. INFIX-SHAPE checks that the infix loop builds BinaryOperator(acc, op, rhs) into the "
        "accumulator with rhs parsed by a function that cannot itself absorb a following operator; by induction on the number "
        "of operators that loop yields ((x1 op1 x2) op2 x3)... for chains of any length, with one precedence level because "
        "there is a single loop. Parenthesised sub-expressions are parsed by the primary-expression parser and are one operand. "
        "Values are not computed.")
