"""C06 Block-local variables never outlive their block (push/pop discipline).

The evaluator keeps pending work as entries (Expression_ variant, ExpressionState) on exprs_to_eval. An entry *owes* as
many binding blocks as its own arm of eval_expr pops when it eventually runs (today: 1 for If/Match/Try in state
EvaluatedSubexpressions, While/ForIn in PartiallyEvaluated(DoneRunBlock), ForIn in EvaluatedSubexpressions; 0 otherwise).
Whoever removes an entry without running it must pop what it owes.

  OWES-TABLE   (MIR, abstract simulation) owes(V, S) computed from eval_expr for every variant x state; single-valued.
  PUSH-PAIRING every function that pushes a binding block (eval_block / push_binding_block) from an eval_expr arm is paired
               with a continuation entry that owes one block, scheduled before the push.
  UNWIND-BREAK / UNWIND-CONTINUE  (MIR, abstract simulation) for every (V, S): when eval_break / eval_continue discards the
               entry it pops exactly owes(V, S) blocks; when it stops at a loop entry and re-schedules it in state S' it pops
               owes(V, S) - owes(V, S').
  RETURN-CLEARS  `return` clears exprs_to_eval of the frame and truncates its binding blocks to the base block; a function's
               frame is then dropped whole by eval::eval, the toplevel frame survives without the blocks it was in.
"""
from .. import mir as M
from .. import dflow as D
from .. import absim as A

STATES = [("NotEvaluated", None), ("PartiallyEvaluated", "WillRunBlock"), ("PartiallyEvaluated", "DoneRunBlock"),
          ("PartiallyEvaluated", "NotBlock"), ("EvaluatedSubexpressions", None)]


def st_label(s):
    return s[0] if s[1] is None else "%s(%s)" % s


def assignment(v, s):
    a = {"parser::ast::Expression_": v, "eval::ExpressionState": s[0]}
    if s[1] is not None:
        a["eval::BlockState"] = s[1]
    return a


def cap(n):
    return min(n, 3)


def pop_block_bbs(f):
    return {bi for bi, t in f.calls() if (M.callee_name(t) or "").endswith("Bindings::pop_block")}


def pushed_state(f, t):
    """for a call that pushes an entry onto exprs_to_eval: label of the state pushed ('same' = the popped state)."""
    n = M.callee_name(t) or ""
    op = None
    if n.endswith("Env::push_expr_to_eval") and len(t["args"]) >= 2:
        op = t["args"][1]
    elif n.endswith("Vec::<T, A>::push") and len(t["args"]) == 2 and "ExpressionState" in (t["argtys"][1] if len(t.get("argtys", [])) > 1 else ""):
        r = f.root_of(t["args"][1])
        if r[0] == "rv" and r[3]["rv"]["k"] == "agg" and r[3]["rv"]["ak"] == "tuple":
            op = r[3]["rv"]["ops"][0]
    if op is None:
        return None
    r = f.root_of(op)
    if r[0] == "rv" and r[3]["rv"]["k"] == "agg" and r[3]["rv"].get("adt", "").endswith("ExpressionState"):
        v = r[3]["rv"]["variant"]
        if v == "PartiallyEvaluated":
            rr = f.root_of(r[3]["rv"]["ops"][0])
            if rr[0] == "rv" and rr[3]["rv"]["k"] == "agg":
                return "PartiallyEvaluated(%s)" % rr[3]["rv"]["variant"]
            return "PartiallyEvaluated(?)"
        return v
    if r[0] == "place":
        # a local assigned on several paths, at least once from a constructed state, is not "the popped state"
        l = r[1]["l"]
        defs = f.defs.get(l, []) if not r[1]["p"] else []
        if len(defs) > 1:
            for (b_, si, st) in defs:
                if si != "term" and st.get("s") == "assign" and st["rv"]["k"] == "agg" and st["rv"].get("adt", "").endswith("ExpressionState"):
                    return "?"
        return "same"
    return "?"


def feasible_entries(P, ev, variants):
    """(variant, state) pairs that some code schedules on exprs_to_eval with a state other than NotEvaluated.
    A push of (S, <the arm's own expression>) inside the eval_expr arm for V (or in a helper that arm calls with the
    expression) makes (V, S) feasible; a push of (S, <some other expression>) makes (*, S) feasible."""
    out = set()
    reach = P.reachable(["eval::eval_expr", "eval::eval_break", "eval::eval_continue"], rta=False)
    # helpers that receive the outer expression: which arms of eval_expr call them
    callers = {}
    for bi, t in ev.calls():
        n = M.callee_name(t)
        if n in P.funcs:
            lab = D.arm_label(ev, bi, enums={"Expression_"})
            for part in lab.split("/"):
                if part.startswith("Expression_::"):
                    for v in part[len("Expression_::"):].split("|"):
                        callers.setdefault(n, set()).add(v)
    for p in reach:
        g = P.funcs[p]
        for bi, t in g.calls():
            lab = pushed_state(g, t)
            if lab is None or lab in ("NotEvaluated", "same", "?"):
                continue
            st = None
            for cand in STATES:
                if st_label(cand) == lab:
                    st = cand
            if st is None:
                continue
            # which expression is pushed?
            n = M.callee_name(t) or ""
            if n.endswith("Env::push_expr_to_eval"):
                eop = t["args"][2]
            else:
                r = g.root_of(t["args"][1])
                eop = r[3]["rv"]["ops"][1] if r[0] == "rv" else None
            own = False
            if eop is not None:
                r = g.root_of(eop, through_named=True)
                # Rc::clone(&outer_expr) or the parameter itself
                if r[0] == "call" and (M.callee_name(r[2]) or "").endswith("Clone>::clone"):
                    r = g.root_of(r[2]["args"][0], through_named=True)
                if r[0] == "place" and r[1]["l"] <= g.argc and not g.field_path(r[1]) and "Rc<parser::ast::Expression>" in g.local_ty(r[1]["l"]):
                    own = True
            if own and p == ev.path:
                lab2 = D.arm_label(ev, bi, enums={"Expression_"})
                vs = set()
                for part in lab2.split("/"):
                    if part.startswith("Expression_::"):
                        vs |= set(part[len("Expression_::"):].split("|"))
                for v in vs:
                    out.add((v, st))
            elif own and p in callers:
                for v in callers[p]:
                    out.add((v, st))
            else:
                out.add(("*", st))
    return out


def block_scope_order(P, res, rule="BLOCK-SCOPE-ORDER"):
    """eval_block opens the new scope before it binds anything: push_binding_block dominates every add_new, so the
    queued bindings (match payloads, the for variable) land in the block being entered, not in the enclosing one."""
    ebk = P.require_fn("eval::eval_block")
    pushes = [bi for bi, t in ebk.calls() if (M.callee_name(t) or "").endswith("push_binding_block")]
    adds = [bi for bi, t in ebk.calls() if (M.callee_name(t) or "").endswith("Bindings::add_new")]
    if pushes and adds and all(any(ebk.dominates(pb, ab) for pb in pushes) for ab in adds):
        res.ok(rule, "eval_block: push_binding_block dominates every Bindings::add_new (%d)" % len(adds))
    else:
        res.bad(rule, "eval::eval_block # bind-before-push",
                "eval_block binds the queued variables before it pushes the block they belong to (push sites=%d, add_new sites=%d): "
                "they are installed in the enclosing block and stay visible after the block ends (and at top level survive :abort)"
                % (len(pushes), len(adds)), ebk.loc())


def run(ctx, res, with_frame_cover=True):
    P = ctx.P
    if with_frame_cover:
        # `:abort` and the test runner leave blocks through pop_to_toplevel: its reset of the surviving frame (shared with C10)
        from . import c10 as _c10
        _c10.frame_cover(P, res)
    ev = P.require_fn("eval::eval_expr")
    adt = P.adts.get("parser::ast::Expression_")
    if adt is None:
        raise M.MissingAnchor("enum parser::ast::Expression_ not found")
    variants = [v["name"] for v in adt["variants"]]
    res.floor("OWES-TABLE", "variants of Expression_", len(variants), 25)
    pops = pop_block_bbs(ev)
    res.floor("OWES-TABLE", "pop_block sites in eval_expr", len(pops), 5)

    def t_count(bbs):
        def tr(b, v):
            return (cap(v[0] + 1),) + tuple(v[1:]) if b in bbs else v
        return tr
    sim = A.Sim(P)
    owes = {}
    for v in variants:
        for s in STATES:
            out = sim.simulate(ev, 0, assignment(v, s), t_count(pops), init={(0,)})
            counts = set()
            for k, vals in out.items():
                counts |= {x[0] for x in vals}
            key = "eval::eval_expr # (%s, %s)" % (v, st_label(s))
            if not counts:
                owes[(v, s)] = 0
                continue
            if len(counts) != 1:
                # an arm that pops on some paths only: conservative = max; report as ambiguous
                res.bad("OWES-TABLE", key + " # path-dependent %s" % sorted(counts),
                        "the arm of eval_expr for (%s, %s) pops a binding block on some paths only (%s): the scope discipline is path dependent" % (v, st_label(s), sorted(counts)), ev.loc())
                owes[(v, s)] = max(counts)
            else:
                owes[(v, s)] = counts.pop()
    t_pop = sorted("%s/%s" % (v, st_label(s)) for (v, s), n in owes.items() if n)
    for x in t_pop:
        res.ok("OWES-TABLE", "owes 1 block: " + x)
    res.floor("OWES-TABLE", "entries that owe a block", len(t_pop), 6)
    res.extra["owes_table"] = t_pop

    # ---- which (variant, state) entries can be on exprs_to_eval at all
    feas = feasible_entries(P, ev, variants)
    res.extra["feasible_non_initial_entries"] = sorted("%s/%s" % (v, st_label(s)) for (v, s) in feas)

    def feasible(v, s):
        return s[0] == "NotEvaluated" or (v, s) in feas or ("*", s) in feas
    for (v, s), n in owes.items():
        if n and not feasible(v, s):
            res.note("entry (%s, %s) owes a block but is never scheduled" % (v, st_label(s)))
    # ---- PUSH-PAIRING (conservation per step): when the arm for (V, S) returns Ok,
    #        blocks pushed - blocks popped  ==  sum of owes(V, S') over the entries it scheduled  -  owes(V, S)
    # i.e. X = pushes - pops - sum owes(scheduled) must be exactly -owes(V, S) on every Ok path. Helpers (eval_if,
    # eval_while_body, eval_for_in, eval_match_cases, eval_block ..) are summarised by the set of X they can add on their Ok
    # paths, computed the same way for the variant of the arm that calls them.
    STATE_OF = {st_label(s_): s_ for s_ in STATES}

    def is_err_block(g, b):
        blk = g.blocks[b]
        for st_ in blk["stmts"]:
            if st_.get("s") == "assign" and st_["place"]["l"] == 0 and not st_["place"]["p"] and st_["rv"]["k"] == "agg" and st_["rv"].get("variant") == "Err":
                return True
        t_ = blk["term"]
        if t_["t"] == "call" and (M.callee_name(t_) or "").endswith("from_residual") and t_.get("dest") and t_["dest"]["l"] == 0:
            return True
        return False
    summ_cache = {}

    def delta_of_block(g, b, v, depth):
        """set of X increments contributed by block b of function g (for variant v)."""
        t_ = g.blocks[b]["term"]
        if t_["t"] != "call":
            return {0}
        n_ = M.callee_name(t_) or ""
        if n_.endswith("Bindings::push_block"):
            return {1}
        if n_.endswith("Bindings::pop_block"):
            return {-1}
        ps = pushed_state(g, t_)
        if ps is not None and ps not in ("NotEvaluated",):
            if ps in STATE_OF:
                return {-owes.get((v, STATE_OF[ps]), 0)}
            return {0}      # 'same'/'?': a re-push of an entry in its own state is handled by the unwinding rules
        if n_ in P.funcs and n_.startswith(("eval::", "env::")) and not n_.endswith(("Env::push_expr_to_eval",)) and depth < 4 and n_ != g.path:
            return helper_summary(n_, v, depth + 1)
        return {0}

    def helper_summary(path, v, depth=0):
        key_ = (path, v)
        if key_ in summ_cache:
            return summ_cache[key_]
        summ_cache[key_] = {0}
        g = P.funcs[path]
        # only functions that can touch binding blocks or schedule entries matter: cheap pre-filter on reachability
        if path not in touchers:
            return {0}

        def tr(b, val):
            fs, err = val
            ds = delta_of_block(g, b, v, depth)
            nf = frozenset(max(-3, min(3, x + d)) for x in fs for d in ds)
            return (nf, err or is_err_block(g, b))
        out_ = sim.simulate(g, 0, {}, tr, init={(frozenset({0}), False)})
        vals = set()
        for (kind, bb), vs in out_.items():
            if kind == "return":
                for (fs, err) in vs:
                    if not err:
                        vals |= set(fs)
        summ_cache[key_] = vals or {0}
        return summ_cache[key_]
    # functions from which a block push/pop or a non-initial scheduling is reachable
    E_ = P.edges()
    direct = set()
    for p_, g in P.funcs.items():
        if not p_.startswith(("eval::", "env::")):
            continue
        for bi, t_ in g.calls():
            n_ = M.callee_name(t_) or ""
            ps = pushed_state(g, t_)
            if n_.endswith(("Bindings::push_block", "Bindings::pop_block")) or (ps is not None and ps != "NotEvaluated"):
                direct.add(p_)
    touchers = set(direct)
    ch = True
    while ch:
        ch = False
        for p_, es in E_.items():
            if p_ in touchers or not p_.startswith(("eval::", "env::")):
                continue
            if any(k != "live" and tgt in touchers for k, tgt, bi in es):
                touchers.add(p_)
                ch = True
    n_steps = 0
    for v in variants:
        for s_ in STATES:
            if not feasible(v, s_) or v in ("Break", "Continue", "Return"):
                continue    # unwinding steps remove other entries: UNWIND-BREAK / UNWIND-CONTINUE / RETURN-CLEARS decide them

            def tr(b, val, v=v):
                fs, err = val
                ds = delta_of_block(ev, b, v, 0)
                nf = frozenset(max(-3, min(3, x + d)) for x in fs for d in ds)
                return (nf, err or is_err_block(ev, b))
            out_ = sim.simulate(ev, 0, assignment(v, s_), tr, init={(frozenset({0}), False)})
            got = set()
            for (kind, bb), vs in out_.items():
                if kind == "return":
                    for (fs, err) in vs:
                        if not err:
                            got |= set(fs)
            if not got:
                continue
            n_steps += 1
            want = -owes.get((v, s_), 0)
            key = "eval::eval_expr # step (%s, %s)" % (v, st_label(s_))
            if got == {want}:
                res.ok("PUSH-PAIRING", key + ": blocks pushed - popped = owed by what it schedules - owed by the entry (%+d)" % want)
            else:
                res.bad("PUSH-PAIRING", key + " # imbalance %s" % sorted(x - want for x in got),
                        "a step of (%s, %s) can leave %s more binding block(s) pushed than the entries it schedules will pop (paths differ: %s): a surplus block "
                        "stays on the frame, so the enclosing block's pop removes it instead of its own block and that block's variables stay visible; a "
                        "deficit pops an enclosing block early" % (v, st_label(s_), sorted(x - want for x in got), sorted(got)), ev.loc())
    res.floor("PUSH-PAIRING", "feasible (variant, state) steps simulated", n_steps, 25)
    # ---- UNWIND
    for fname, rule in (("eval::eval_break", "UNWIND-BREAK"), ("eval::eval_continue", "UNWIND-CONTINUE")):
        g = P.require_fn(fname)
        # loop head: the exprs_to_eval.pop() call; body start: Some edge
        popc = [bi for bi, t in D.calls_named(g, "Vec::<T, A>::pop", "exprs_to_eval")]
        if len(popc) != 1:
            raise M.MissingAnchor("%s: expected one exprs_to_eval.pop() loop head" % fname)
        head = popc[0]
        dest = g.blocks[head]["term"]["dest"]["l"]
        some = None
        for sw in D.enum_switches(g):
            if sw["place"]["l"] == dest and not sw["place"]["p"] and sw["bb"] == g.blocks[head]["term"]["target"]:
                for tgt, names in sw["by_target"].items():
                    if "Some" in names:
                        some = tgt
                if some is None and "Some" in sw["otherwise_variants"]:
                    some = sw["otherwise"]
        if some is None:
            raise M.MissingAnchor("%s: cannot find the Some edge of the pop" % fname)
        # blocks that lead back to the head = continue discarding; stop set = first block of the loop header chain
        header_chain = {head}
        for p in g.pred[head]:
            if g.blocks[p]["term"]["t"] == "call" and (M.callee_name(g.blocks[p]["term"]) or "").endswith("current_frame_mut"):
                header_chain.add(p)
        gp = pop_block_bbs(g)
        push_sites = {}
        for bi, t in g.calls():
            lab = pushed_state(g, t)
            if lab is not None:
                push_sites[bi] = lab

        def tr(b, v):
            n, pushed = v
            if b in gp:
                n = cap(n + 1)
            if b in push_sites:
                pushed = (pushed + (push_sites[b],))[:3]
            return (n, pushed)
        n_checked = 0
        for v in variants:
            for s in STATES:
                if not feasible(v, s):
                    continue
                out = sim.simulate(g, some, assignment(v, s), tr, stops=header_chain, init={(0, ())})
                key = "%s # discards (%s, %s)" % (fname, v, st_label(s))
                o = owes[(v, s)]
                running_loop = v in ("While", "ForIn") and s == ("PartiallyEvaluated", "DoneRunBlock")
                for (kind, bb), vals in sorted(out.items()):
                    for (n, pushed) in sorted(vals):
                        n_checked += 1
                        # STOP-ONLY-AT-RUNNING-LOOP: the entry of the enclosing loop while its body runs is
                        # (While|ForIn, PartiallyEvaluated(DoneRunBlock)); any other entry - in particular a sibling loop
                        # expression that has not started - must be discarded, and that one must not be.
                        if kind == "return" and not running_loop:
                            res.bad(rule, key + " # stops-at-non-running-entry",
                                    "%s stops unwinding at a pending (%s, %s) entry, which is not a loop whose body is running "
                                    "(e.g. a later sibling `for`/`while` in the same block): it exits or continues the wrong loop" % (
                                        fname.split("::")[-1], v, st_label(s)), g.loc(), {"variant": v, "state": st_label(s)})
                            continue
                        if kind == "stop" and running_loop:
                            res.bad(rule, key + " # discards-running-loop",
                                    "%s discards the entry of the loop whose body is running instead of stopping there" % fname.split("::")[-1], g.loc())
                            continue
                        if kind == "stop":
                            # went round the loop: the entry was discarded (nothing re-pushed)
                            if pushed:
                                res.bad(rule, key + " # repush-and-continue", "re-schedules an entry and keeps discarding", g.loc())
                            elif n != o:
                                res.bad(rule, key + " # pops %d owes %d" % (n, o),
                                        "%s removes a pending (%s, %s) entry and pops %d binding block(s), but that entry owes %d: "
                                        "variables of the block it belongs to %s" % (fname.split("::")[-1], v, st_label(s), n, o,
                                                                                   "stay visible after the loop" if n < o else "are popped twice"),
                                        g.loc(), {"variant": v, "state": st_label(s)})
                            else:
                                if o:
                                    res.ok(rule, key + ": pops %d = owes" % n)
                        else:
                            # left the loop: stopped at this entry
                            if len(pushed) != 1:
                                if not pushed and o == n:
                                    continue
                                res.bad(rule, key + " # stop-without-reschedule pushes=%s" % (pushed,),
                                        "stops at (%s, %s) without re-scheduling exactly one entry for it" % (v, st_label(s)), g.loc())
                                continue
                            lab = pushed[0]
                            if lab == "same":
                                o2 = o
                            else:
                                s2 = None
                                for cand in STATES:
                                    if st_label(cand) == lab:
                                        s2 = cand
                                o2 = owes.get((v, s2), None) if s2 else None
                            if o2 is None:
                                res.bad(rule, key + " # unknown-state %s" % lab, "re-schedules the loop in an unrecognised state %s" % lab, g.loc())
                            elif n != o - o2:
                                res.bad(rule, key + " # stop pops %d owes %d->%d" % (n, o, o2),
                                        "%s stops at the loop entry (%s, %s), re-schedules it as %s and pops %d block(s); it must pop %d "
                                        "(the entry owed %d, the new state will pop %d): the loop body's block %s" % (
                                            fname.split("::")[-1], v, st_label(s), lab, n, o - o2, o, o2,
                                            "is never popped" if n < o - o2 else "is popped twice"), g.loc(), {"variant": v, "state": st_label(s)})
                            else:
                                res.ok(rule, key + ": stops, re-schedules %s, pops %d = %d - %d" % (lab, n, o, o2))
        res.floor(rule, "simulated (entry, path-outcome) pairs", n_checked, 50)

    # ---- RETURN-CLEARS: the Return arm clears exprs_to_eval; eval pops the frame when exprs_to_eval is empty
    clears = [bi for bi, t in D.calls_named(ev, "Vec::<T, A>::clear", "exprs_to_eval")]
    ok = any("Return" in D.arm_label(ev, bi, enums={"Expression_"}) for bi in clears)
    if ok:
        res.ok("RETURN-CLEARS", "eval_expr: Expression_::Return clears exprs_to_eval of the current frame")
    else:
        res.bad("RETURN-CLEARS", "eval::eval_expr # Return", "the Return arm no longer clears the frame's pending expressions", ev.loc())
    # the frame that returns is the toplevel frame when `return` is written outside any function (a session request, a
    # script): that frame is never dropped, so the Return arm itself must drop the binding blocks of the blocks it leaves
    truncs = [bi for bi, t in D.calls_named(ev, "Vec::<T, A>::truncate", "block_bindings") if D.const_int(ev, t["args"][1]) == 1]
    ok_t = [bi for bi in truncs if "Return" in D.arm_label(ev, bi, enums={"Expression_"})]
    clr = [bi for bi in clears if "Return" in D.arm_label(ev, bi, enums={"Expression_"})]
    if ok_t and clr and all(any(ev.dominates(c_, t_) or ev.dominates(t_, c_) for t_ in ok_t) for c_ in clr):
        res.ok("RETURN-CLEARS", "eval_expr: Expression_::Return also truncates the frame's binding blocks to the base block (the toplevel frame survives a return)")
    else:
        res.bad("RETURN-CLEARS", "eval::eval_expr # Return # blocks-kept",
                "the Return arm clears the pending expressions but keeps the binding blocks of the blocks it leaves: in the toplevel frame, which is "
                "not dropped, their variables stay visible after `if c { let q = 1 return }`", ev.loc())
    e = P.require_fn("eval::eval")
    fpops = [bi for bi, t in D.calls_named(e, "Vec::<T, A>::pop", "0")]
    if fpops:
        res.ok("RETURN-CLEARS", "eval::eval drops the whole frame (stack.0.pop()) when its exprs_to_eval is empty: no block survives a frame")
    else:
        res.bad("RETURN-CLEARS", "eval::eval # frame-pop", "eval no longer pops finished frames", e.loc())
    res.extra["functions_analysed"] = 4
    # ---- CONSUME-NEXT-BLOCK: the bindings queued for "the next block" (match payloads, the for variable) are
    # moved out when a block is entered; if they are only read, every later block of the frame re-binds them.
    ebk = P.require_fn("eval::eval_block")
    takes = []
    for bi, t in ebk.calls():
        n = M.callee_name(t) or ""
        if n.endswith(("mem::take", "mem::replace", "::drain", "mem::swap")) and t["args"]:
            r = ebk.root_of(t["args"][0], through_named=True)
            if r[0] == "place" and ebk.field_path(r[1])[-1:] == ["bindings_next_block"]:
                takes.append(bi)
    reads = []
    for bi, t in ebk.calls():
        if not t["args"] or bi in takes:
            continue
        r = ebk.root_of(t["args"][0], through_named=True)
        if r[0] == "place" and ebk.field_path(r[1])[-1:] == ["bindings_next_block"]:
            reads.append((bi, (M.callee_name(t) or "").split("::")[-1]))
    block_scope_order(P, res)
    if takes and not reads:
        res.ok("CONSUME-NEXT-BLOCK", "eval_block moves bindings_next_block out (mem::take) before binding its entries")
    else:
        res.bad("CONSUME-NEXT-BLOCK", "eval::eval_block # next-block-not-consumed",
                "eval_block does not move the queued bindings out of bindings_next_block (take sites=%d, other uses=%s): the "
                "entries stay queued and are bound again in every later block of the frame (a match payload or loop variable "
                "becomes visible in unrelated blocks)" % (len(takes), [x[1] for x in reads][:3]), ebk.loc())
    res.explanation = (
        "Push/pop discipline of binding blocks, decided by abstract simulation of MIR: for each of the %d Expression_ variants x 5 "
        "states, eval_expr is simulated with the discriminants fixed to obtain how many blocks the entry's own arm pops (what it "
        "owes); eval_break and eval_continue are simulated the same way from the body of their discard loop to obtain how many "
        "blocks they pop when they remove or re-schedule that entry. Every other branch is explored both ways, so the counts hold "
        "on all paths. The rule is conservation: removed => pops = owes; re-scheduled as S' => pops = owes(S) - owes(S'). "
        "Name resolution results are not computed; this is the discipline that makes 'not visible after the block' true." % len(variants))
    res.assumptions += ["an entry is on exprs_to_eval in a state that owes a block only while that block is pushed (PUSH-PAIRING, by construction of the arms)"]
