"""C29 LSP positions and edits map exactly onto the document (structural clauses).

The property has two halves: (a) byte offset <-> (line, UTF-16 column) is a bijection on character boundaries, and
(b) the edits the server returns, applied to the document, give the text the command-line refactoring gives. Neither is
decided for all documents here. What is decided are the parts of both whose truth is in the shape of the code, each a
necessary condition (breaking it breaks the behaviour on some document with a non-ASCII character or a second line):

  UTF16-UNITS   (MIR unit dataflow, vlib/units.py, interprocedural inside lsp::) the `character` of every
                lsp Position the server builds is a count of UTF-16 code units (or a constant) -- never a byte or
                char count; and no comparison or sum inside lsp:: mixes a UTF-16 count with a byte or char count
                (line_char_to_offset compares the client's `character`, a UTF-16 quantity, with what it accumulates).
                One reviewed exception: garden_pos_to_lsp_range_no_src (no text available; documented ASCII-only).
  LINE-RELATIVE the text whose UTF-16 length becomes `character` in offset_to_lsp_position starts at the start of
                the offset's line: the slice start is derived from rfind('\\n') of the text before the offset.
  NO-SRC-LAST-RESORT the text-less conversion is reached only after an attempt to read the file's text.
  LINE-BYTES    no byte offset computed in lsp:: derives from the lengths of `str::lines()` items (which exclude "\r\n").
  ONE-TEXT      in every function that builds a TextEdit, all the texts involved -- the argument of
                whole_document_range / garden_pos_to_lsp_range / line_char_to_offset and the source handed to the
                refactoring that produced the new text or the positions -- are one and the same value (a range
                computed against any other text, e.g. the formatted output, addresses the wrong document).
  EDIT-RANGE    every TextEdit's range comes from whole_document_range or garden_pos_to_lsp_range (the two converters
                that take the text), never from the text-less fallback or a hand-built Range.
  SAME-CORE     each LSP edit producer calls the same core function the command line uses (format::format,
                rename::rename_positions, extract_function, extract_variable, destructure, wrap_in_dbg,
                add_type_annotation), and that function is also reachable from main without passing through lsp::.
Decides these clauses only; the round trip and the edited text themselves are not computed.
"""
from .. import mir as M
from .. import dflow as D
from .. import units as U

MOD = "lsp::"
POS_ADT = "gen_lsp_types::Position"
EDIT_ADT = "gen_lsp_types::TextEdit"
CONVERTERS = ("lsp::whole_document_range", "lsp::garden_pos_to_lsp_range", "lsp::line_char_to_offset")
RANGE_MAKERS = ("lsp::whole_document_range", "lsp::garden_pos_to_lsp_range")
NO_SRC_OK = {"lsp::garden_pos_to_lsp_range_no_src": "fallback of go-to-definition when the defining file's text cannot be read; "
             "documented as correct for ASCII lines only; never used for an edit (EDIT-RANGE)"}
CORE = {
    "format::format": "lsp::handle_formatting",
    "rename::rename_positions": "lsp::handle_rename",
    "extract_function::extract_function": "lsp::build_extract_function_action",
    "extract_variable::extract_variable": "lsp::build_extract_variable_action",
    "destructure::destructure": "lsp::build_destructure_action",
    "wrap_in_dbg::wrap_in_dbg": "lsp::build_wrap_in_dbg_action",
    "add_type_annotation::add_type_annotation": "lsp::build_add_type_annotation_action",
}
TEXT_TAKERS = tuple(CORE) + ("lsp::get_fixes",)


def call_behind(f, op):
    """root_of, but a re-borrow `&*_x` of a call result resolves to the call."""
    r = f.root_of(op, through_named=True)
    if r[0] == "place" and all(e == "deref" for e in r[1]["p"]):
        d = f.single_def(r[1]["l"])
        if d is not None and d[1] == "term":
            return ("call", d[0], d[2])
    return r


def parent_of(P, f):
    base = f.path.split("::{closure")[0]
    return P.funcs.get(base) if base != f.path else None


def closure_capture(P, f, field_index):
    """operand in the parent function captured as field `field_index` of closure f."""
    par = parent_of(P, f)
    if par is None:
        return None, None
    for b in par.blocks:
        for st in b["stmts"]:
            if st.get("s") == "assign" and st["rv"]["k"] == "agg" and st["rv"].get("ak") == "closure" and st["rv"].get("def") == f.path:
                ops = st["rv"]["ops"]
                if field_index < len(ops):
                    return par, ops[field_index]
    return par, None


def text_root(P, f, op, depth=0):
    """(function path, local) the text operand resolves to; captured variables are followed into the parent function."""
    r = f.root_of(op, through_named=True)
    for _ in range(4):
        if r[0] == "call" and r[2]["args"] and (M.callee_name(r[2]) or "").endswith(("::as_str", "::deref", "::as_ref", "::borrow", "::clone")):
            r = f.root_of(r[2]["args"][0], through_named=True)
        else:
            break
    if r[0] != "place":
        return (f.path, "?%s" % r[0])
    pl = r[1]
    if "{closure" in f.path and pl["l"] == 1 and depth < 3:
        idx = [e["f"] for e in pl["p"] if isinstance(e, dict) and "f" in e]
        if idx:
            par, cop = closure_capture(P, f, idx[0])
            if par is not None and cop is not None:
                return text_root(P, par, cop, depth + 1)
    return (f.path.split("::{closure")[0] if "{closure" in f.path and pl["l"] == 1 else f.path, pl["l"])


def no_src_last_resort(P, res, rule="NO-SRC-LAST-RESORT"):
    """the text-less range conversion (byte columns) is a last resort: it is called only after an attempt to read the
    file's text (std::fs::read_to_string) on the same path, so that a definition in a file that exists is always reported
    with columns computed from its text. Shared by C23 (go-to-definition positions) and C29."""
    n = 0
    for p_, f in sorted(P.funcs.items()):
        for bi, t in f.calls():
            if M.callee_name(t) != "lsp::garden_pos_to_lsp_range_no_src":
                continue
            n += 1
            READS = ("std::fs::read_to_string", "std::fs::read")

            def sources(l, seen, depth=0):
                """callee names (and closures' callee names) that contribute to local l."""
                out = set()
                if l in seen or depth > 8:
                    return out
                seen.add(l)
                for (b2, si, st) in f.defs.get(l, []):
                    if si == "term":
                        out.add(M.callee_name(st) or "?")
                        for a_ in st["args"]:
                            q_ = M.op_place(a_)
                            if q_ is not None:
                                out |= sources(q_["l"], seen, depth + 1)
                    elif st.get("s") == "assign":
                        rv = st["rv"]
                        if rv["k"] == "agg" and rv.get("ak") == "closure" and rv.get("def") in P.funcs:
                            out |= {M.callee_name(t2) or "?" for _, t2 in P.funcs[rv["def"]].calls()}
                        for key_ in ("a", "b"):
                            if key_ in rv:
                                q_ = M.op_place(rv[key_])
                                if q_ is not None:
                                    out |= sources(q_["l"], seen, depth + 1)
                        if "place" in rv:
                            out |= sources(rv["place"]["l"], seen, depth + 1)
                        for o_ in rv.get("ops", []):
                            q_ = M.op_place(o_)
                            if q_ is not None:
                                out |= sources(q_["l"], seen, depth + 1)
                return out
            # the Option / Result whose "absent" arm leads to the text-less conversion
            tried = False
            for sw in D.enum_switches(f):
                if not f.dominates(sw["bb"], bi):
                    continue
                arms = [(tgt, nm) for tgt, nm in sw["by_target"].items()]
                if sw["otherwise"] not in sw["by_target"] and sw["otherwise_variants"]:
                    arms.append((sw["otherwise"], sw["otherwise_variants"]))
                for tgt, nm in arms:
                    if set(nm) <= {"None", "Err"} and bi in D.edge_dominated(f, sw["bb"], tgt):
                        r_ = f.root_of({"copy": sw["place"]}, through_named=True)
                        base_l = r_[1]["l"] if r_[0] == "place" else sw["place"]["l"]
                        if sources(base_l, set()) & set(READS):
                            # .. and that attempt is for *this* file: it is made where the file is known not to be the
                            # request's own document (the false edge of a comparison of two paths), not the read that
                            # fetched the request's document earlier
                            read_sites = [b2 for b2, t2 in f.calls() if (M.callee_name(t2) or "") in READS]
                            for b3, blk in enumerate(f.blocks):
                                for st in blk["stmts"]:
                                    if st.get("s") == "assign" and st["rv"]["k"] == "agg" and st["rv"].get("ak") == "closure" and st["rv"].get("def") in P.funcs \
                                            and any((M.callee_name(t2) or "") in READS for _, t2 in P.funcs[st["rv"]["def"]].calls()):
                                        read_sites.append(b3)
                            for eq in D.call_switches(f, "::eq", None):
                                if "PathBuf" not in " ".join(eq["call"].get("argtys") or []) or eq["false"] is None:
                                    continue
                                region = D.edge_dominated(f, eq["bb"], eq["false"])
                                if any(b2 in region for b2 in read_sites):
                                    tried = True
            key = "%s # text-less range" % p_
            if tried:
                res.ok(rule, key + ": used only when the text is absent after an attempt to read the file")
            else:
                res.bad(rule, key + " # without trying to read the file",
                        "%s converts a position with byte columns (garden_pos_to_lsp_range_no_src) without first trying to read the file it lies in: for a "
                        "definition in a file that is not open in the editor, the reported range is wrong as soon as the line has a non-ASCII character "
                        "before it" % p_, f.loc(t["span"]))
    res.floor(rule, "uses of the text-less range conversion", n, 1)


def utf16_units(P, res, fns=None):
    """UTF16-UNITS (shared with C23): see the module docstring."""
    if fns is None:
        fns = {p: f for p, f in P.funcs.items() if p.startswith(MOD)}
    # ---- UTF16-UNITS
    result, params = U.module_analysis(P, MOD)
    n_pos = 0
    for p, f in sorted(fns.items()):
        us, _ = result[p]
        k_ = 0
        for bi, b in enumerate(f.blocks):
            for st in b["stmts"]:
                if st.get("s") != "assign" or st["rv"]["k"] != "agg" or st["rv"].get("adt") != POS_ADT:
                    continue
                rv = st["rv"]
                if "character" not in rv["fields"]:
                    continue
                op = rv["ops"][rv["fields"].index("character")]
                n_pos += 1
                k_ += 1
                q = M.op_place(op)
                uu = set(us.get(q["l"], set())) if q is not None else set()
                key = "%s # Position.character # %d" % (p, k_)
                if q is None or not uu:
                    c = M.op_const(op)
                    if c is not None:
                        res.ok("UTF16-UNITS", key + ": constant %s" % c.get("v"))
                        continue
                if uu == {U.UTF16}:
                    res.ok("UTF16-UNITS", key + ": a count of UTF-16 code units")
                elif p in NO_SRC_OK and uu <= {U.BYTE}:
                    res.ok("UTF16-UNITS", key + ": byte column (reviewed: %s)" % NO_SRC_OK[p])
                elif not uu:
                    res.bad("UTF16-UNITS", key + " # unknown unit", "the `character` of an LSP position built in %s is neither a constant nor derived from a "
                            "UTF-16 count (encode_utf16().count(), len_utf16, a client position)" % p, st["span"])
                else:
                    res.bad("UTF16-UNITS", key + " # " + ",".join(sorted(uu)),
                            "the `character` of an LSP position built in %s is a %s count, but LSP columns are UTF-16 code units: every position after a "
                            "non-ASCII character on the line is shifted" % (p, "/".join(sorted(uu - {U.UTF16}))), st["span"])
        for (bi, kind, opn, ua, ub, span) in U.mixes(f, us):
            if U.LINELEN in ua | ub:
                continue    # reported once per function by LINE-BYTES
            res.bad("UTF16-UNITS", "%s # %s mixes %s with %s" % (p, kind, "/".join(sorted(ua)), "/".join(sorted(ub))),
                    "%s: `%s` combines a %s count with a %s count; the two differ as soon as the line holds a character outside ASCII" % (
                        p, opn, "/".join(sorted(ua)), "/".join(sorted(ub))), span)
    res.floor("UTF16-UNITS", "LSP Position constructions in lsp::", n_pos, 5)
    return result, params


def run(ctx, res):
    P = ctx.P
    no_src_last_resort(P, res)
    # the positions of check fixes become the ranges of LSP quick-fix edits (rebuilt from line numbers), while the command
    # line applies the same fixes by offset: a position whose line/column disagree with its offsets makes the two differ
    from . import c23 as _c23
    _c23.position_group_pairs(P, res)
    fns = {p: f for p, f in P.funcs.items() if p.startswith(MOD)}
    for need in ("lsp::offset_to_lsp_position", "lsp::line_char_to_offset", "lsp::whole_document_range", "lsp::garden_pos_to_lsp_range"):
        P.require_fn(need)
    result, params = utf16_units(P, res, fns)
    lco = P.funcs["lsp::line_char_to_offset"]
    cu = params["lsp::line_char_to_offset"]
    if any(U.UTF16 in v for v in cu.values()):
        us = result["lsp::line_char_to_offset"][0]
        cmps = []
        for b in lco.blocks:
            for st in b["stmts"]:
                if st.get("s") == "assign" and st["rv"]["k"] == "binop" and st["rv"]["op"] in U.CMP:
                    pa, pb = M.op_place(st["rv"]["a"]), M.op_place(st["rv"]["b"])
                    if pa is not None and pb is not None and U.UTF16 in us.get(pa["l"], set()) and U.UTF16 in us.get(pb["l"], set()):
                        cmps.append(st)
        if cmps:
            res.ok("UTF16-UNITS", "line_char_to_offset compares the client's `character` with an accumulated UTF-16 count")
        else:
            res.bad("UTF16-UNITS", "lsp::line_char_to_offset # no utf16 comparison", "line_char_to_offset never compares the client's `character` "
                    "with a UTF-16 count: the column is interpreted in some other unit", lco.loc())
    else:
        res.bad("UTF16-UNITS", "lsp::line_char_to_offset # character not from client", "no caller passes a client Position.character to line_char_to_offset", lco.loc())
    rets = result["lsp::line_char_to_offset"][0].get(0, set())
    if rets == {U.BYTE} or U.LINELEN in rets:
        res.ok("UTF16-UNITS", "line_char_to_offset returns a byte offset")
    else:
        res.bad("UTF16-UNITS", "lsp::line_char_to_offset # returns %s" % sorted(rets), "line_char_to_offset's result is not purely a byte offset (%s)" % sorted(rets), lco.loc())
    # ---- LINE-BYTES: no byte offset in lsp:: is built from the lengths of `str::lines()` items (lines() strips "\r\n" as well
    # as "\n", so `len + 1` per line is short by one byte per line in a CRLF document)
    n_ll = 0
    for p, f in sorted(fns.items()):
        us, _ = result[p]
        tainted = sorted(l for l, v in us.items() if U.LINELEN in v)
        if not tainted:
            continue
        n_ll += 1
        bytes_too = U.BYTE in us.get(0, set()) or U.LINELEN in us.get(0, set()) or any(U.LINELEN in us.get(M.op_place(op)["l"], set())
                                                                                          for (_b, kind, op, _s, _q) in result[p][1] if M.op_place(op) is not None)
        if bytes_too:
            res.bad("LINE-BYTES", "%s # offset from lines() lengths" % p,
                    "%s derives a byte offset from the lengths of `lines()` items; lines() also strips `\\r\\n`, so in a document with CRLF line endings every "
                    "position after the first line maps to an offset that is too small" % p, f.loc())
    res.ok("LINE-BYTES", "no byte offset in lsp:: is derived from lines() item lengths (%d functions measure line lengths for other purposes)" % n_ll)
    # ---- LINE-RELATIVE
    f = P.funcs["lsp::offset_to_lsp_position"]
    enc = [(bi, t) for bi, t in f.calls() if (M.callee_name(t) or "").endswith("::encode_utf16")]
    ok_rel = False
    why = "no encode_utf16 call"
    for bi, t in enc:
        r = call_behind(f, t["args"][0])
        why = "the encoded text is not a slice of the document"
        if r[0] == "call" and (M.callee_name(r[2]) or "").endswith("for str>::index") and len(r[2]["args"]) == 2:
            rg = f.root_of(r[2]["args"][1], through_named=True)
            why = "the slice is not a start..end range"
            if rg[0] == "rv" and rg[3]["rv"]["k"] == "agg" and "start" in (rg[3]["rv"].get("fields") or []):
                sop = rg[3]["rv"]["ops"][rg[3]["rv"]["fields"].index("start")]
                cur = f.root_of(sop, through_named=True)
                why = "the slice start does not come from rfind('\\n')"
                for _ in range(6):
                    if cur[0] == "place":
                        dd = [d for d in f.defs.get(cur[1]["l"], []) if d[1] == "term"]
                        if len(dd) == 1:
                            cur = ("call", dd[0][0], dd[0][2])
                            continue
                        break
                    if cur[0] != "call":
                        break
                    n = M.callee_name(cur[2]) or ""
                    if n.endswith("<impl str>::rfind"):
                        c = M.op_const(cur[2]["args"][1]) if len(cur[2]["args"]) > 1 else None
                        if c is not None and c.get("v") == 10:
                            ok_rel = True
                        break
                    if not cur[2]["args"]:
                        break
                    cur = f.root_of(cur[2]["args"][0], through_named=True)
    if ok_rel:
        res.ok("LINE-RELATIVE", "offset_to_lsp_position counts UTF-16 units of src[line_start..offset], line_start from rfind('\\n')")
    else:
        res.bad("LINE-RELATIVE", "lsp::offset_to_lsp_position # not line relative", "the column is not measured from the start of the offset's line (%s): "
                "positions on every line but the first are wrong" % why, f.loc())
    # ---- EDIT-RANGE and ONE-TEXT
    n_edit = 0
    hosts = {}
    for p, g in sorted(fns.items()):
        for bi, b in enumerate(g.blocks):
            for st in b["stmts"]:
                if st.get("s") == "assign" and st["rv"]["k"] == "agg" and st["rv"].get("adt") == EDIT_ADT:
                    n_edit += 1
                    rv = st["rv"]
                    rop = rv["ops"][rv["fields"].index("range")]
                    r = g.root_of(rop, through_named=True)
                    maker = M.callee_name(r[2]) if r[0] == "call" else None
                    key = "%s # TextEdit.range" % p
                    through_chain = False
                    if maker is None and r[0] == "place" and "{closure" in p and 1 <= r[1]["l"] <= g.argc:
                        # the range arrives as (part of) a closure parameter: an iterator chain built it in an earlier
                        # stage. Accept when a sibling stage (or the parent) builds ranges with a text-taking converter
                        # and nothing in the group builds one any other way.
                        base_ = p.split("::{closure")[0]
                        group = [h_ for q_, h_ in fns.items() if q_ == base_ or q_.startswith(base_ + "::{closure")]
                        made = any(M.callee_name(t_) in RANGE_MAKERS for h_ in group for _, t_ in h_.calls())
                        other = any((M.callee_name(t_) or "") == "lsp::garden_pos_to_lsp_range_no_src" for h_ in group for _, t_ in h_.calls()) or any(
                            st_.get("s") == "assign" and st_["rv"]["k"] == "agg" and st_["rv"].get("adt") == "gen_lsp_types::Range"
                            for h_ in group for b_ in h_.blocks for st_ in b_["stmts"])
                        through_chain = made and not other
                    if maker in RANGE_MAKERS:
                        res.ok("EDIT-RANGE", key + " = %s(..)" % maker.split("::")[-1])
                    elif through_chain:
                        res.ok("EDIT-RANGE", key + ": handed down an iterator chain whose only range source is a text-taking converter")
                    else:
                        res.bad("EDIT-RANGE", key + " # " + (maker or r[0]), "the range of a TextEdit built in %s does not come from whole_document_range / "
                                "garden_pos_to_lsp_range (found %s): it is not computed from the document text in UTF-16 columns" % (p, maker or r[0]), st["span"])
                    hosts.setdefault(p.split("::{closure")[0], True)
    res.floor("EDIT-RANGE", "TextEdit constructions in lsp::", n_edit, 8)
    n_hosts = 0
    for p, g in sorted(fns.items()):
        base = p.split("::{closure")[0]
        if "{closure" in p:
            continue
        members = [g] + [c for q, c in fns.items() if q.startswith(base + "::{closure")]
        texts = []
        uses_conv = False
        for m in members:
            for bi, t in m.calls():
                n = M.callee_name(t) or ""
                if n in CONVERTERS and t["args"]:
                    uses_conv = True
                    texts.append((n.split("::")[-1], text_root(P, m, t["args"][0]), t["span"]))
                elif n in TEXT_TAKERS and t["args"]:
                    texts.append((n.split("::")[-1], text_root(P, m, t["args"][0]), t["span"]))
                elif n.startswith("lsp::build_") and t["args"]:
                    texts.append((n.split("::")[-1], text_root(P, m, t["args"][0]), t["span"]))
        if not uses_conv or base not in hosts:
            continue
        n_hosts += 1
        roots = {r for _, r, _ in texts}
        if len(roots) == 1 and not any(isinstance(r[1], str) for r in roots):
            res.ok("ONE-TEXT", "%s: %d conversions and refactoring calls all take the same document text" % (base, len(texts)))
        else:
            odd = sorted(texts, key=lambda x: str(x[1]))
            res.bad("ONE-TEXT", "%s # texts differ" % base,
                    "%s converts positions against one text and computes them (or the new text) from another: %s. A range or offset is only meaningful "
                    "in the text it was computed from" % (base, "; ".join("%s(%s)" % (a, P.funcs[r[0]].local_name(r[1]) if isinstance(r[1], int) and r[0] in P.funcs else r[1]) for a, r, _ in odd)),
                    odd[0][2])
    res.floor("ONE-TEXT", "functions that build edits and convert positions", n_hosts, 8)
    # ---- SAME-CORE
    E = P.edges()
    nolsp = set()
    st_ = ["main"] if "main" in P.funcs else [p for p in P.funcs if p == "main::main"]
    if not st_:
        raise M.MissingAnchor("main not found")
    nolsp.update(st_)
    while st_:
        x = st_.pop()
        for k, tgt, bi in E.get(x, []):
            if k == "live" or tgt in nolsp or tgt.startswith(MOD):
                continue
            nolsp.add(tgt)
            st_.append(tgt)
    for corefn, host in sorted(CORE.items()):
        P.require_fn(corefn)
        h = P.require_fn(host)
        members = [h] + [c for q, c in fns.items() if q.startswith(host + "::{closure")]
        direct = any(M.callee_name(t) == corefn for m in members for _, t in m.calls())
        key = "%s -> %s" % (host, corefn)
        if not direct:
            res.bad("SAME-CORE", key + " # not called", "%s no longer calls %s, the function the command line uses: the server's edits are computed by other code" % (host, corefn), h.loc())
        elif corefn not in nolsp:
            res.bad("SAME-CORE", key + " # cli differs", "%s is not reachable from main outside lsp::, so the command line computes this refactoring with other code" % corefn, h.loc())
        else:
            res.ok("SAME-CORE", key + " (also reached from main without lsp::)")
    res.extra["functions_analysed"] = len(fns)
    res.explanation = (
        "Structural clauses of C29. A unit dataflow over MIR (bytes / chars / UTF-16 units; sources are the std calls that produce "
        "each, the client's Position.character and Garden Position fields; call-site-to-parameter and return summaries inside lsp::) shows that "
        "every LSP Position the server builds carries a UTF-16 column and that no comparison or sum mixes units; the column is measured from "
        "rfind('\\n'); every TextEdit range comes from one of the two text-taking converters; within each handler the text used for "
        "conversion is the text handed to the refactoring; and the refactoring is the very function main calls. Together these are necessary for "
        "offset<->position round trips and for server edits to equal the command line's result; they are not sufficient (the line "
        "arithmetic and the refactorings themselves are not evaluated).")
    res.assumptions += ["std's encode_utf16 / len_utf16 / char_indices behave as documented", "clients send UTF-16 positions (the server does not negotiate positionEncoding)"]
