"""C19 Rename changes exactly the occurrences of one variable (structural clauses).

Which uses "refer to that definition" is computed by the type checker's scope walk for the program at hand; whether the
renamed program prints the same output is a property of runs. Neither is decided here. What is decided are the parts
whose truth is in the shape of the code, each a necessary condition (breaking it renames an unrelated same-named variable,
or misses a use, on some program with shadowing):

  SELECT-BY-DEFINITION  RenameLocalVisitor::visit_symbol records a position only on the `equal` edge of a comparison between
                        the definition position looked up for *this symbol's id* and the target definition position; what
                        it records is this symbol's own position.
  DEF-SOURCE            where the looked-up definition positions come from: set_binding stores, for the same symbol, its own
                        position both in the scope (LocalBindings::set: innermost block, under the symbol's name) and in
                        id_to_def_pos under the symbol's id; every use site stores under the use's id the position the scope
                        lookup (LocalBindings::get of the use's own name) returned; nobody outside the type checker's
                        visitor writes id_to_def_pos.
  LOOKUP-INNERMOST      LocalBindings::get walks the blocks innermost-first (reversed iteration) and returns the first hit.
  SCOPE-PAIRING         every function of the type checker that opens a block scope closes it exactly once on every path
                        (shared with C01's PAIRED-CALLS): a scope left open makes a block-local definition capture later
                        same-named uses.
  APPLY-RANGE           apply_renames' splice loop writes the new name exactly once per position, copies up to that position's
                        start offset and continues from its end offset. (That the positions are sorted first is noted, not
                        required: whether the visitor already yields them in source order is not decided.)
  SAME-CORE             the language server and the command line both obtain the positions from rename::rename_positions.
Decides these clauses only; the scope rules of the language and the output of the renamed program are not computed.
"""
import json
from .. import mir as M
from .. import dflow as D
from .. import panicinv as PI

TC = "checks::type_checker::"
VISIT = "<rename::RenameLocalVisitor as parser::visitor::Visitor>::visit_symbol"


def fields(f, op, through_named=True):
    r = f.root_of(op, through_named=through_named)
    if r[0] == "place":
        return r[1]["l"], [x for x in f.field_path(r[1])]
    return None, []


def through_clone(f, op):
    """(local, fields) of what `op` is a clone/copy of."""
    r = f.root_of(op, through_named=True)
    for _ in range(4):
        if r[0] == "call" and (M.callee_name(r[2]) or "").endswith(("::clone", "::to_owned")) and r[2]["args"]:
            r = f.root_of(r[2]["args"][0], through_named=True)
            continue
        break
    if r[0] == "place":
        return r[1]["l"], list(f.field_path(r[1])), r
    return None, [], r


def run(ctx, res):
    P = ctx.P
    # ---------------- SELECT-BY-DEFINITION
    f = P.require_fn(VISIT)
    sym = 2      # (&mut self, symbol)
    gets = [(bi, t) for bi, t in f.calls() if (M.callee_name(t) or "").endswith("HashMap::<K, V, S, A>::get")]
    # the visitor's fields are found by type, not by name: the Vec<Position> it pushes to, the map from SyntaxId to Position it
    # reads, and the Position it compares with
    def aty(t, i):
        return str((t.get("argtys") or [""] * (i + 1))[i]).replace(" ", "")
    pushes = [(bi, t) for bi, t in f.calls() if (M.callee_name(t) or "").endswith("Vec::<T, A>::push")
              and fields(f, t["args"][0])[0] == 1 and "Vec<parser::position::Position>" in aty(t, 0)]
    res.floor("SELECT-BY-DEFINITION", "pushes to replace_positions in visit_symbol", len(pushes), 1)
    key_ok = False
    get_dest = None
    for bi, t in gets:
        l0, f0 = fields(f, t["args"][0])
        l1, f1 = fields(f, t["args"][1])
        if l0 == 1 and f0 and "Position" in aty(t, 0) and "SyntaxId" in aty(t, 0) and l1 == sym and f1[-1:] == ["id"]:
            key_ok = True
            get_dest = t["dest"]["l"]
    if not key_ok:
        res.bad("SELECT-BY-DEFINITION", VISIT + " # lookup-key", "the definition position is not looked up under this symbol's id (id_to_pos.get(&symbol.id))", f.loc())
    else:
        res.ok("SELECT-BY-DEFINITION", "visit_symbol looks the definition up under symbol.id")
    eq_edges = []
    for sw in D.bool_switches(f):
        r = sw["root"]
        if r[0] != "call":
            continue
        n = M.callee_name(r[2]) or ""
        if not (n.endswith("PartialEq::ne") or n.endswith("PartialEq::eq") or n.endswith("PartialEq>::eq") or n.endswith("PartialEq>::ne")):
            continue
        sides = []
        for a in r[2]["args"]:
            rr = f.root_of(a, through_named=True)
            if rr[0] == "place":
                fp = f.field_path(rr[1])
                if rr[1]["l"] == 1 and fp and "Some" not in json.dumps(rr[1]["p"]) and f.single_def(rr[1]["l"]) is None:
                    sides.append("target")      # a field of the visitor itself
                elif rr[1]["l"] == get_dest or (f.single_def(rr[1]["l"]) is None and "Some" in json.dumps(rr[1]["p"])):
                    sides.append("looked-up")
                else:
                    # the payload of the lookup result, bound by `let Some(x) = .. else`
                    base = f.root_of({"copy": {"l": rr[1]["l"], "p": []}}, through_named=True)
                    if base[0] == "place" and base[1]["l"] == get_dest:
                        sides.append("looked-up")
                    elif base[0] == "call" and base[2]["dest"]["l"] == get_dest:
                        sides.append("looked-up")
                    else:
                        sides.append("?")
            elif rr[0] == "call" and rr[2]["dest"]["l"] == get_dest:
                sides.append("looked-up")
            else:
                sides.append("?")
        if sorted(sides) == ["looked-up", "target"]:
            eq_edges.append((sw["bb"], sw["false"] if n.endswith("ne") else sw["true"]))
    if len(eq_edges) != 1:
        res.bad("SELECT-BY-DEFINITION", VISIT + " # comparison",
                "expected exactly one comparison of the looked-up definition position with the target definition position, found %d" % len(eq_edges), f.loc())
    else:
        region = D.edge_dominated(f, eq_edges[0][0], eq_edges[0][1])
        for bi, t in pushes:
            l, fp, _ = through_clone(f, t["args"][1])
            if bi not in region:
                res.bad("SELECT-BY-DEFINITION", VISIT + " # push-outside-equal-edge",
                        "a position is recorded for renaming on a path that has not established that the symbol's definition is the target definition "
                        "(a shadowing or unrelated variable of the same name would be renamed)", f.loc(t.get("span")))
            elif not (l == sym and fp[-1:] == ["position"]):
                res.bad("SELECT-BY-DEFINITION", VISIT + " # pushed-value", "what is recorded is not this symbol's own position", f.loc(t.get("span")))
            else:
                res.ok("SELECT-BY-DEFINITION", "visit_symbol records symbol.position only under definition equality")

    # ---------------- DEF-SOURCE
    sb = P.require_fn(TC + "TypeCheckVisitor::<'_>::set_binding")
    set_calls = [(bi, t) for bi, t in sb.calls() if M.callee_name(t) == TC + "LocalBindings::set"]
    ins = [(bi, t) for bi, t in sb.calls() if (M.callee_name(t) or "").endswith("HashMap::<K, V, S, A>::insert")
           and fields(sb, t["args"][0])[1][-1:] == ["id_to_def_pos"]]
    ok_sb = len(set_calls) == 1 and len(ins) == 1
    if ok_sb:
        ls, fs = fields(sb, set_calls[0][1]["args"][1])
        lk, fk = fields(sb, ins[0][1]["args"][1])
        lv, fv, _ = through_clone(sb, ins[0][1]["args"][2])
        ok_sb = ls == 2 and not fs and lk == 2 and fk[-1:] == ["id"] and lv == 2 and fv[-1:] == ["position"]
    if ok_sb:
        res.ok("DEF-SOURCE", "set_binding: the scope entry and id_to_def_pos[symbol.id] = symbol.position are made for the same symbol")
    else:
        res.bad("DEF-SOURCE", TC + "set_binding # same-symbol", "set_binding no longer records symbol.position under symbol.id for the symbol it puts in scope", sb.loc())
    ls_ = P.require_fn(TC + "LocalBindings::set")
    last = [bi for bi, t in ls_.calls() if (M.callee_name(t) or "").endswith("::last_mut") and fields(ls_, t["args"][0])[1][-1:] == ["blocks"]]
    lins = [(bi, t) for bi, t in ls_.calls() if (M.callee_name(t) or "").endswith("HashMap::<K, V, S, A>::insert")]
    ok_ls = len(last) == 1 and len(lins) == 1
    if ok_ls:
        lk, fk, _ = through_clone(ls_, lins[0][1]["args"][1])
        rv = ls_.root_of(lins[0][1]["args"][2], through_named=True)
        pos_ok = False
        if rv[0] == "rv" and rv[3]["rv"]["k"] == "agg":
            for o in rv[3]["rv"]["ops"]:
                lv, fv, _ = through_clone(ls_, o)
                if lv == 2 and fv[-1:] == ["position"]:
                    pos_ok = True
        ok_ls = lk == 2 and fk[-1:] == ["name"] and pos_ok and ls_.dominates(last[0], lins[0][0])
        # ... on every path: a `set` that can return without (re)inserting keeps an earlier definition's position for a
        # name bound again in the same block (`let x = 1  let x = x + 1`)
        rets_ = [b for b in ls_.reachable_blocks() if ls_.blocks[b]["term"]["t"] == "return"]
        if ok_ls and any(b in D.reach_from(ls_, [0], avoid_blocks=[lins[0][0]]) for b in rets_):
            ok_ls = False
    if ok_ls:
        res.ok("DEF-SOURCE", "LocalBindings::set: innermost block, keyed by symbol.name, holding symbol.position")
    else:
        res.bad("DEF-SOURCE", TC + "LocalBindings::set # entry", "LocalBindings::set no longer stores (type, symbol.position) under symbol.name in the innermost block", ls_.loc())
    # every definition that enters the scope must also enter the definition-position table: LocalBindings::set is called
    # only by set_binding (which does both) -- a name put in scope directly has uses that resolve to it but no entry of
    # its own, so renaming rewrites the uses and leaves the definition
    SET_OK = {TC + "TypeCheckVisitor::<'_>::set_binding": "records the position too",
              TC + "TypeCheckVisitor::<'_>::get_var_for_assignment": "binds an *unbound* name to the error type after reporting it, to stop cascading errors; there is no definition to record"}
    n_set = 0
    for p_, g in sorted(P.funcs.items()):
        for bi, t in g.calls():
            if M.callee_name(t) != TC + "LocalBindings::set":
                continue
            n_set += 1
            if p_ in SET_OK:
                res.ok("DEF-SOURCE", "%s puts a name in scope (%s)" % (p_.split("::")[-1], SET_OK[p_]))
            else:
                res.bad("DEF-SOURCE", p_ + " # scope-without-definition-position",
                        "%s puts a symbol in scope with LocalBindings::set directly: uses of it resolve to its position, but the symbol itself has no "
                        "entry in id_to_def_pos, so renaming it rewrites the uses and not the definition" % p_, g.loc(t.get("span")))
    res.floor("DEF-SOURCE", "callers of LocalBindings::set", n_set, 2)
    # use sites and writers
    n_use = 0
    for p_, g in sorted(P.funcs.items()):
        for bi, t in g.calls():
            if not (M.callee_name(t) or "").endswith("HashMap::<K, V, S, A>::insert") or not t["args"]:
                continue
            if fields(g, t["args"][0])[1][-1:] != ["id_to_def_pos"]:
                continue
            if not p_.startswith(TC + "TypeCheckVisitor") and not p_.startswith("<" + TC + "TypeCheckVisitor"):
                res.bad("DEF-SOURCE", p_ + " # writes id_to_def_pos", "%s writes the definition-position table; only the type checker's visitor resolves names" % p_, g.loc(t.get("span")))
                continue
            # value: payload .1 of LocalBindings::get(..)?
            lv, fv, rr = through_clone(g, t["args"][2])
            src = None
            if lv is not None:
                base = g.root_of({"copy": {"l": lv, "p": []}}, through_named=True)
                if base[0] == "call":
                    src = base[2]
                elif base[0] == "place":
                    d = g.single_def(base[1]["l"])
                    if d and d[1] == "term":
                        src = d[2]
            if src is None or M.callee_name(src) != TC + "LocalBindings::get":
                continue
            n_use += 1
            lk, fk = fields(g, t["args"][1])
            ln, fn_ = fields(g, src["args"][1])
            key = "%s # use-site %d" % (p_, n_use)
            if fk[-1:] == ["id"] and fn_[-1:] == ["name"] and lk == ln and fk[:-1] == fn_[:-1]:
                res.ok("DEF-SOURCE", key + ": id_to_def_pos[sym.id] = position found by looking sym.name up in scope")
            else:
                res.bad("DEF-SOURCE", p_ + " # use-site key",
                        "%s stores the position found for one symbol's name under another symbol's id" % p_, g.loc(t.get("span")))
    res.floor("DEF-SOURCE", "use sites storing the looked-up definition position", n_use, 2)

    # ---------------- LOOKUP-INNERMOST
    lg = P.require_fn(TC + "LocalBindings::get")
    names = [M.callee_name(t) or "" for _, t in lg.calls()]
    rev = any(n.endswith("Iterator::rev") or "Rev<" in n or n.endswith("::next_back") or n.endswith("::rfind") for n in names)
    hget = [(bi, t) for bi, t in lg.calls() if (M.callee_name(t) or "").endswith("HashMap::<K, V, S, A>::get")]
    key_is_name = bool(hget) and all(fields(lg, t["args"][1])[0] == 2 for _, t in hget)
    if not hget:
        # `blocks.iter().rev().find_map(|block| block.get(name))`: the lookup sits in the closure, its key is the captured name
        for cp, c in sorted(P.funcs.items()):
            if cp.startswith(lg.path + "::{closure"):
                cg = [(bi, t) for bi, t in c.calls() if (M.callee_name(t) or "").endswith("HashMap::<K, V, S, A>::get")]
                if len(cg) == 1:
                    l_, fp_ = fields(c, cg[0][1]["args"][1])
                    key_is_name = l_ == 1 and "SymbolName" in str((cg[0][1].get("argtys") or ["", ""])[1])
    if rev and key_is_name:
        res.ok("LOOKUP-INNERMOST", "LocalBindings::get searches the blocks from the innermost outwards for the given name")
    else:
        res.bad("LOOKUP-INNERMOST", TC + "LocalBindings::get # order",
                "LocalBindings::get does not walk the block stack innermost-first (rev=%s, key=%s): a use inside a block that shadows a name "
                "resolves to the outer definition" % (rev, key_is_name), lg.loc())

    # ---------------- SCOPE-PAIRING
    PI.paired_calls(P, res, label="SCOPE-PAIRING", only="LocalBindings::enter_block", floor=5,
                    why_override="a block scope left open lets a block-local definition capture later uses of the same name; one closed twice drops an outer definition")

    # ---------------- APPLY-RANGE
    ar = P.require_fn("rename::apply_renames")
    sorts = [bi for bi, t in ar.calls() if "::sort" in (M.callee_name(t) or "")]
    loops = D.natural_loops(ar)
    body = set()
    for (h, a, b) in loops:
        body |= set(b)
    pushes_name = [bi for bi, t in ar.calls() if (M.callee_name(t) or "").endswith("String::push_str") and fields(ar, t["args"][1])[0] == 2]
    if not loops:
        res.bad("APPLY-RANGE", "rename::apply_renames # loop", "apply_renames has no splice loop", ar.loc())
    else:
        head = min(body, key=lambda b: ar.rpo.index(b))
        res.note("apply_renames sorts the positions before the loop: %s (not required here: the order the visitor produces them in is not decided)" % bool(sorts)) if hasattr(res, "note") else None
        inb = [b for b in pushes_name if b in body]
        hd = [h for (h, a, b) in loops]
        rng = D.event_ranges(ar, {b: (1, 1) for b in inb}, start=head, avoid=set())
        back = sorted({rng[a] for (h, a, b) in loops if a in rng})
        if inb and len(pushes_name) == len(inb) and back and all(x[0] >= 1 for x in back):
            res.ok("APPLY-RANGE", "the new name is written once for every position, inside the loop only")
        else:
            res.bad("APPLY-RANGE", "rename::apply_renames # new-name", "the new name is not written exactly once per position (in loop %d, outside %d, per iteration %s)" % (
                len(inb), len(pushes_name) - len(inb), back), ar.loc())
        ends = [1 for b in body for st in ar.blocks[b]["stmts"] if st.get("s") == "assign" and '"name": "end_offset"' in json.dumps(st["rv"])]
        starts = [1 for b in body for st in ar.blocks[b]["stmts"] if st.get("s") == "assign" and '"name": "start_offset"' in json.dumps(st["rv"])]
        if ends and starts:
            res.ok("APPLY-RANGE", "each splice copies up to start_offset and resumes at end_offset")
        else:
            res.bad("APPLY-RANGE", "rename::apply_renames # bounds", "the splice loop no longer uses both start_offset and end_offset of each position", ar.loc())

    # ---------------- SAME-CORE
    core_fn = "rename::rename_positions"
    P.require_fn(core_fn)
    E = P.edges()
    hr = P.require_fn("lsp::handle_rename")
    members = [hr] + [c for q, c in P.funcs.items() if q.startswith("lsp::handle_rename::{closure")]
    direct = any(M.callee_name(t) == core_fn for m in members for _, t in m.calls())
    seen = set()
    st_ = [p for p in P.funcs if p in ("main", "main::main")]
    if not st_:
        raise M.MissingAnchor("main not found")
    seen.update(st_)
    while st_:
        x = st_.pop()
        for k, tgt, bi in E.get(x, []):
            if k == "live" or tgt in seen or tgt.startswith("lsp::"):
                continue
            seen.add(tgt)
            st_.append(tgt)
    conv = [M.callee_name(t) or "" for m in members for _, t in m.calls()]
    if any(n == "lsp::garden_pos_to_lsp_range_no_src" for n in conv) or not any(n == "lsp::garden_pos_to_lsp_range" for n in conv):
        res.bad("SAME-CORE", "lsp::handle_rename # edit ranges", "lsp::handle_rename does not turn the shared positions into ranges with garden_pos_to_lsp_range(text, pos) "
                "(the converter that counts UTF-16 columns in the document text): the edits it returns address other columns than the command line rewrites", hr.loc())
    else:
        res.ok("SAME-CORE", "lsp::handle_rename converts the shared positions with garden_pos_to_lsp_range (details: C29 EDIT-RANGE / ONE-TEXT)")
    if direct and core_fn in seen:
        res.ok("SAME-CORE", "lsp::handle_rename and the command line both call rename::rename_positions")
    else:
        res.bad("SAME-CORE", "lsp::handle_rename -> rename::rename_positions",
                "the language server and the command line no longer share rename_positions (lsp calls it: %s, main reaches it outside lsp: %s)" % (direct, core_fn in seen), hr.loc())
    res.explanation = (
        "Structural clauses of C19 over MIR: definition-identity selection in the rename visitor (edge dominance of the push by the equal "
        "edge of the position comparison, operand provenance), provenance of the definition-position table (set_binding / LocalBindings "
        "set/get / use sites / writers), innermost-first lookup, balanced block scopes in the type checker, the splice loop of apply_renames, "
        "and the shared core function. Not decided: which uses the language's scope rules bind to which definition for a given program, "
        "freshness of the new name, the output of the renamed program.")
    res.assumptions += ["the type checker visits every symbol occurrence (a symbol never visited has no id_to_def_pos entry and is left alone)",
                        "the new name is fresh (given by the property)"]
