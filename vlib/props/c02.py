"""C02 Evaluation ends in a value or a Garden error, never a crash.

  PANIC-INV     every panic-capable MIR site reachable from eval::eval (and the entry helpers that load and start
                evaluation) is discharged by a rule or is a reviewed residue row (see C01 for the rule list).
                D-ARITY proves the `arg_values[k]` / `arg_positions[k]` indexing of the built-in dispatchers from the
                dominating `check_arity(.., N, ..)?`; D-VALSTACK is the reviewed class of value-stack pops;
                D-FRAME proves the frame stack non-empty from a who-may-shrink rule; D-BORROW/BORROW-OVERLAP decide
                RefCell double borrows from guard live ranges and transitive borrow summaries.
  INT-ARITH     no overflow/division Assert terminator on a signed integer is reachable from eval (shared with C04).
  VALSTACK-COUNT for fixed-arity expression kinds the number of sub-expressions scheduled equals the number of
                values the evaluated-arm handler pops (necessary condition for D-VALSTACK).
"""
from .. import panicinv as PI, mir as M, dflow as D, panics as PN

LAYERS = ["eval"]


def run(ctx, res):
    P = ctx.P
    PI.valstack_writers(P, res)
    reach, inv = PI.run(ctx, res, LAYERS, floor_fns=470, floor_sites=310)
    # USED-FLAG (shared with C03): every `pop_value().expect(..)` of the evaluator assumes that each operand pushed exactly
    # one value; an operand pushes one iff its `value_is_used` flag is true, and the parser's value-usage pass sets it
    from . import c03 as _c03
    _c03.used_flag_recurse(ctx.shape, res)
    # BREAK-VALUE: `break` supplies the loop's Unit exactly when the loop expression's value is used. An
    # unconditional push leaves a stray value on the frame's value stack, where an enclosing `for` keeps its
    # index and iterated value by position (-> `unreachable!("for loop index ...")`); no push at all starves
    # the expression waiting for the loop's value.
    eb = P.require_fn("eval::eval_break")
    pv = [bi for bi, t in eb.calls() if M.callee_name(t) == "env::Env::push_value"]
    used = D.field_switches(eb, "value_is_used")
    if len(pv) == 1 and any(tt is not None and pv[0] in D.edge_dominated(eb, sb, tt) for (sb, ft, tt) in used):
        res.ok("BREAK-VALUE", "eval_break pushes the loop's Unit only on the true edge of <loop expr>.value_is_used")
    else:
        res.bad("BREAK-VALUE", "eval::eval_break # loop-value",
                "eval_break does not push the loop's Unit value exactly under `<loop>.value_is_used` (push sites=%d, guarded=%s): "
                "a stray or missing value corrupts the positional value stack of enclosing loops and calls" % (
                    len(pv), bool(pv) and any(tt is not None and pv[0] in D.edge_dominated(eb, sb, tt) for (sb, ft, tt) in used)), eb.loc())
    # INT-ARITH: signed overflow asserts must not exist at all in reachable code unless reviewed in the C04 table
    n = 0
    for f, s in inv:
        if s.kind.startswith("assert:Overflow") and s.detail in ("i64", "i32", "isize", "i128"):
            n += 1
    res.ok("INT-ARITH", "signed-integer overflow asserts reachable from eval=%d (each is a PANIC-INV site above)" % n)
    if ctx.tier == "thorough":
        from .. import loops as LP
        LP.run(ctx, res, reach, defect_for=("value-depth",))
        stale = PI.stale_rows(ctx, LAYERS)
        for k in stale[:40]:
            res.note("stale residue row (matches no site in this layer): %s" % k)
        res.extra.setdefault("thorough", {})["stale_residue_rows_in_layer"] = len(stale)
    res.explanation = (
        "Decides the no-panic reading of C02: the universe is every panic-capable MIR operation in the %d functions "
        "reachable from eval::eval. Sites are discharged by dominance/dataflow rules (D-ARITY for built-in argument "
        "indexing, D-LEN/D-SUBGUARD for guarded indexing and subtraction, D-FRAME from the who-may-shrink rule on the "
        "frame vector, D-BORROW + BORROW-OVERLAP for RefCell guards, D-DISPATCH for helper fall-through arms, "
        "D-VALSTACK as a reviewed class) or by reviewed residue rows with re-checked guards. Not decided: that the "
        "right value/error results; native stack depth on deeply nested values (Drop/Display/PartialEq recursion is "
        "a recorded known finding); panics inside dependencies outside the panicking-API table." % len(reach))
    res.assumptions += [
        "D-USIZE: unsigned add/mul of in-memory lengths does not overflow",
        "D-VALSTACK: every scheduled sub-expression pushes exactly one value before its parent's evaluated arm runs",
        "drop glue is not represented in MIR call facts; recursive Drop of deeply nested values is outside the analysis"]
