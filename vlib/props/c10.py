"""C10 `:abort` returns the session to a clean top level (reset-coverage clause).

  FRAME-COVER   every field of StackFrame classified as per-evaluation state (tables/c10_frame_fields.json) is reset
                by Stack::pop_to_toplevel on the surviving frame 0 with the accepted operation; the frames above are
                dropped (truncate(1)). A new Vec/HashMap field without classification fails closed.
  ABORT-CALLS   Command::Abort calls pop_to_toplevel before returning EvalAction::Abort.
  NO-EVAL-AFTER-ABORT  the EvalAction::Abort arm of every session front end does not reach eval afterwards.
"""
import json, os
from .. import mir as M
from .. import dflow as D
from ..core import VERIF


def frame0_field(f, op):
    """if op is `&mut self.0[0].<fields>` return the field path, else None."""
    r = f.root_of(op, through_named=True)
    if r[0] != "place":
        return None
    pl = r[1]
    # the frame may be reached through the Some payload of `self.0.first_mut()`: drop that part of the projection
    for i_, e_ in enumerate(pl["p"]):
        if isinstance(e_, dict) and e_.get("downcast") == "Some" and i_ + 1 < len(pl["p"]):
            pl = {"l": pl["l"], "p": pl["p"][i_ + 2:]}
            break
    fp = f.field_path(pl)
    base = pl["l"]
    if base <= f.argc:
        # direct projection of self: self.0[const 0].x  (ConstantIndex / Index)
        return None
    d = f.single_def(base)
    # `if let Some(frame) = self.0.first_mut()`: the named local is the Some payload of the call's result
    for _ in range(3):
        if d and d[1] != "term" and d[2]["rv"]["k"] == "use":
            q = M.op_place(d[2]["rv"]["a"])
            if q is not None and any(isinstance(e, dict) and e.get("downcast") == "Some" for e in q["p"]):
                d = f.single_def(q["l"])
                continue
        break
    if not d or d[1] != "term":
        return None
    t = d[2]
    n = M.callee_name(t) or ""
    if not (n.endswith("IndexMut<I>>::index_mut") or n.endswith("Index<I>>::index") or n.endswith("::first_mut") or n.endswith("::get_mut")):
        return None
    a0 = f.root_of(t["args"][0], through_named=True)
    if a0[0] != "place" or a0[1]["l"] != 1 or f.field_path(a0[1]) != ["0"]:
        return None
    if len(t["args"]) > 1 and D.const_int(f, t["args"][1]) != 0:
        return None
    return fp


def namespace_writers(P, res):
    # ---- NAMESPACE-WRITERS: :abort keeps the toplevel frame's namespace (it is the session's identity). Who may
    # re-point a live frame's namespace, and under which guard, is a reviewed table.
    from .. import sandbox as SB
    from .. import panicinv as PI
    NSW = {
        "eval::eval_toplevel_exprs_then_stop": "Eq(len($.stack.0),1)=T",
        "json_session::switch_toplevel_namespace": "Gt(len($.stack.0),1)=F",
        "commands::run_command": None,                       # the explicit `:namespace` command, current frame
        "run_code_blocks::eval_code_block": None,            # set-up before any evaluation (stack has one frame)
        "sandboxed_playground::run_sandboxed_playground": None,
        "reftest_eval_up_to": None,
        "run_file": None,
    }
    PI._PROGRAM = P
    n_w = 0
    for pth, ws in sorted(SB.field_stores(P, "namespace", adt="env::StackFrame").items()):
        g = P.funcs[pth]
        n_w += 1
        if pth not in NSW:
            res.bad("NAMESPACE-WRITERS", "%s # writes StackFrame.namespace" % pth,
                    "`%s` re-points a live stack frame's namespace; only the reviewed writers may (after :abort the session would "
                    "continue in a namespace it did not start in)" % pth, g.loc(ws[0][3]))
            continue
        want = NSW[pth]
        if want is None:
            res.ok("NAMESPACE-WRITERS", "%s: reviewed writer (set-up or explicit command)" % pth)
            continue
        fps = [PI.guard_fingerprint(g, bi) for (bi, si, rv, sp) in ws if not g.blocks[bi]["cleanup"]]
        if any(want in fp for fp in fps) and all((want in fp) or not fp for fp in fps) and any(fp for fp in fps):
            res.ok("NAMESPACE-WRITERS", "%s: frame 0's namespace is switched only under %s" % (pth, want))
        else:
            res.bad("NAMESPACE-WRITERS", "%s # unguarded namespace switch" % pth,
                    "`%s` switches the toplevel frame's namespace without its `stack.len() == 1` guard (%s): evaluating while stopped "
                    "inside a call from another file moves the session's toplevel into that file, and :abort keeps it there" % (pth, want),
                    g.loc(ws[0][3]))
    res.floor("NAMESPACE-WRITERS", "functions storing StackFrame.namespace", n_w, 5)


def _vec_literal_len(g, op):
    """number of elements of the `vec![..]` literal an operand resolves to (0 for Vec::new()), else None."""
    import re as _re
    r = g.root_of(op, through_named=True)
    if r[0] != "call":
        return None
    n = M.callee_name(r[2]) or ""
    if n.endswith("Vec::<T>::new") or n.endswith("Vec::<T, A>::new"):
        return 0
    if n.endswith("box_assume_init_into_vec_unsafe") or n.endswith("into_vec"):
        m = _re.search(r";\s*(\d+)\]", " ".join(r[2].get("argtys") or []))
        return int(m.group(1)) if m else None
    return None


def sentinel_lengths(P, res, state):
    """a field that :abort resets with truncate(k) must be created with exactly k elements: the reset assumes the first k
    entries are the frame's own placeholders, not values of an evaluation."""
    f = P.require_fn("env::Stack::new")
    agg = None
    for b in f.blocks:
        for st in b["stmts"]:
            if st.get("s") == "assign" and st["rv"]["k"] == "agg" and st["rv"].get("adt") == "env::StackFrame":
                agg = st["rv"]
    if agg is None:
        raise M.MissingAnchor("env::Stack::new does not build a StackFrame")
    for path, spec in sorted(state.items()):
        ks = [int(a[len("truncate("):-1]) for a in spec["accept"] if a.startswith("truncate(")]
        if not ks:
            continue
        parts = path.split(".")
        g, cur = f, agg
        n_ = None
        for i, part in enumerate(parts):
            if part not in cur["fields"]:
                break
            op = cur["ops"][cur["fields"].index(part)]
            if i == len(parts) - 1:
                n_ = _vec_literal_len(g, op)
                break
            r = g.root_of(op, through_named=True)
            if r[0] != "call" or M.callee_name(r[2]) not in P.funcs:
                break
            g = P.funcs[M.callee_name(r[2])]
            cur = None
            for b in g.blocks:
                for st in b["stmts"]:
                    if st.get("s") == "assign" and st["rv"]["k"] == "agg" and st["rv"].get("ak") == "adt" and part.capitalize() in str(st["rv"].get("adt", "")).split("::")[-1]:
                        cur = st["rv"]
            if cur is None:
                break
        key = "env::Stack::new # %s" % path
        if n_ is None:
            res.bad("FRAME-COVER", key + " # initial length unknown", "cannot see how many elements `%s` of the toplevel frame starts with; :abort's truncate(%d) assumes exactly %d" % (path, ks[0], ks[0]), f.loc())
        elif n_ not in ks:
            res.bad("FRAME-COVER", key + " # starts with %d" % n_,
                    "the toplevel frame's `%s` starts with %d element(s), but :abort resets it with truncate(%d): the first value(s) an evaluation leaves there "
                    "survive the abort" % (path, n_, ks[0]), f.loc())
        else:
            res.ok("FRAME-COVER", key + ": starts with %d element(s), as truncate(%d) assumes" % (n_, n_))


def frame_cover(P, res):
    """FRAME-COVER (shared with C09): pop_to_toplevel resets every per-evaluation field of the surviving frame."""
    table = json.load(open(os.path.join(VERIF, "tables", "c10_frame_fields.json")))
    state = table["state"]
    ident = table["identity"]
    adt = P.adts.get("env::StackFrame")
    if adt is None:
        raise M.MissingAnchor("struct env::StackFrame not found")
    fields = [(x["name"], x["ty"]) for x in adt["variants"][0]["fields"]]
    res.floor("FRAME-COVER", "fields of StackFrame", len(fields), 8)
    f = P.require_fn("env::Stack::pop_to_toplevel")
    resets = {}
    dropped_above = False
    for bi, t in f.calls():
        n = (M.callee_name(t) or "")
        op = n.split("::")[-1]
        if op not in ("truncate", "clear", "drain", "resize", "retain"):
            continue
        r = f.root_of(t["args"][0], through_named=True)
        k = D.const_int(f, t["args"][1]) if len(t["args"]) > 1 else None
        if r[0] == "place" and r[1]["l"] == 1 and f.field_path(r[1]) == ["0"]:
            if op == "truncate" and k == 1:
                dropped_above = True
            continue
        fp = frame0_field(f, t["args"][0])
        if fp:
            resets[".".join(fp)] = (op, k, bi)
    # assignments self.0[0].x = <fresh>
    if dropped_above:
        res.ok("FRAME-COVER", "pop_to_toplevel: frames above the top level are dropped (self.0.truncate(1))")
    else:
        res.bad("FRAME-COVER", "env::Stack::pop_to_toplevel # frames", "pop_to_toplevel does not truncate the frame stack to the single top-level frame", f.loc())
    sentinel_lengths(P, res, state)
    # every path that does not return early performs every reset: reset blocks dominate the normal return
    rets = [bi for bi in f.reachable_blocks() if f.blocks[bi]["term"]["t"] == "return"]
    for name, ty in fields:
        key = "env::StackFrame.%s" % name
        if name in ident:
            res.ok("FRAME-COVER", key + " identity/config of the surviving frame: " + ident[name][:60])
            continue
        matched = [(k, v) for k, v in state.items() if k == name or k.startswith(name + ".")]
        if not matched:
            if ty.startswith("std::vec::Vec<") or "HashMap<" in ty or "HashSet<" in ty:
                res.bad("FRAME-COVER", key + " # unclassified",
                        "StackFrame has a collection field `%s` that is neither classified as per-evaluation state nor as identity: "
                        "decide whether :abort must reset it (tables/c10_frame_fields.json)" % name, "src/env.rs")
            else:
                res.note("unclassified scalar field %s: %s" % (name, ty))
            continue
        for path, spec in matched:
            got = resets.get(path)
            okops = spec["accept"]
            if got is None:
                res.bad("FRAME-COVER", "env::StackFrame.%s # not-reset" % path,
                        "pop_to_toplevel does not reset `%s` of the top-level frame (%s): state of the aborted evaluation survives :abort" % (path, spec["why"]),
                        f.loc())
                continue
            op, k, bi = got
            sig = op if k is None else "%s(%d)" % (op, k)
            if sig not in okops:
                res.bad("FRAME-COVER", "env::StackFrame.%s # reset-by %s" % (path, sig),
                        "`%s` is reset with %s, accepted: %s (%s)" % (path, sig, "/".join(okops), spec["why"]), f.loc(f.blocks[bi]["term"]["span"]))
                continue
            # must happen on every non-early path: the reset block dominates some return and is not skippable
            r = D.reach_from(f, [0], avoid_blocks=[bi])
            # the only allowed bypass is the early return for an empty stack (is_empty true edge)
            empties = D.call_switches(f, "::is_empty")
            byp = [b for b in rets if b in r]
            allowed = set()
            nonempty_starts = []
            for sw in empties:
                allowed |= D.reach_from(f, [sw["true"]], avoid_blocks=[bi])
                nonempty_starts.append(sw["false"])
            # the same early exit written as `if let Some(frame) = self.0.first_mut() { .. }`: the None edge
            for es in D.enum_switches(f):
                pl_ = es["place"]
                d_ = f.single_def(pl_["l"]) if not pl_["p"] else None
                if d_ and d_[1] == "term" and (M.callee_name(d_[2]) or "").endswith(("::first_mut", "::get_mut", "::first", "::last_mut")):
                    a0_ = f.root_of(d_[2]["args"][0], through_named=True)
                    if a0_[0] == "place" and a0_[1]["l"] == 1 and f.field_path(a0_[1]) == ["0"]:
                        for tgt, names in es["by_target"].items():
                            if names == ["None"]:
                                allowed |= D.reach_from(f, [tgt], avoid_blocks=[bi])
                            else:
                                nonempty_starts.append(tgt)
                        if es["otherwise_variants"] == ["None"]:
                            allowed |= D.reach_from(f, [es["otherwise"]], avoid_blocks=[bi])
                        elif es["otherwise_variants"]:
                            nonempty_starts.append(es["otherwise"])
            skipped = [b for b in byp if not (b in allowed and all(b not in D.reach_from(f, [st_], avoid_blocks=[bi]) for st_ in nonempty_starts))]
            if skipped:
                res.bad("FRAME-COVER", "env::StackFrame.%s # conditional-reset" % path,
                        "the reset of `%s` can be skipped on a path other than the empty-stack early return" % path, f.loc(f.blocks[bi]["term"]["span"]))
            else:
                res.ok("FRAME-COVER", "env::StackFrame.%s reset by %s on every path" % (path, sig))
                res.sample({"rule": "FRAME-COVER", "field": path, "reset": sig})


def run(ctx, res):
    P = ctx.P
    frame_cover(P, res)
    # truncate(1) on the toplevel frame's binding blocks keeps "the toplevel variables" only if block 0 is the toplevel block,
    # i.e. if every block pushed by an evaluation has been popped or is still owed by a pending entry: C06's discipline.
    # Its rules are run here too, because a block leaked at the top level turns `:abort` into a loss of toplevel variables.
    from . import c06 as _c06
    _c06.run(ctx, res, with_frame_cover=False)
    _extra = dict(res.extra)
    # ---- ABORT-CALLS
    rc = P.require_fn("commands::run_command")
    pops = [bi for bi, t in rc.calls() if M.callee_name(t) == "env::Stack::pop_to_toplevel"]
    ok = False
    for bi in pops:
        if "Abort" in D.arm_label(rc, bi, enums={"Command"}):
            ok = True
    if ok:
        res.ok("ABORT-CALLS", "commands::run_command: Command::Abort arm calls Stack::pop_to_toplevel")
    else:
        res.bad("ABORT-CALLS", "commands::run_command # Command::Abort", "the Command::Abort arm does not call Stack::pop_to_toplevel", rc.loc())
    # the reset must be unconditional: every path from the Abort arm's entry to a return passes through it
    n_arm = 0
    for sw in D.enum_switches(rc):
        if D.short_ty(sw["ety"]) != "Command":
            continue
        for tgt, names in sw["by_target"].items():
            if names != ["Abort"]:
                continue
            n_arm += 1
            leak = D.reach_from(rc, [tgt], avoid_blocks=pops) & set(rc.exits())
            if leak:
                res.bad("ABORT-CALLS", "commands::run_command # Command::Abort # conditional",
                        "the Command::Abort arm can return without calling Stack::pop_to_toplevel (the reset is conditional): "
                        "`:abort` then answers but leaves the session inside the aborted evaluation", rc.loc(rc.blocks[tgt]["term"].get("span")))
            else:
                res.ok("ABORT-CALLS", "every path through the Command::Abort arm resets the stack")
    res.floor("ABORT-CALLS", "Command::Abort arms in run_command", n_arm, 1)
    # ---- BLOCK-SCOPE-ORDER (shared with C06): pop_to_toplevel keeps block 0 of frame 0, so nothing block-local may
    # ever be installed there
    from . import c06 as _c06
    _c06.block_scope_order(P, res)
    namespace_writers(P, res)
    # ---- NO-EVAL-AFTER-ABORT
    reaches_eval = set()
    E = P.edges()
    rev = {}
    for p, es in E.items():
        for kind, tgt, bi in es:
            if kind != "live":
                rev.setdefault(tgt, set()).add(p)
    st = ["eval::eval"]
    reaches_eval.add("eval::eval")
    while st:
        x = st.pop()
        for q in rev.get(x, ()):
            if q not in reaches_eval:
                reaches_eval.add(q)
                st.append(q)
    n_arms = 0
    for g in P.funcs.values():
        for sw in D.enum_switches(g):
            if not sw["ety"].endswith("commands::EvalAction"):
                continue
            for tgt, names in sw["by_target"].items():
                if names == ["Abort"] or "Abort" in names and len(names) == 1:
                    n_arms += 1
                    region = D.edge_dominated(g, sw["bb"], tgt)
                    # within the arm (before rejoining code shared with other arms)
                    bad = []
                    for kind, callee, cb in E.get(g.path, []):
                        if kind in ("call", "cha") and cb in region and callee in reaches_eval:
                            bad.append((callee, cb))
                    key = "%s # EvalAction::Abort arm" % g.path
                    if bad:
                        res.bad("NO-EVAL-AFTER-ABORT", key, "the Abort arm calls %s, which can reach eval::eval" % bad[0][0], g.loc(g.blocks[bad[0][1]]["term"]["span"]))
                    else:
                        res.ok("NO-EVAL-AFTER-ABORT", key + " does not re-enter evaluation")
    res.floor("NO-EVAL-AFTER-ABORT", "EvalAction::Abort arms in session front ends", n_arms, 2)
    res.extra["functions_analysed"] = 3
    res.explanation = (
        "Reset-coverage clause: the fields of StackFrame are read from the type definition in the MIR facts, classified by a "
        "reviewed table into per-evaluation state vs identity of the top-level frame, and each state field must be reset by "
        "pop_to_toplevel on frame 0 by the accepted operation on every path (except the empty-stack early return); "
        "Command::Abort must call it and the Abort arms of the front ends must not evaluate afterwards. This decides that "
        "nothing of the aborted evaluation's frames, pending expressions, pending values or scopes survives; it does not "
        "decide whether top-level locals bound by the failed input (scope 0) should survive, which is a behavioural choice.")
