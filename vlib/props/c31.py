"""C31 nREPL interrupt stops the running eval and no other (necessary-condition clauses only).

  RESET-ON-DEQUEUE  in session_worker, interrupted.store(false) lies on every path from request_rx.recv()
                    to each handler call, inside the loop, and targets the worker's own flag.
  ADDRESSING        in handle_message every store(true) targets SessionState.interrupted of the session
                    looked up in conn.sessions by the request's "session" id; close_session stores true on the
                    looked-up session before removing it.
  WHO-SETS          the per-session flag is set to true only by: the interrupt op, close_session, the SIGINT
                    watchdog (all sessions of the connection). Nothing else writes true.
  PER-STEP-CHECK    eval::eval loads the flag on every step and clears it only when it consumes it (shared with C08).
These are the mechanisms the property names; each is necessary. Whether an interrupt can still be lost or leak for
some interleaving is a question about schedules and is not decided here.
"""
from .. import mir as M
from .. import dflow as D
from .. import evalloop as EL


def stores(f):
    out = []
    for bi, t in f.calls():
        n = M.callee_name(t) or ""
        if n.endswith("Atomic::<bool>::store") or n.endswith("Atomic::<bool>::swap") or n.endswith("Atomic::<bool>::fetch_or"):
            c = M.op_const(t["args"][1]) if len(t["args"]) > 1 else None
            out.append((bi, t, c.get("v") if c else None, n.split("::")[-1]))
    return out


def derives_from_call(P, f, op, pred, depth=6):
    """does the value of `op` derive (through calls' arguments / named locals) from a call satisfying pred?"""
    if depth < 0:
        return False
    r = f.root_of(op, through_named=True)
    if r[0] == "call":
        t = r[2]
        if pred(f, t):
            return True
        return any(derives_from_call(P, f, a, pred, depth - 1) for a in t["args"])
    if r[0] == "place":
        d = f.defs.get(r[1]["l"], [])
        for (bi, si, st) in d:
            if si == "term":
                if pred(f, st):
                    return True
                if any(derives_from_call(P, f, a, pred, depth - 1) for a in st["args"]):
                    return True
    return False


def is_session_key(f, t):
    if not (M.callee_name(t) or "").endswith("nrepl::dict_get"):
        return False
    for a in t["args"]:
        c = f.root_of(a)
        if c[0] == "const" and c[1].get("s") == "session":
            return True
    return False


def closure_of_arg(f, op):
    r = f.root_of(op)
    if r[0] == "rv" and r[3]["rv"]["k"] == "agg" and r[3]["rv"].get("ak") == "closure":
        return r[3]["rv"]["def"]
    if r[0] == "const" and "closure" in r[1]:
        return r[1]["closure"]
    return None



def reader_never_blocks(P, res, rule="READER-NEVER-BLOCKS", root="nrepl::handle_message", prefix="nrepl::", floor=3):
    """the connection's reader thread is the only one that can read an `interrupt` or `close`, so nothing it calls directly
    may wait on a session: no bounded-channel send (SyncSender::send blocks when the queue is full), no recv, no join, no
    sleep. (Functions it hands to thread::spawn run on other threads and are not followed.) Shared by C30 and C31."""
    E = P.edges()
    if root not in P.funcs:
        raise M.MissingAnchor(root)
    seen = {root}
    st = [root]
    while st:
        x = st.pop()
        for k, tgt, bi in E.get(x, []):
            if k == "call" and tgt in P.funcs and tgt.startswith(prefix) and tgt not in seen:
                seen.add(tgt)
                st.append(tgt)
    BLOCKING = ("SyncSender::<T>::send", "Receiver::<T>::recv", "Receiver::<T>::recv_timeout", "JoinHandle::<T>::join",
                "std::thread::sleep", "std::thread::park", "Condvar::wait", "Barrier::wait")
    n = 0
    for p_ in sorted(seen):
        f = P.funcs[p_]
        for bi, t in f.calls():
            nm = M.callee_name(t) or ""
            if "mpsc" in nm or "thread::" in nm or "Condvar" in nm:
                n += 1
            if nm.endswith(BLOCKING):
                res.bad(rule, "%s # %s" % (p_, nm.split("::")[-1]),
                        "%s, which runs on the connection's reader thread, calls %s: with a bounded queue or a wait the reader stops reading, and the "
                        "`interrupt` / `close` that would end the running eval is never seen (and no later request gets its `done`)" % (p_, nm), f.loc(t["span"]))
    res.ok(rule, "nothing the reader thread calls directly can wait on a session (%d functions, %d channel/thread operations looked at)" % (len(seen), n))
    res.floor(rule, "channel / thread operations on the reader thread", n, floor)


def run(ctx, res):
    P = ctx.P
    reader_never_blocks(P, res)
    # interrupts are addressed by session id: two live sessions must never share one (FRESH-ID, shared with C30)
    from . import c30 as _c30
    _c30.fresh_id(P, res, rule="FRESH-ID")
    # ---- RESET-ON-DEQUEUE ----------------------------------------------------------
    w = P.require_fn("nrepl::session_worker")
    recvs = [bi for bi, t in w.calls() if (M.callee_name(t) or "").endswith("Receiver::<T>::recv")
             or ("mpsc::Iter<" in (M.callee_name(t) or "") and (M.callee_name(t) or "").endswith("Iterator>::next"))]      # `for req in rx.iter()` dequeues with Iter::next
    handlers = [(bi, M.callee_name(t)) for bi, t in w.calls() if (M.callee_name(t) or "").startswith("nrepl::handle_")]
    res.floor("RESET-ON-DEQUEUE", "handler calls in session_worker", len(handlers), 4)
    falses = [(bi, t) for (bi, t, v, n) in stores(w) if v is False]
    if len(recvs) != 1 or not falses:
        res.bad("RESET-ON-DEQUEUE", "nrepl::session_worker # shape",
                "session_worker must have one recv() and clear the interrupt flag after it (recv=%d, store(false)=%d)" % (len(recvs), len(falses)), w.loc())
    else:
        rb = recvs[0]
        ok_target = []
        for sb, st in falses:
            r = w.root_of(st["args"][0], through_named=True)
            own = r[0] == "place" and r[1]["l"] <= w.argc and "Atomic<bool>" in w.local_ty(r[1]["l"])
            ok_target.append((sb, own))
        own_stores = [sb for sb, own in ok_target if own]
        after_recv = w.blocks[rb]["term"]["target"]
        for hb, hn in handlers:
            r = D.reach_from(w, [after_recv], avoid_blocks=own_stores)
            key = "nrepl::session_worker # %s" % hn
            if hb in r:
                res.bad("RESET-ON-DEQUEUE", key + " # no-reset",
                        "%s can be reached from recv() without clearing the session's interrupt flag: a stray interrupt received while idle cancels the next eval" % hn,
                        w.loc(w.blocks[hb]["term"]["span"]))
            else:
                res.ok("RESET-ON-DEQUEUE", key + ": flag cleared between dequeue and handler")
        # the reset must not happen *after* a handler started (it would lose a real interrupt)... it is before: check no store(false) reachable from handler calls before next recv
        for hb, hn in handlers:
            r = D.reach_from(w, [w.blocks[hb]["term"]["target"]], avoid_blocks=[rb])
            late = [sb for sb in own_stores if sb in r]
            if late:
                res.bad("RESET-ON-DEQUEUE", "nrepl::session_worker # reset-after-handler",
                        "the interrupt flag is cleared after a handler ran and before the next dequeue", w.loc())
        # the Session given to handlers shares the same flag (Arc::clone of the parameter)
        shares = False
        for bi, b in enumerate(w.blocks):
            for s in b["stmts"]:
                if s["s"] == "assign" and s["rv"]["k"] == "agg" and s["rv"].get("adt") == "eval::Session":
                    for name, op in zip(s["rv"]["fields"], s["rv"]["ops"]):
                        if name == "interrupted":
                            r = w.root_of(op, through_named=True)
                            if r[0] == "call" and (M.callee_name(r[2]) or "").endswith("Clone>::clone"):
                                a = w.root_of(r[2]["args"][0], through_named=True)
                                shares = a[0] == "place" and a[1]["l"] <= w.argc
        if shares:
            res.ok("RESET-ON-DEQUEUE", "the evaluator's Session.interrupted is a clone of the worker's own flag")
        else:
            res.bad("RESET-ON-DEQUEUE", "nrepl::session_worker # session-flag", "Session.interrupted handed to the evaluator is not the worker's flag", w.loc())

    # ---- ADDRESSING -----------------------------------------------------------------
    hm = P.require_fn("nrepl::handle_message")
    trues = [(bi, t) for (bi, t, v, n) in stores(hm) if v is not False]
    res.floor("ADDRESSING", "flag stores in handle_message", len(trues), 1)
    for bi, t in trues:
        key = "nrepl::handle_message # store(true)"
        r = hm.root_of(t["args"][0], through_named=True)
        ok = False
        why = "target is not SessionState.interrupted"
        if r[0] == "place" and hm.field_path(r[1])[-1:] == ["interrupted"]:
            base = r[1]["l"]
            d = hm.single_def(base)
            why = "the session is not looked up in conn.sessions by the request's session id"
            if d and d[1] == "term":
                ct = d[2]
                n = M.callee_name(ct) or ""
                look = None
                if n.endswith("Option::<T>::and_then") and len(ct["args"]) == 2:
                    cp = closure_of_arg(hm, ct["args"][1])
                    c = P.fn(cp) if cp else None
                    if c is not None:
                        gets = D.calls_named(c, "HashMap::<K, V, S, A>::get", "sessions")
                        if len(gets) == 1:
                            kr = c.root_of(gets[0][1]["args"][1], through_named=True)
                            if kr[0] == "place" and kr[1]["l"] == 2:
                                look = ct["args"][0]
                elif n.endswith("HashMap::<K, V, S, A>::get"):
                    a0 = hm.root_of(ct["args"][0], through_named=True)
                    if a0[0] == "place" and hm.field_path(a0[1])[-1:] == ["sessions"]:
                        look = ct["args"][1]
                if look is not None and derives_from_call(P, hm, look, is_session_key):
                    ok = True
        if ok:
            res.ok("ADDRESSING", key + " targets sessions[request.session].interrupted")
            res.sample({"rule": "ADDRESSING", "line": t["span"]["line"]})
        else:
            res.bad("ADDRESSING", key + " # misaddressed", "interrupt handler: " + why, hm.loc(t["span"]))
    cs = P.require_fn("nrepl::Connection::close_session")
    ctrues = [(bi, t) for (bi, t, v, n) in stores(cs) if v is True]
    rem = [bi for bi, t in D.calls_named(cs, "HashMap::<K, V, S, A>::remove", "sessions")]
    gets = D.calls_named(cs, "HashMap::<K, V, S, A>::get", "sessions")
    okc = False
    if len(ctrues) == 1 and len(rem) == 1 and len(gets) == 1:
        sb, st = ctrues[0]
        r = cs.root_of(st["args"][0], through_named=True)
        same_key = cs.root_of(gets[0][1]["args"][1], through_named=True) == cs.root_of(cs.blocks[rem[0]]["term"]["args"][1], through_named=True)
        tgt = r[0] == "place" and cs.field_path(r[1])[-1:] == ["interrupted"] and r[1]["l"] == gets[0][1]["dest"]["l"]
        # on the Some edge of the lookup, remove is not reachable without the store
        some = None
        for sw in D.enum_switches(cs):
            if sw["place"]["l"] == gets[0][1]["dest"]["l"]:
                for tg, names in sw["by_target"].items():
                    if "Some" in names:
                        some = tg
        before = some is not None and rem[0] not in D.reach_from(cs, [some], avoid_blocks=[sb])
        okc = same_key and tgt and before
    if okc:
        res.ok("ADDRESSING", "close_session: store(true) on the looked-up session precedes sessions.remove(id) (same id)")
    else:
        res.bad("ADDRESSING", "nrepl::Connection::close_session # shape",
                "close_session must set the interrupt flag of the session it removes, before removing it", cs.loc())

    # ---- WHO-SETS ------------------------------------------------------------------
    # serve_connection: on client disconnect every session of that connection is interrupted (they are being closed)
    allowed = {"nrepl::handle_message", "nrepl::Connection::close_session", "nrepl::sigint_watchdog::{closure#0}",
               "nrepl::serve_connection"}
    nrepl_reach = P.reachable(["nrepl::serve_connection", "nrepl::session_worker", "nrepl::sigint_watchdog"], rta=False)
    n_w = 0
    for p in sorted(nrepl_reach):
        fn = P.funcs[p]
        if not p.startswith("nrepl::"):
            continue
        for (bi, t, v, n) in stores(fn):
            if v is False:
                continue
            n_w += 1
            if p in allowed:
                res.ok("WHO-SETS", "%s sets a session flag (%s)" % (p, n))
            else:
                res.bad("WHO-SETS", "%s # sets-flag" % p, "%s writes true into an interrupt flag; only the interrupt op, close_session, connection teardown and the SIGINT watchdog may" % p, fn.loc(t["span"]))
    res.floor("WHO-SETS", "writers of `true` into interrupt flags in nrepl", n_w, 3)

    # ---- WHO-CLEARS: a pending interrupt may be wiped only where it is consumed or where a new request begins:
    # eval's Interrupted exit and the worker's dequeue. Any other store(false) can erase an interrupt that was sent
    # to a running eval (e.g. clearing on *enqueue*, while the previous eval is still executing).
    # sigint_watchdog consumes the process-wide SIGINT flag with swap(false) (not a session flag) and fans it out
    clear_ok = {"nrepl::session_worker", "eval::eval", "nrepl::sigint_watchdog"}
    _L = EL.locate(P)
    _h = EL.prestep_flag_helper(_L, P)
    if _h is not None and not _h["problems"]:
        clear_ok.add(_h["name"])     # eval's consumed-interrupt exit, extracted into its per-step helper (shape checked by C08's rule)
    n_c = 0
    for p in sorted(P.funcs):
        fn = P.funcs[p]
        if not (p.startswith("nrepl::") or p.startswith("eval::") or p.startswith("json_session::")):
            continue
        for (bi, t, v, n) in stores(fn):
            if v is not False:
                continue
            n_c += 1
            if p.split("::{closure")[0] in clear_ok:
                res.ok("WHO-CLEARS", "%s clears an interrupt flag (%s)" % (p, n))
            else:
                res.bad("WHO-CLEARS", "%s # clears-flag" % p, "`%s` writes false into an interrupt flag; only the worker's dequeue and "
                        "eval's consumed-interrupt exit may (a clear anywhere else can erase an interrupt aimed at the eval that is "
                        "still running)" % p, fn.loc(t["span"]))
    res.floor("WHO-CLEARS", "writers of `false` into interrupt flags", n_c, 2)

    # ---- PER-STEP-CHECK --------------------------------------------------------------
    L = EL.locate(P)
    f = L.f
    loads = [sw for sw in D.bool_switches(f) if sw["bb"] in L.pre_region and sw["root"][0] == "call" and (M.callee_name(sw["root"][2]) or "").endswith("::load")]
    if len(loads) == 1 and f.dominates(loads[0]["bb"], L.step_bb):
        res.ok("PER-STEP-CHECK", "eval::eval loads the interrupt flag on every path to every step")
    elif not loads and _h is not None and not _h["problems"]:
        res.ok("PER-STEP-CHECK", "eval::eval calls %s before every step, which loads the interrupt flag on every path" % _h["name"])
    else:
        res.bad("PER-STEP-CHECK", "eval::eval # flag-load", "the interrupt flag is not loaded on every step (found %d loads)" % len(loads), f.loc())
    res.extra["functions_analysed"] = 6
    res.explanation = (
        "Necessary conditions only, each read off the MIR: the worker clears its own flag on every path between dequeue and "
        "handler and never afterwards; the interrupt op and close_session store true into the flag of exactly the session "
        "named by the request (lookup key derives from dict_get(request, \"session\")); only three sites write true; the "
        "evaluator loads the flag every step and shares the worker's Arc. Lost or leaked interrupts under particular "
        "interleavings of these operations are a schedule question that static analysis here does not decide.")
    res.assumptions += ["interleavings are not analysed"]
