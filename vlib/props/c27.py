"""C27 Eval-up-to reports the value the expression takes when run (structural clauses).

That the reported value equals the value of a plain run is an agreement between two executions: not decided. Its necessary
conditions that are visible in the code:

  STOP-AFTER-VALUE  in the interpreter loop, the early `return Ok(v)` for eval-up-to is reached only (a) after the step
                    (dominated by the call of eval_expr), (b) on the true edge of the comparison of Env.stop_at_expr_id
                    with the id of the expression just stepped, and (c) on the true edge of `done_subexpressions()`; and
                    `v` is the last of the current frame's evalled_values. Without (b) another expression's value is
                    reported, without (c) the expression's operands rather than its value.
  OBSERVED-USED     eval_up_to marks the observed expression as "value used" (set_observed_expr_value_used) with the very id
                    it then stores in Env.stop_at_expr_id, before any evaluation starts: otherwise a statement-position
                    expression pushes no value and (c)'s `last()` reports the value of an earlier expression.
  INNERMOST         the id is chosen by walking the ids found at the offset innermost-first (reversed iteration) and taking
                    the first that names an expression.
  STOP-ID-SCOPED    every path of eval_up_to that stored Some(id) in Env.stop_at_expr_id stores None again before it
                    returns (a left-over id makes the *next* eval-up-to of a function body stop at a stale expression when
                    the ids coincide, and every plain evaluation stop early).
Decides these clauses only.
"""
import json
from .. import mir as M
from .. import dflow as D
from .. import evalloop as EL

FIELD = "stop_at_expr_id"


def fp_of(f, op):
    r = f.root_of(op, through_named=True)
    for _ in range(3):
        if r[0] == "call" and (M.callee_name(r[2]) or "").endswith(("::as_ref", "::clone", "::copied", "::cloned")) and r[2]["args"]:
            r = f.root_of(r[2]["args"][0], through_named=True)
    if r[0] == "place":
        return r[1]["l"], list(f.field_path(r[1]))
    return None, []


def run(ctx, res):
    P = ctx.P
    L = EL.locate(P)
    f = L.f
    # ---- STOP-AFTER-VALUE
    id_sw = None
    for sw in D.bool_switches(f):
        r = sw["root"]
        if r[0] != "call" or not (M.callee_name(r[2]) or "").endswith("PartialEq>::eq"):
            continue
        sides = [fp_of(f, a)[1][-1:] for a in r[2]["args"]]
        if [FIELD] in sides and ["caller_expr_id"] not in sides:
            id_sw = sw
    if id_sw is None:
        raise M.MissingAnchor("eval::eval: the comparison of Env.stop_at_expr_id with the stepped expression's id")
    done_sw = None
    for sw in D.bool_switches(f):
        r = sw["root"]
        if r[0] == "call" and (M.callee_name(r[2]) or "").endswith("ExpressionState::done_subexpressions"):
            if sw["bb"] in D.edge_dominated(f, id_sw["bb"], id_sw["true"]):
                done_sw = sw
    # the early returns: blocks in the id-true region that assign _0 = Ok(..) and reach `return` without leaving the region's exits through the loop
    region = D.edge_dominated(f, id_sw["bb"], id_sw["true"])
    lasts = [bi for bi, t in f.calls() if bi in region and (M.callee_name(t) or "").endswith("::last") and fp_of(f, t["args"][0])[1][-1:] == ["evalled_values"]]
    res.floor("STOP-AFTER-VALUE", "`evalled_values.last()` reads in the stop branch", len(lasts), 1)
    if not f.dominates(L.step_bb, id_sw["bb"]):
        res.bad("STOP-AFTER-VALUE", "eval::eval # before-step", "the stop-at-expression test is not preceded by the step on every path: a value is reported for an expression that has not been evaluated",
                f.loc(f.blocks[id_sw["bb"]]["term"].get("span")))
    else:
        res.ok("STOP-AFTER-VALUE", "the stop test is dominated by the call of eval_expr")
    if done_sw is None:
        res.bad("STOP-AFTER-VALUE", "eval::eval # no-done-test", "inside the stop branch there is no `done_subexpressions()` test", f.loc(f.blocks[id_sw["bb"]]["term"].get("span")))
    else:
        dreg = D.edge_dominated(f, done_sw["bb"], done_sw["true"])
        bad = [b for b in lasts if b not in dreg]
        if bad:
            res.bad("STOP-AFTER-VALUE", "eval::eval # value-before-done", "the reported value is read on a path where the expression's sub-expressions are not done yet",
                    f.loc(f.blocks[bad[0]]["term"].get("span")))
        else:
            res.ok("STOP-AFTER-VALUE", "the reported value is read under stop id == stepped id and done_subexpressions()")
    # the compared id is the stepped expression's id
    r = id_sw["root"]
    other = [a for a in r[2]["args"] if fp_of(f, a)[1][-1:] != [FIELD]]
    ok_id = False
    for a in other:
        rr = f.root_of(a, through_named=True)
        txt = json.dumps(rr[3]["rv"]) if rr[0] == "rv" else json.dumps(rr[1]) if rr[0] == "place" else ""
        if '"name": "id"' in txt:
            ok_id = True
        if rr[0] == "rv" and rr[3]["rv"]["k"] == "agg":
            for o in rr[3]["rv"]["ops"]:
                l_, fp_ = fp_of(f, o)
                if fp_[-1:] == ["id"]:
                    ok_id = True
    if ok_id:
        res.ok("STOP-AFTER-VALUE", "the id compared with is the `id` of the expression popped for this step")
    else:
        res.bad("STOP-AFTER-VALUE", "eval::eval # compared-id", "Env.stop_at_expr_id is compared with something other than the stepped expression's id", f.loc(f.blocks[id_sw["bb"]]["term"].get("span")))

    # ---- OBSERVED-USED / INNERMOST / STOP-ID-SCOPED
    g = P.require_fn("eval::eval_up_to")
    marks = [(bi, t) for bi, t in g.calls() if (M.callee_name(t) or "").endswith("set_observed_expr_value_used")]
    stores = []     # (bb, is_some, operand)
    for bi, b in enumerate(g.blocks):
        for st in b["stmts"]:
            if st.get("s") != "assign":
                continue
            fp = g.field_path(st["place"])
            if fp[-1:] == [FIELD]:
                rv = st["rv"]
                some = rv["k"] == "agg" and rv.get("variant") == "Some"
                if rv["k"] == "use":
                    rr = g.root_of(rv["a"], through_named=True)
                    if rr[0] == "rv" and rr[3]["rv"]["k"] == "agg":
                        some = rr[3]["rv"].get("variant") == "Some"
                        rv = rr[3]["rv"]
                stores.append((bi, some, rv))
    somes = [s for s in stores if s[1]]
    nones = [s for s in stores if not s[1]]
    res.floor("STOP-ID-SCOPED", "stores of Some(id) to Env.stop_at_expr_id in eval_up_to", len(somes), 4)
    if len(marks) != 1:
        res.bad("OBSERVED-USED", "eval::eval_up_to # mark", "expected one call of set_observed_expr_value_used in eval_up_to, found %d" % len(marks), g.loc())
    else:
        mb, mt = marks[0]
        mid = g.root_of(mt["args"][1], through_named=True)
        mloc = mid[1]["l"] if mid[0] == "place" else None
        okm = True
        for bi, some, rv in somes:
            if not g.dominates(mb, bi):
                okm = False
                res.bad("OBSERVED-USED", "eval::eval_up_to # mark-after-store", "Env.stop_at_expr_id is set on a path that has not marked the observed expression's value as used", g.loc())
                break
            ids = [g.root_of(o, through_named=True) for o in rv.get("ops", [])]
            if not any(x[0] == "place" and x[1]["l"] == mloc for x in ids):
                okm = False
                res.bad("OBSERVED-USED", "eval::eval_up_to # other-id", "the id marked as used and the id stored in Env.stop_at_expr_id are different values", g.loc())
                break
        if okm:
            res.ok("OBSERVED-USED", "set_observed_expr_value_used(items, id) dominates every `stop_at_expr_id = Some(id)` with the same id (%d stores)" % len(somes))
    names = [M.callee_name(t) or "" for _, t in g.calls()]
    if any(n.endswith("Iterator::rev") or "Rev<" in n for n in names) and any(n.endswith("find_expr_of_id") for n in names):
        res.ok("INNERMOST", "eval_up_to tries the ids at the offset innermost-first")
    else:
        res.bad("INNERMOST", "eval::eval_up_to # order", "eval_up_to no longer walks the ids found at the offset in reverse (innermost first)", g.loc())
    # every Some store is followed by a None store on every path to a return
    rets = [bi for bi in g.reachable_blocks() if g.blocks[bi]["term"]["t"] == "return"]
    none_bbs = [s[0] for s in nones]
    bad = 0
    for bi, some, rv in somes:
        r_ = D.reach_from(g, g.succ[bi], avoid_blocks=none_bbs)
        if any(x in r_ for x in rets):
            bad += 1
            res.bad("STOP-ID-SCOPED", "eval::eval_up_to # left-set", "a path returns from eval_up_to with Env.stop_at_expr_id still set", g.loc(g.blocks[bi]["term"].get("span")))
    if not bad:
        res.ok("STOP-ID-SCOPED", "every `stop_at_expr_id = Some(id)` in eval_up_to is followed by `= None` on every path to a return (%d stores)" % len(somes))
    res.explanation = (
        "Structural clauses of C27 on MIR: dominance of the early return in the interpreter loop by the step, by the true edge of the id "
        "comparison and by the true edge of done_subexpressions(); provenance of the reported value (evalled_values.last()) and of the "
        "compared id; in eval_up_to, the value-used mark dominates the stop-id stores with the same id, ids are tried innermost-first, and "
        "the stop id is cleared on every path. Not decided: that the value so reported equals the value in a plain run (argument reuse from "
        "prev_call_args, loops, the for-in special case), nor when an error is reported.")
    res.assumptions += ["pos_to_id::find_item_at lists enclosing items outermost first (its reversed walk is what makes the first hit innermost)"]
