"""C27 Eval-up-to reports the value the expression takes when run (structural clauses).

That the reported value equals the value of a plain run is an agreement between two executions: not decided. Its necessary
conditions that are visible in the code:

  STOP-AFTER-VALUE  in the interpreter loop, the early `return Ok(v)` for eval-up-to is reached only (a) after the step
                    (dominated by the call of eval_expr), (b) on the true edge of the comparison of Env.stop_at_expr_id
                    with the id of the expression just stepped, and (c) on the true edge of `done_subexpressions()`; and
                    `v` is the last of the current frame's evalled_values. Without (b) another expression's value is
                    reported, without (c) the expression's operands rather than its value.
  OBSERVED-USED     eval_up_to marks the observed expression as "value used" (set_observed_expr_value_used) with the very id
                    it then stores in Env.stop_at_expr_id, before any evaluation starts: otherwise a statement-position
                    expression pushes no value and (c)'s `last()` reports the value of an earlier expression.
  DONE-MEANS-VALUE  no path of eval_expr both marks the stepped expression done and schedules an unevaluated sub-expression
                    (what (c) relies on).
  EVERY-ARM-COMPLETES every expression kind's arm of eval_expr marks its entry done, schedules it again with a later state, or
                    always fails; otherwise the stop test can never fire for that kind.
  MARK-REACHES-ALL  the mutable visitor that places the value-used mark descends into every expression-bearing variant of Expression_.
  INNERMOST         the id is chosen by walking the ids found at the offset innermost-first (reversed iteration) and taking
                    the first that names an expression.
  STOP-ID-SCOPED    every path of eval_up_to that stored Some(id) in Env.stop_at_expr_id stores None again before it
                    returns (a left-over id makes the *next* eval-up-to of a function body stop at a stale expression when
                    the ids coincide, and every plain evaluation stop early).
Decides these clauses only.
"""
import json
from .. import mir as M
from .. import dflow as D
from .. import evalloop as EL

FIELD = "stop_at_expr_id"


def fp_of(f, op):
    r = f.root_of(op, through_named=True)
    for _ in range(3):
        if r[0] == "call" and (M.callee_name(r[2]) or "").endswith(("::as_ref", "::clone", "::copied", "::cloned")) and r[2]["args"]:
            r = f.root_of(r[2]["args"][0], through_named=True)
    if r[0] == "place":
        return r[1]["l"], list(f.field_path(r[1]))
    return None, []


def done_means_value(P, res, rule="DONE-MEANS-VALUE"):
    """a step of eval_expr that marks the expression it was given as done (`*expr_state = EvaluatedSubexpressions`) must not, on
    the same path, schedule a not-yet-evaluated sub-expression: the interpreter loop treats `done` as "the value is on the
    stack" (the stop-at-expression return of eval-up-to and of every session request reads it right after the step).
    Shared by C27 and C03 (a parenthesised chain marked done before its inner expression ran answers with a stale value)."""
    from . import c06 as _c06
    ev = P.require_fn("eval::eval_expr")
    st_param = [i for i in range(1, ev.argc + 1) if "ExpressionState" in ev.local_ty(i) and ev.local_ty(i).startswith("&mut")]
    if len(st_param) != 1:
        raise M.MissingAnchor("eval::eval_expr: the `&mut ExpressionState` parameter")
    marks = []
    for bi, b in enumerate(ev.blocks):
        for st in b["stmts"]:
            if st.get("s") == "assign" and st["place"]["l"] == st_param[0] and st["place"]["p"] == ["deref"]:
                r = ev.root_of(st["rv"]["a"]) if st["rv"]["k"] == "use" else ("rv", bi, 0, st)
                v = r[3]["rv"].get("variant") if r[0] == "rv" and r[3]["rv"]["k"] == "agg" else None
                marks.append((bi, v, st.get("span")))
    res.floor(rule, "assignments to *expr_state in eval_expr", len(marks), 5)
    sched = [bi for bi, t in ev.calls() if _c06.pushed_state(ev, t) == "NotEvaluated"]
    res.floor(rule, "pushes of NotEvaluated entries in eval_expr", len(sched), 10)
    bad = 0
    for bi, v, sp in marks:
        if v != "EvaluatedSubexpressions":
            if v is None:
                res.bad(rule, "eval::eval_expr # state-mark # unknown", "eval_expr stores a computed state into *expr_state; the rule cannot tell whether the step is done", ev.loc(sp))
                bad += 1
            continue
        after = D.reach_from(ev, [bi])
        before = {b for b in sched if bi in D.reach_from(ev, [b])}
        hit = [b for b in sched if b in after and b != bi] + sorted(before)
        same = [b for b in sched if b == bi]
        if hit or same:
            bad += 1
            arm = D.arm_label(ev, bi, enums={"Expression_", "ExpressionState"})
            res.bad(rule, "eval::eval_expr # %s # done-but-schedules" % arm,
                    "the %s arm marks the expression as done and, on the same path, schedules a sub-expression that has not run: the loop then "
                    "treats the previous top of the value stack as this expression's value (eval-up-to and every session request stop on it)" % arm, ev.loc(sp))
    if not bad:
        res.ok(rule, "no path of eval_expr both marks the expression done and schedules an unevaluated sub-expression (%d marks, %d schedules)" % (len(marks), len(sched)))


def every_arm_completes(P, res, rule="EVERY-ARM-COMPLETES"):
    """the stop test fires only on an entry whose state is `done`; an expression kind whose arm of eval_expr neither marks the
    entry done, nor schedules the expression again with a later state (itself or through an eval:: helper), nor always fails,
    is never seen as done: eval-up-to on such an expression runs on and reports the value of something else."""
    from . import c06 as _c06
    ev = P.require_fn("eval::eval_expr")
    st_param = [i for i in range(1, ev.argc + 1) if "ExpressionState" in ev.local_ty(i) and ev.local_ty(i).startswith("&mut")]
    top = None
    for sw in D.enum_switches(ev):
        if sw["ety"].endswith("Expression_") and (top is None or ev.rpo.index(sw["bb"]) < ev.rpo.index(top["bb"])):
            top = sw
    if top is None or len(st_param) != 1:
        raise M.MissingAnchor("eval::eval_expr: the match on Expression_ / the state parameter")
    allt = dict(top["by_target"])
    if top["otherwise_variants"]:
        allt[top["otherwise"]] = top["otherwise_variants"]

    def later_push(fn, depth=2):
        for bi, t in fn.calls():
            ps = _c06.pushed_state(fn, t)
            if ps is not None and ps != "NotEvaluated":
                return True
            n = M.callee_name(t) or ""
            if depth and n.startswith("eval::") and n in P.funcs and n != fn.path and later_push(P.funcs[n], depth - 1):
                return True
        return False
    n = 0
    for tgt, names in sorted(allt.items(), key=lambda x: x[1]):
        reg = D.edge_dominated(ev, top["bb"], tgt)
        marks = any(st.get("s") == "assign" and st["place"]["l"] == st_param[0] and st["place"]["p"] == ["deref"] for b in reg for st in ev.blocks[b]["stmts"])
        own = any(ev.blocks[b]["term"]["t"] == "call" and _c06.pushed_state(ev, ev.blocks[b]["term"]) not in (None, "NotEvaluated") for b in reg)
        helper = any(ev.blocks[b]["term"]["t"] == "call" and (M.callee_name(ev.blocks[b]["term"]) or "") in P.funcs and (M.callee_name(ev.blocks[b]["term"]) or "").startswith("eval::")
                     and later_push(P.funcs[M.callee_name(ev.blocks[b]["term"])]) for b in reg)
        rets = [b for b in reg if ev.blocks[b]["term"]["t"] in ("return", "goto")]
        builds_err = any(st.get("s") == "assign" and st["rv"]["k"] == "agg" and st["rv"].get("variant") == "Err" for b in reg for st in ev.blocks[b]["stmts"])
        scheds = any(ev.blocks[b]["term"]["t"] == "call" and _c06.pushed_state(ev, ev.blocks[b]["term"]) is not None for b in reg)
        for nm in names:
            n += 1
            key = "eval::eval_expr # Expression_::%s # never-done" % nm
            if marks or own or helper or (builds_err and not scheds):
                res.ok(rule, "Expression_::%s: %s" % (nm, "marks the entry done" if marks else "schedules itself again with a later state" if own or helper else "always an error"))
            else:
                res.bad(rule, key, "the %s arm of eval_expr never marks its entry done and never schedules it again: eval-up-to on a `%s` expression never stops "
                        "at it and reports the value of whatever runs last instead" % (nm, nm), ev.loc(ev.blocks[tgt]["term"].get("span") if ev.blocks[tgt]["stmts"] == [] else ev.blocks[tgt]["stmts"][0].get("span")))
    res.floor(rule, "arms of eval_expr's match on Expression_", n, 25)
    # the helpers those arms delegate to: a fallible stepper (returns Result<(), (RestoreValues, EvalError)>) that schedules its
    # expression again on some path must do so on every path that ends in Ok -- otherwise that path leaves the expression
    # neither pending nor done (a `while` whose condition has become false, a `for` over an exhausted list)
    nh = 0
    for p_, g in sorted(P.funcs.items()):
        if not p_.startswith("eval::") or "{closure" in p_ or p_ == ev.path or "RestoreValues" not in g.locals[0]["ty"] or not g.locals[0]["ty"].replace(" ", "").startswith("std::result::Result<(),"):
            continue
        evs = {bi: (1, 1) for bi, t in g.calls() if _c06.pushed_state(g, t) not in (None, "NotEvaluated")}
        # a local helper that schedules a later state on every one of its paths counts as doing so at its call
        for bi, t in g.calls():
            n2 = M.callee_name(t) or ""
            g2 = P.funcs.get(n2)
            if bi in evs or g2 is None or not n2.startswith("eval::") or n2 == p_:
                continue
            ev2 = {b2: (1, 1) for b2, t2 in g2.calls() if _c06.pushed_state(g2, t2) not in (None, "NotEvaluated")}
            if not ev2:
                continue
            r2 = D.event_ranges(g2, ev2)
            rets2 = [b2 for b2 in g2.reachable_blocks() if g2.blocks[b2]["term"]["t"] == "return"]
            if rets2 and all(r2.get(b2, (0, 0))[0] >= 1 for b2 in rets2):
                evs[bi] = (1, 1)
        if not evs:
            continue
        nh += 1
        rng = D.event_ranges(g, evs)
        oks = [b for b in g.reachable_blocks() for st in g.blocks[b]["stmts"] if st.get("s") == "assign" and st["place"]["l"] == 0 and not st["place"]["p"]
               and st["rv"]["k"] == "agg" and st["rv"].get("variant") == "Ok"]
        short = [b for b in oks if rng.get(b, (0, 0))[0] < 1]
        if short:
            res.bad(rule, "%s # ok-path-without-reschedule" % p_, "%s can return Ok without scheduling its expression again (as pending or as done): on that path the "
                    "expression is never seen in a `done` state and eval-up-to runs past it" % p_, g.loc(g.blocks[short[0]]["stmts"][0].get("span")))
        else:
            res.ok(rule, "%s: every Ok path schedules the expression again (%d Ok exits)" % (p_, len(oks)))
    res.extra["fallible_stepper_helpers"] = nh      # no floor: inlining such a helper into its arm moves the obligation to the arm rule above


CHILD_TYPES = ("parser::ast::Expression", "parser::ast::Block", "parser::ast::FunInfo", "parser::ast::ParenthesizedArguments",
               "parser::ast::ParenthesizedExpression", "parser::ast::DictKeyValue", "parser::ast::ExpressionWithComma")


def mark_reaches_all(P, res, rule="MARK-REACHES-ALL"):
    """the value-used mark is put on the observed expression by a MutVisitor walk; the default `visit_expr_` must descend into
    every variant of Expression_ that can contain an expression (closure bodies included), or an observed expression
    inside such a variant keeps `value_is_used == false`, pushes nothing, and a stale value is reported."""
    adt = P.adts.get("parser::ast::Expression_")
    if adt is None:
        raise M.MissingAnchor("enum parser::ast::Expression_")
    nonleaf = {v["name"] for v in adt["variants"] if any(any(c in str(fl.get("ty", "")) for c in CHILD_TYPES) for fl in v.get("fields", []))}
    g = P.require_fn("parser::visitor::MutVisitor::visit_expr_")
    top = None
    for sw in D.enum_switches(g):
        if sw["ety"].endswith("Expression_") and (top is None or g.rpo.index(sw["bb"]) < g.rpo.index(top["bb"])):
            top = sw
    if top is None:
        raise M.MissingAnchor("MutVisitor::visit_expr_: the match on Expression_")
    allt = dict(top["by_target"])
    if top["otherwise_variants"]:
        allt[top["otherwise"]] = top["otherwise_variants"]
    n = 0
    for tgt, names in allt.items():
        reg = D.reach_from(g, [tgt])      # arms meet again only at the function's end (or-patterns share a body)
        visits = [b for b in reg if g.blocks[b]["term"]["t"] == "call" and "Visitor::visit_" in (M.callee_name(g.blocks[b]["term"]) or "")]
        for nm in names:
            if nm not in nonleaf:
                continue
            n += 1
            if visits:
                res.ok(rule, "MutVisitor::visit_expr_ descends into Expression_::%s" % nm)
            else:
                res.bad(rule, "parser::visitor::MutVisitor::visit_expr_ # Expression_::%s # not-visited" % nm,
                        "the mutable visitor treats Expression_::%s as a leaf although it contains expressions: eval-up-to cannot mark an observed expression "
                        "inside it as used, so it pushes no value and the previous value on the stack is reported" % nm, g.loc())
    res.floor(rule, "expression-bearing variants of Expression_", n, 18)


def run(ctx, res):
    P = ctx.P
    L = EL.locate(P)
    f = L.f
    done_means_value(P, res)
    every_arm_completes(P, res)
    mark_reaches_all(P, res)
    # ---- STOP-AFTER-VALUE
    id_sw = None
    for sw in D.bool_switches(f):
        r = sw["root"]
        if r[0] != "call" or not (M.callee_name(r[2]) or "").endswith("PartialEq>::eq"):
            continue
        sides = [fp_of(f, a)[1][-1:] for a in r[2]["args"]]
        if [FIELD] in sides and ["caller_expr_id"] not in sides:
            id_sw = sw
    if id_sw is None:
        raise M.MissingAnchor("eval::eval: the comparison of Env.stop_at_expr_id with the stepped expression's id")
    done_sw = None
    for sw in D.bool_switches(f):
        r = sw["root"]
        if r[0] == "call" and (M.callee_name(r[2]) or "").endswith("ExpressionState::done_subexpressions"):
            if sw["bb"] in D.edge_dominated(f, id_sw["bb"], id_sw["true"]):
                done_sw = sw
    # the early returns: blocks in the id-true region that assign _0 = Ok(..) and reach `return` without leaving the region's exits through the loop
    region = D.edge_dominated(f, id_sw["bb"], id_sw["true"])
    lasts = [bi for bi, t in f.calls() if bi in region and (M.callee_name(t) or "").endswith("::last") and fp_of(f, t["args"][0])[1][-1:] == ["evalled_values"]]
    res.floor("STOP-AFTER-VALUE", "`evalled_values.last()` reads in the stop branch", len(lasts), 1)
    if not f.dominates(L.step_bb, id_sw["bb"]):
        res.bad("STOP-AFTER-VALUE", "eval::eval # before-step", "the stop-at-expression test is not preceded by the step on every path: a value is reported for an expression that has not been evaluated",
                f.loc(f.blocks[id_sw["bb"]]["term"].get("span")))
    else:
        res.ok("STOP-AFTER-VALUE", "the stop test is dominated by the call of eval_expr")
    if done_sw is None:
        res.bad("STOP-AFTER-VALUE", "eval::eval # no-done-test", "inside the stop branch there is no `done_subexpressions()` test", f.loc(f.blocks[id_sw["bb"]]["term"].get("span")))
    else:
        dreg = D.edge_dominated(f, done_sw["bb"], done_sw["true"])
        bad = [b for b in lasts if b not in dreg]
        if bad:
            res.bad("STOP-AFTER-VALUE", "eval::eval # value-before-done", "the reported value is read on a path where the expression's sub-expressions are not done yet",
                    f.loc(f.blocks[bad[0]]["term"].get("span")))
        else:
            res.ok("STOP-AFTER-VALUE", "the reported value is read under stop id == stepped id and done_subexpressions()")
    # the compared id is the stepped expression's id
    r = id_sw["root"]
    other = [a for a in r[2]["args"] if fp_of(f, a)[1][-1:] != [FIELD]]
    ok_id = False
    for a in other:
        rr = f.root_of(a, through_named=True)
        txt = json.dumps(rr[3]["rv"]) if rr[0] == "rv" else json.dumps(rr[1]) if rr[0] == "place" else ""
        if '"name": "id"' in txt:
            ok_id = True
        if rr[0] == "rv" and rr[3]["rv"]["k"] == "agg":
            for o in rr[3]["rv"]["ops"]:
                l_, fp_ = fp_of(f, o)
                if fp_[-1:] == ["id"]:
                    ok_id = True
    if ok_id:
        res.ok("STOP-AFTER-VALUE", "the id compared with is the `id` of the expression popped for this step")
    else:
        res.bad("STOP-AFTER-VALUE", "eval::eval # compared-id", "Env.stop_at_expr_id is compared with something other than the stepped expression's id", f.loc(f.blocks[id_sw["bb"]]["term"].get("span")))

    # ---- OBSERVED-USED / INNERMOST / STOP-ID-SCOPED
    g = P.require_fn("eval::eval_up_to")
    marks = [(bi, t) for bi, t in g.calls() if (M.callee_name(t) or "").endswith("set_observed_expr_value_used")]
    stores = []     # (bb, is_some, operand)
    for bi, b in enumerate(g.blocks):
        for st in b["stmts"]:
            if st.get("s") != "assign":
                continue
            fp = g.field_path(st["place"])
            if fp[-1:] == [FIELD]:
                rv = st["rv"]
                some = rv["k"] == "agg" and rv.get("variant") == "Some"
                if rv["k"] == "use":
                    rr = g.root_of(rv["a"], through_named=True)
                    if rr[0] == "rv" and rr[3]["rv"]["k"] == "agg":
                        some = rr[3]["rv"].get("variant") == "Some"
                        rv = rr[3]["rv"]
                stores.append((bi, some, rv))
    somes = [s for s in stores if s[1]]
    nones = [s for s in stores if not s[1]]
    res.floor("STOP-ID-SCOPED", "stores of Some(id) to Env.stop_at_expr_id in eval_up_to", len(somes), 4)
    if len(marks) != 1:
        res.bad("OBSERVED-USED", "eval::eval_up_to # mark", "expected one call of set_observed_expr_value_used in eval_up_to, found %d" % len(marks), g.loc())
    else:
        mb, mt = marks[0]
        mid = g.root_of(mt["args"][1], through_named=True)
        mloc = mid[1]["l"] if mid[0] == "place" else None
        okm = True
        for bi, some, rv in somes:
            if not g.dominates(mb, bi):
                okm = False
                res.bad("OBSERVED-USED", "eval::eval_up_to # mark-after-store", "Env.stop_at_expr_id is set on a path that has not marked the observed expression's value as used", g.loc())
                break
            ids = [g.root_of(o, through_named=True) for o in rv.get("ops", [])]
            if not any(x[0] == "place" and x[1]["l"] == mloc for x in ids):
                okm = False
                res.bad("OBSERVED-USED", "eval::eval_up_to # other-id", "the id marked as used and the id stored in Env.stop_at_expr_id are different values", g.loc())
                break
        if okm:
            res.ok("OBSERVED-USED", "set_observed_expr_value_used(items, id) dominates every `stop_at_expr_id = Some(id)` with the same id (%d stores)" % len(somes))
    names = [M.callee_name(t) or "" for _, t in g.calls()]
    if any(n.endswith("Iterator::rev") or "Rev<" in n for n in names) and any(n.endswith("find_expr_of_id") for n in names):
        res.ok("INNERMOST", "eval_up_to tries the ids at the offset innermost-first")
    else:
        res.bad("INNERMOST", "eval::eval_up_to # order", "eval_up_to no longer walks the ids found at the offset in reverse (innermost first)", g.loc())
    # every Some store is followed by a None store on every path to a return
    rets = [bi for bi in g.reachable_blocks() if g.blocks[bi]["term"]["t"] == "return"]
    none_bbs = [s[0] for s in nones]
    bad = 0
    for bi, some, rv in somes:
        r_ = D.reach_from(g, g.succ[bi], avoid_blocks=none_bbs)
        if any(x in r_ for x in rets):
            bad += 1
            res.bad("STOP-ID-SCOPED", "eval::eval_up_to # left-set", "a path returns from eval_up_to with Env.stop_at_expr_id still set", g.loc(g.blocks[bi]["term"].get("span")))
    if not bad:
        res.ok("STOP-ID-SCOPED", "every `stop_at_expr_id = Some(id)` in eval_up_to is followed by `= None` on every path to a return (%d stores)" % len(somes))
    res.explanation = (
        "Structural clauses of C27 on MIR: dominance of the early return in the interpreter loop by the step, by the true edge of the id "
        "comparison and by the true edge of done_subexpressions(); provenance of the reported value (evalled_values.last()) and of the "
        "compared id; in eval_up_to, the value-used mark dominates the stop-id stores with the same id, ids are tried innermost-first, and "
        "the stop id is cleared on every path. Not decided: that the value so reported equals the value in a plain run (argument reuse from "
        "prev_call_args, loops, the for-in special case), nor when an error is reported.")
    res.assumptions += ["pos_to_id::find_item_at lists enclosing items outermost first (its reversed walk is what makes the first hit innermost)"]
