"""C25 Sandboxed runs always finish within their step budget (structural clauses).

  CONFIG-DOM   both sandbox entry points store tick_limit = Some(_) and stack_limit = Some(_) before
               any call that can reach eval::eval.
  LIMIT-DOM    in eval::eval every path from the loop head to the step (eval_expr) passes the
               comparison ticks >= tick_limit (resp. stack depth > stack_limit) on its false edge
               whenever the limit is Some; the true edge returns the limit error without stepping.
  TICK-INCR    ticks is incremented on every iteration before the comparison.
  FRAME-PUSH   reachable from eval::eval, call frames are pushed only in eval::eval's loop, after a step.
  BLOCKING     blocking std calls reachable from eval::eval sit behind an enforce_sandbox guard.
  NATIVE-LOOPS (thorough) every native loop reachable from eval::eval is iterator-driven or in the
               reviewed table.
  VALUE-RECURSION (thorough) native recursion over runtime values reachable from the sandbox
               entry points (depth bounded only by value nesting).
"""
import json, os, re
from .. import mir as M
from .. import dflow as D
from .. import sandbox as S
from .. import evalloop as EL
from ..core import VERIF

BLOCKING_RE = re.compile(
    r"^std::io::Stdin::(read_line|lines|lock)$|^<std::io::(Stdin|StdinLock)<?.* as std::io::(Read|BufRead)>::"
    r"|^std::process::Command::(output|status|spawn)$|^std::process::Child::(wait|wait_with_output)$"
    r"|^std::thread::sleep$|^std::thread::park|^std::sync::mpsc::Receiver::<T>::(recv|recv_timeout|iter)$"
    r"|^std::thread::JoinHandle::<T>::join$|^std::net::TcpListener::accept$|^std::net::TcpStream::connect"
    r"|^std::sync::(Condvar|Barrier)::"
    # reading a path the program chose can block for ever (FIFO without a writer, /dev/stdin, /dev/zero)
    r"|^std::fs::(read|read_to_string)$|^std::fs::File::open$|^std::fs::OpenOptions::open$")


def payload_local(f, op, field):
    """True if op is (a copy of) the payload of Some(..) stored in <x>.<field>."""
    r = f.root_of(op)
    if r[0] != "place":
        return False
    p = r[1]
    cand = [p]
    if not p["p"]:
        for (bi, si, st) in f.defs.get(p["l"], []):
            if si != "term" and st["rv"]["k"] == "use":
                q = M.op_place(st["rv"]["a"])
                if q:
                    cand.append(q)
    for q in cand:
        names = [e.get("name") if isinstance(e, dict) else e for e in q["p"]]
        if field in names and any(isinstance(e, dict) and e.get("downcast") == "Some" for e in q["p"]):
            return True
    return False


def place_ends(f, op, fields):
    r = f.root_of(op)
    if r[0] == "place":
        names = [e.get("name") for e in r[1]["p"] if isinstance(e, dict) and "name" in e]
        return names[-len(fields):] == list(fields)
    return False


def is_len_of(f, op, fields):
    """op is Vec::len(&<x>.<fields...>)."""
    r = f.root_of(op)
    if r[0] == "call" and (M.callee_name(r[2]) or "").endswith("::len") and r[2]["args"]:
        return place_ends(f, r[2]["args"][0], fields)
    return False


def limit_dom_helper(res, L, field, lhs_check, ops, err_variant, key):
    """the same obligation when the limit tests live in a helper called once per iteration: the call dominates the step,
    its `stop` result never reaches the step, and inside the helper the true edge of the comparison can only produce the
    stop result carrying the limit error. Returns ('helper', call bb) on success, None when no such helper exists."""
    f = L.f
    P = L.P if hasattr(L, "P") else None
    for bi in sorted(L.pre_region):
        t = f.blocks[bi]["term"]
        if t["t"] != "call" or t.get("target") is None:
            continue
        gname = M.callee_name(t) or ""
        g = P.funcs.get(gname) if P is not None else None
        if g is None or not any("env::Env" in str(a) for a in (t.get("argtys") or [])):
            continue
        s1 = None
        for gb in g.reachable_blocks():
            gt = g.blocks[gb]["term"]
            if gt["t"] != "switch":
                continue
            r = g.root_of(gt["discr"])
            if r[0] == "rv" and r[3]["rv"]["k"] == "discr":
                names = [e.get("name") for e in r[3]["rv"]["place"]["p"] if isinstance(e, dict) and "name" in e]
                if names and names[-1] == field:
                    s1 = (gb, gt)
        if s1 is None:
            continue
        if not f.dominates(bi, L.step_bb):
            res.bad("LIMIT-DOM", key + " # helper-not-dominating", "the call of %s (which tests Env.%s) does not dominate the call of eval_expr" % (gname, field), f.loc(t["span"]))
            return ("helper", bi)
        # caller side: which result continues to the step?
        dest = t["dest"]["l"]
        cont_names = None
        stop_tgts = []
        tb = D.try_continue_block(f, bi)
        if tb is not None:
            cont_names = {"Ok", "None"}     # `?` continues on Ok (Result) -- Option<Err> helpers are not used with `?`
            swt = f.blocks[tb[0]]["term"]
            stop_tgts = [b2 for v, b2 in swt["targets"] if v != 0] + ([swt["otherwise"]] if swt.get("otherwise") is not None else [])
            stop_tgts = [b for b in stop_tgts if b != tb[1]]
        else:
            for sw in D.enum_switches(f):
                if sw["place"]["l"] == dest and not sw["place"]["p"] and sw["bb"] in L.pre_region | {t["target"]}:
                    allt = dict(sw["by_target"])
                    if sw["otherwise_variants"]:
                        allt[sw["otherwise"]] = sw["otherwise_variants"]
                    for tgt, names in allt.items():
                        r_ = D.reach_from(f, [tgt], avoid_blocks=[L.pop_bb])
                        if L.step_bb in r_:
                            cont_names = set(names) if cont_names is None else cont_names | set(names)
                        else:
                            stop_tgts.append(tgt)
        if cont_names is None or not stop_tgts:
            res.bad("LIMIT-DOM", key + " # helper-result-unused", "the result of %s does not decide whether eval_expr is called" % gname, f.loc(t["span"]))
            return ("helper", bi)
        # helper side
        sb, st = s1
        some = EL.variant_edge(g, st, "Some")
        inside = D.edge_dominated(g, sb, some) if some is not None else set()
        s2 = None
        for gb in sorted(inside):
            gt = g.blocks[gb]["term"]
            if gt["t"] != "switch" or gt["dty"] != "bool":
                continue
            r = g.root_of(gt["discr"])
            if r[0] == "rv" and r[3]["rv"]["k"] == "binop" and r[3]["rv"]["op"] in ops:
                rv = r[3]["rv"]
                if lhs_check(g, rv["a"]) and payload_local(g, rv["b"], field):
                    s2 = (gb, gt, rv["op"])
                    break
        if s2 is None:
            res.bad("LIMIT-DOM", key + " # no-comparison", "%s: on the Some edge of Env.%s there is no comparison `<counter> %s <limit>`" % (gname, field, "/".join(ops)), g.loc(st["span"]))
            return ("helper", bi)
        cb, ct, op = s2
        ft, tt = EL.bool_edges(ct)
        tre = D.reach_from(g, [tt])
        makes_cont = [b for b in tre for s_ in g.blocks[b]["stmts"] if s_["s"] == "assign" and s_["rv"]["k"] == "agg"
                      and s_["rv"].get("variant") in cont_names and not s_["place"]["p"] and s_["place"]["l"] == 0]
        if makes_cont or EL.builds_variant(g, tre, err_variant) is None:
            res.bad("LIMIT-DOM", key + " # no-stop", "%s: the true edge of the limit comparison can return the `continue` result or does not build EvalError::%s" % (gname, err_variant), g.loc(ct["span"]))
            return ("helper", bi)
        # the helper is reached with the same Env on every iteration and the comparison is not skipped when the limit is Some
        r_some = D.reach_from(g, [some], avoid_edges=[(cb, ft), (cb, tt)])
        if any(g.blocks[b]["term"]["t"] == "return" for b in r_some):
            res.bad("LIMIT-DOM", key + " # bypass", "%s can return from the Some edge of Env.%s without making the comparison" % (gname, field), g.loc(ct["span"]))
            return ("helper", bi)
        res.ok("LIMIT-DOM", "%s: tested in %s, called before every step; %s(counter, limit) true edge returns %s and never the continue result" % (key, gname, op, err_variant))
        return ("helper", bi)
    return None


def limit_dom(res, L, field, lhs_check, ops, err_variant):
    f = L.f
    s1 = None
    for bi in sorted(L.pre_region):
        t = f.blocks[bi]["term"]
        if t["t"] != "switch":
            continue
        r = f.root_of(t["discr"])
        if r[0] == "rv" and r[3]["rv"]["k"] == "discr":
            pl = r[3]["rv"]["place"]
            names = [e.get("name") for e in pl["p"] if isinstance(e, dict) and "name" in e]
            if names and names[-1] == field:
                s1 = (bi, t)
    key = "eval::eval # %s" % field
    if s1 is None:
        hv = limit_dom_helper(res, L, field, lhs_check, ops, err_variant, key)
        if hv is not None:
            return hv
        res.bad("LIMIT-DOM", key + " # no-test", "eval::eval never tests Env.%s between the loop head and the step" % field, f.loc())
        return
    sb, st = s1
    if not f.dominates(sb, L.step_bb):
        res.bad("LIMIT-DOM", key + " # not-dominating",
                "the test of Env.%s does not dominate the call of eval_expr (some path steps without consulting the limit)" % field,
                f.loc(st["span"]))
        return
    some = EL.variant_edge(f, st, "Some")
    inside = D.edge_dominated(f, sb, some)
    s2 = None
    for bi in sorted(inside):
        t = f.blocks[bi]["term"]
        if t["t"] != "switch" or t["dty"] != "bool":
            continue
        r = f.root_of(t["discr"])
        if r[0] == "rv" and r[3]["rv"]["k"] == "binop" and r[3]["rv"]["op"] in ops:
            rv = r[3]["rv"]
            if lhs_check(f, rv["a"]) and payload_local(f, rv["b"], field):
                s2 = (bi, t, rv["op"])
                break
    if s2 is None:
        res.bad("LIMIT-DOM", key + " # no-comparison",
                "on the Some edge of Env.%s there is no comparison `<counter> %s <limit>` guarding the step" % (field, "/".join(ops)),
                f.loc(st["span"]))
        return
    cb, ct, op = s2
    ft, tt = EL.bool_edges(ct)
    # every path from the Some edge to the step takes the false edge of the comparison
    r = D.reach_from(f, [some], avoid_edges=[(cb, ft)])
    if L.step_bb in r:
        res.bad("LIMIT-DOM", key + " # bypass",
                "eval_expr is reachable from the Some edge of Env.%s without taking the false edge of the limit comparison" % field,
                f.loc(ct["span"]))
        return
    tre = D.reach_from(f, [tt], avoid_blocks=[L.pop_bb])
    if L.step_bb in tre or EL.builds_variant(f, tre, err_variant) is None:
        res.bad("LIMIT-DOM", key + " # no-stop",
                "the true edge of the limit comparison does not stop with EvalError::%s before stepping" % err_variant,
                f.loc(ct["span"]))
        return
    res.ok("LIMIT-DOM", "%s: %s(counter, limit) false-edge dominates eval_expr; true edge returns %s" % (key, op, err_variant))
    res.sample({"rule": "LIMIT-DOM", "field": field, "test_bb": sb, "cmp_bb": cb, "op": op, "step_bb": L.step_bb,
                "line": ct["span"]["line"]})
    return cb


def run(ctx, res):
    P = ctx.P
    L = EL.locate(P)
    L.P = P
    f = L.f
    reach = P.reachable(["eval::eval"], rta=False)
    E = P.edges()

    # ---- LIMIT-DOM ---------------------------------------------------------------
    tick_cmp = limit_dom(res, L, "tick_limit", lambda f, a: place_ends(f, a, ["ticks"]), ("Ge", "Gt"), "ReachedTickLimit")
    limit_dom(res, L, "stack_limit", lambda f, a: is_len_of(f, a, ["stack", "0"]), ("Gt", "Ge"), "ReachedStackLimit")

    # ---- TICK-INCR -----------------------------------------------------------------
    incr = []
    for bi in sorted(L.pre_region):
        for s in f.blocks[bi]["stmts"]:
            if s["s"] != "assign":
                continue
            pp = s["place"]["p"]
            if pp and isinstance(pp[-1], dict) and pp[-1].get("name") == "ticks" and pp[-1].get("adt") == "env::Env":
                r = f.root_of(s["rv"].get("a")) if s["rv"]["k"] == "use" else ("rvx",)
                # value is (AddWithOverflow(ticks, k)).0 or Add(ticks, k)
                src = M.op_place(s["rv"].get("a")) if s["rv"]["k"] == "use" else None
                okv = False
                if src is not None:
                    d = f.single_def(src["l"])
                    if d and d[1] != "term" and d[2]["rv"]["k"] == "binop" and d[2]["rv"]["op"] in ("AddWithOverflow", "Add", "AddUnchecked"):
                        rv = d[2]["rv"]
                        k = D.const_int(f, rv["b"])
                        if place_ends(f, rv["a"], ["ticks"]) and k is not None and k >= 1:
                            okv = True
                if s["rv"]["k"] == "binop" and s["rv"]["op"] in ("Add",):
                    k = D.const_int(f, s["rv"]["b"])
                    okv = place_ends(f, s["rv"]["a"], ["ticks"]) and k is not None and k >= 1
                incr.append((bi, okv, s["span"]))
    good = [bi for bi, okv, _ in incr if okv and f.dominates(bi, L.step_bb) and f.dominates(L.some_bb, bi)]
    if isinstance(tick_cmp, tuple):
        tick_cmp = tick_cmp[1]      # the limit is compared inside a helper: the increment must dominate its call
    if tick_cmp is not None:
        good = [bi for bi in good if f.dominates(bi, tick_cmp)]
    if good:
        res.ok("TICK-INCR", "eval::eval: ticks += k (k>=1) dominates the limit comparison and the step, inside the loop")
    else:
        res.bad("TICK-INCR", "eval::eval # ticks",
                "no `env.ticks += k` (k >= 1) dominates the tick-limit comparison and the step on every loop iteration", f.loc())
    bad_stores = [x for x in incr if not x[1]]
    for bi, okv, sp in bad_stores:
        res.bad("TICK-INCR", "eval::eval # ticks-other-store", "Env.ticks is assigned something other than ticks + k", f.loc(sp))
    # nobody else reachable from eval writes ticks (a reset would defeat the budget)
    for p, ws in sorted(S.field_stores(P, "ticks").items()):
        if p != "eval::eval" and p in reach:
            res.bad("TICK-INCR", "%s # writes ticks" % p,
                    "a function reachable from eval::eval other than the loop itself writes Env.ticks", P.funcs[p].loc(ws[0][3]))
    res.ok("TICK-INCR", "writers of Env.ticks reachable from eval: only eval::eval")

    # ---- FRAME-PUSH ----------------------------------------------------------------
    n_push = 0
    for p in sorted(reach):
        g = P.funcs[p]
        for bi, t in g.calls():
            n = M.callee_name(t) or ""
            c = t.get("callee") or {}
            if n.endswith("Vec::<T, A>::push") and "env::StackFrame" in c.get("args", ""):
                n_push += 1
                key = "%s # push StackFrame" % p
                if p != "eval::eval":
                    res.bad("FRAME-PUSH", key, "a call frame is pushed outside eval::eval's loop in code reachable from eval::eval "
                            "(the stack-limit check would not see it)", g.loc(t["span"]))
                elif not f.dominates(L.step_bb, bi):
                    res.bad("FRAME-PUSH", key + " # not-after-step", "frame push in eval::eval is not dominated by the step "
                            "(a push without a preceding limit check in the same iteration)", g.loc(t["span"]))
                else:
                    res.ok("FRAME-PUSH", key + " (after the step, next iteration re-checks the limit)")
    res.floor("FRAME-PUSH", "StackFrame pushes reachable from eval", n_push, 1)

    # ---- CONFIG-DOM ------------------------------------------------------------------
    reaches_eval, rev = S.reverse_reach(P, "eval::eval")
    sand = S.field_stores(P, "enforce_sandbox")
    entry = sorted(p for p, ws in sand.items() if any(M.op_const(w[2].get("a")) and M.op_const(w[2]["a"]).get("v") is True
                                                   for w in ws if w[2]["k"] == "use"))
    res.floor("CONFIG-DOM", "sandbox entry points", len(entry), 2)
    for field in ("tick_limit", "stack_limit"):
        st = S.field_stores(P, field)
        for p in entry:
            g = P.funcs[p]
            def is_some(rv):
                if rv["k"] == "use":
                    r = g.root_of(rv["a"])
                    if r[0] == "rv":
                        rv = r[3]["rv"]
                return rv["k"] == "agg" and rv.get("variant") == "Some"
            somes = [(bi, si) for (bi, si, rv, sp) in st.get(p, []) if is_some(rv)]
            nones = [(bi, si, sp) for (bi, si, rv, sp) in st.get(p, []) if not is_some(rv)]
            if not somes:
                res.bad("CONFIG-DOM", "%s # %s" % (p, field),
                        "sandbox entry point never sets Env.%s = Some(_)" % field, g.loc())
                continue
            for (bi, si, sp) in nones:
                res.bad("CONFIG-DOM", "%s # %s # non-Some store" % (p, field),
                        "sandbox entry point stores a value other than Some(_) into Env.%s" % field, g.loc(sp))
            for kind, tgt, cb in E.get(p, []):
                if kind == "live" or tgt not in reaches_eval:
                    continue
                key = "%s # %s before call %s" % (p, field, tgt)
                if any(g.dominates(bi, cb) for (bi, si) in somes):
                    res.ok("CONFIG-DOM", key)
                else:
                    res.bad("CONFIG-DOM", key,
                            "call to %s (can reach eval::eval) is not dominated by the store %s = Some(_)" % (tgt, field),
                            g.loc(g.blocks[cb]["term"]["span"]))
        for p, ws in sorted(st.items()):
            if p in reach:
                res.bad("CONFIG-DOM", "%s # writes %s" % (p, field),
                        "a function reachable from eval::eval writes Env.%s" % field, P.funcs[p].loc(ws[0][3]))

    # ---- BLOCKING ----------------------------------------------------------------------
    allow = json.load(open(os.path.join(VERIF, "tables", "c25_blocking_allow.json")))["allow"]
    sites, effn, direct = S.classify(P, reach, lambda n: bool(BLOCKING_RE.search(n)))
    for x in sites:
        if x["status"] in ("guarded", "chain-guarded"):
            res.ok("BLOCKING", x["key"], x["status"])
        elif x["key"] in allow:
            if x["key"] == "eval::read_src # - # std::fs::read" and not S.read_src_regular_guard(P)[0]:
                res.bad("BLOCKING", x["key"] + " # allow-shape", "the allowlisted file read can only be excused as non-blocking while read_src refuses "
                        "everything but regular files (FIFOs and devices such as /dev/stdin block for ever): %s" % S.read_src_regular_guard(P)[1],
                        "%s:%d" % (x["term"]["span"]["file"], x["term"]["span"]["line"]))
                continue
            res.ok("BLOCKING", x["key"], "allowlisted: " + allow[x["key"]][:60])
        else:
            res.bad("BLOCKING", x["key"],
                    "blocking call %s is reachable from eval::eval without an enforce_sandbox guard (path: %s)" %
                    (x["callee"], " -> ".join(x["chain"])), "%s:%d" % (x["term"]["span"]["file"], x["term"]["span"]["line"]))
    res.floor("BLOCKING", "blocking call sites reachable from eval", len(sites), 2)

    # "it doesn't crash": the no-panic inventory over everything the two sandbox entry points can execute
    from .. import panicinv as PI
    PI.run(ctx, res, ["sandbox"], floor_fns=560, floor_sites=380, label="PANIC-INV")
    # native loops and native recursion inside one interpreter step are outside the tick budget: inventory them
    # (cheap, so it runs in both tiers)
    from . import c25_thorough
    c25_thorough.run(ctx, res, reach)

    res.extra.update({"functions_analysed": len(reach), "roots": ["eval::eval"] + entry})
    res.explanation = (
        "Structural clauses of the step-budget property, decided on the MIR CFG of eval::eval and the call graph below it: "
        "both limits are tested on every path from the loop head to the step (edge-removal reachability: with the false edge "
        "of the comparison deleted the step is unreachable), the counter is incremented on every iteration, frames are pushed "
        "only after a checked step, the entry points configure both limits before anything that reaches eval, and blocking std "
        "calls are behind the sandbox guard. NATIVE-LOOPS / RECURSION inventory every loop that is not driven by an iterator over a finite collection and every recursive component, against reviewed tables. "
        "Decides these necessary conditions, not wall-clock time of a single step.")
    res.assumptions += ["a single native step (one eval_expr call) terminates; native loops/recursion are inventoried (NATIVE-LOOPS, RECURSION)",
                        "the blocking-API table lists stdin reads, process waits, sleeps, channel receives, joins, accepts"]
