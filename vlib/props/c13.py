"""C13 `==` is structural equality on values (coverage clauses).

  DIAGONAL-COVER  `impl PartialEq for Value_`: every variant of Value_ (except the reviewed exception table)
                  has a diagonal arm (V, V) ahead of the catch-all `_ => false`.
  FIELD-COVER     each diagonal arm of a literal-syntax variant is a conjunction of `a == b` comparisons in
                  which a and b are bound to the *same* field on the two sides, and the value-carrying fields
                  of the variant are all compared (type-cache fields are exempt).
  NE              no hand-written `ne`; eval_equality_binop maps Equal to `lhs == rhs` and NotEqual to `lhs != rhs`.
  WRAPPER         Value derives PartialEq (delegates to Value_); BlockBindings reference-equality is confined to closures.
"""
from .. import shape as S
from .. import mir as M
from .. import dflow as D

FILE = "src/values.rs"
# variants that need no diagonal arm, with the reason
NO_ARM_OK = {
    "Namespace": "a namespace value has no literal syntax; comparing two namespace values is False by design of the catch-all",
}
# literal-syntax class and the fields that carry the value (must all be compared)
VALUE_FIELDS = {
    "Int": ["0"], "Float": ["0"], "String": ["0"],
    "List": ["items"], "Tuple": ["items"], "Dict": ["items"],
    "EnumVariant": ["variant_idx", "payload"],
    "Struct": ["fields"],
}
# which user type a value belongs to is part of the value: variant #0 of one enum is not variant #0 of another
# (`None == False`), and two structs with the same field list but different types differ. At least one of the
# identity fields must be compared.
IDENTITY_FIELDS = {"EnumVariant": ["runtime_type", "type_name"], "Struct": ["runtime_type", "type_name"]}


def conjuncts(e):
    if e["k"] == "Binary" and e["op"] == "&&":
        return conjuncts(e["l"]) + conjuncts(e["r"])
    return [e]



def context_free_types(P, res):
    """CONTEXT-FREE-TYPE: the hidden identity fields that `==` compares (runtime_type) are computed from the literal alone.
    In every function that reads the current frame's `type_bindings` and builds a Value_ / Type, nothing derived from
    those bindings flows into the built value: the same literal evaluated in a generic function and at the top level must
    be the same value."""
    from .. import mir as M2
    n = 0
    for p_, f in sorted(P.funcs.items()):
        if p_.endswith(("::clone", "::fmt")) or not p_.startswith("eval::"):
            continue
        tainted = set()

        def place_reads_tb(pl):
            return any(isinstance(e, dict) and e.get("name") == "type_bindings" and e.get("adt") == "env::StackFrame" for e in pl["p"])

        def op_tainted(op):
            q = M2.op_place(op)
            return q is not None and (q["l"] in tainted or place_reads_tb(q))
        sinks = []
        for b in f.blocks:
            for st in b["stmts"]:
                if st.get("s") == "assign" and st["rv"]["k"] == "agg" and st["rv"].get("adt") in ("values::Value_", "garden_type::Type"):
                    sinks.append(st)
        reads = any(place_reads_tb(q) for b in f.blocks for st in b["stmts"] if st.get("s") == "assign"
                    for q in [st["rv"].get("place") or M2.op_place(st["rv"].get("a", {})) or {"p": []}]) or \
            any(place_reads_tb(M2.op_place(a) or {"p": []}) for b in f.blocks if b["term"]["t"] == "call" for a in b["term"]["args"])
        if not reads or not sinks:
            continue
        n += 1
        ch = True
        rounds = 0
        while ch and rounds < 50:
            ch = False
            rounds += 1
            for b in f.blocks:
                for st in b["stmts"]:
                    if st.get("s") != "assign":
                        continue
                    rv = st["rv"]
                    src_t = False
                    if rv["k"] in ("use", "cast", "unop") and "a" in rv:
                        src_t = op_tainted(rv["a"])
                    elif rv["k"] in ("ref", "rawptr", "discr"):
                        src_t = rv["place"]["l"] in tainted or place_reads_tb(rv["place"])
                    elif rv["k"] == "agg":
                        src_t = any(op_tainted(o) for o in rv.get("ops", []))
                    elif rv["k"] == "binop":
                        src_t = op_tainted(rv["a"]) or op_tainted(rv["b"])
                    if src_t and st["place"]["l"] not in tainted:
                        tainted.add(st["place"]["l"])
                        ch = True
                t = b["term"]
                if t["t"] == "call" and any(op_tainted(a) for a in t["args"]):
                    # the result, and a collection receiver that takes the tainted value (`v.push(x)`, `m.insert(k, x)`)
                    tg = []
                    if t.get("dest") is not None:
                        tg.append(t["dest"]["l"])
                    n_ = M2.callee_name(t) or ""
                    if n_.endswith(("::push", "::insert", "::extend", "::push_back_mut", "::insert_mut")) and t["args"]:
                        q0 = M2.op_place(t["args"][0])
                        d0 = f.single_def(q0["l"]) if q0 is not None and not q0["p"] else None
                        if d0 is not None and d0[1] != "term" and d0[2]["rv"]["k"] == "ref":
                            tg.append(d0[2]["rv"]["place"]["l"])
                        else:
                            r0 = f.root_of(t["args"][0])
                            if r0[0] == "place":
                                tg.append(r0[1]["l"])
                    # checks and diagnostics do not produce parts of the value
                    if n_.endswith(("check_type", "from_hint")) or "fmt" in n_:
                        tg = [x for x in tg if n_.endswith("from_hint")]
                    for x in tg:
                        if x not in tainted:
                            tainted.add(x)
                            ch = True
        # the expected field type (from_hint) is only for checking: its taint must not reach the value either, so it stays
        bad = [st for st in sinks if any(op_tainted(o) for o in st["rv"].get("ops", []))]
        key = "%s # literal type vs frame bindings" % p_
        if bad:
            res.bad("CONTEXT-FREE-TYPE", key + " # flows",
                    "%s builds a %s whose parts derive from the current frame's type_bindings: the hidden runtime type of a literal then depends on "
                    "where it is evaluated (inside a generic function or not), so two values that print the same compare unequal" % (
                        p_, bad[0]["rv"]["adt"].split("::")[-1]), f.loc(bad[0]["span"]))
        else:
            res.ok("CONTEXT-FREE-TYPE", key + ": frame type bindings are used for checking only")
    res.floor("CONTEXT-FREE-TYPE", "value-building functions that read the frame's type bindings", n, 1)


def list_type_from_elements(P, res, rule="LIST-TYPE-FROM-ELEMENTS"):
    """a list literal takes its hidden element type from its elements (the last one); a list obtained by adding an element
    to another list must do the same, or the same list built the two ways differs in runtime type -- which `==` on an
    enclosing enum / struct value compares. Where a Value_::List is built from items produced by push_back/push, the
    elem_type operand must not come (on any path) from the receiver's elem_type field."""
    from .. import mir as M2

    def roots(f, op, seen, depth=0):
        r = f.root_of(op, through_named=True)
        if r[0] == "call":
            n = M2.callee_name(r[2]) or "?"
            if n.endswith("::clone") and r[2]["args"]:
                return roots(f, r[2]["args"][0], seen, depth + 1)
            return {("call", n)}
        if r[0] == "place":
            if r[1]["p"]:
                return {("field", ".".join(str(x) for x in f.field_path(r[1])))}
            l = r[1]["l"]
            if l in seen or depth > 6:
                return set()
            seen.add(l)
            out = set()
            for (b_, si, st) in f.defs.get(l, []):
                if si == "term":
                    n = M2.callee_name(st) or "?"
                    if n.endswith("::clone") and st["args"]:
                        out |= roots(f, st["args"][0], seen, depth + 1)
                    else:
                        out.add(("call", n))
                elif st.get("s") == "assign":
                    rv = st["rv"]
                    if rv["k"] == "use":
                        out |= roots(f, rv["a"], seen, depth + 1)
                    elif rv["k"] == "ref":
                        out.add(("field", ".".join(str(x) for x in f.field_path(rv["place"])) or "local"))
                    else:
                        out.add((rv["k"], ""))
            return out
        return {(r[0], "")}
    n = 0
    for p_, f in sorted(P.funcs.items()):
        if not p_.startswith("eval::") or p_.endswith("::clone"):
            continue
        for bi, b in enumerate(f.blocks):
            for st in b["stmts"]:
                if not (st.get("s") == "assign" and st["rv"]["k"] == "agg" and st["rv"].get("adt") == "values::Value_" and st["rv"].get("variant") == "List"):
                    continue
                flds = st["rv"].get("fields") or []
                if "items" not in flds or "elem_type" not in flds:
                    continue
                items = roots(f, st["rv"]["ops"][flds.index("items")], set())
                if not any(k == "call" and v.endswith(("::push_back", "::push_back_mut", "Vec::<T, A>::push")) for k, v in items):
                    continue
                n += 1
                et = roots(f, st["rv"]["ops"][flds.index("elem_type")], set())
                arm = D.arm_label(f, bi, enums={"BuiltInMethodKind", "BuiltInFunctionKind"}) if hasattr(D, "arm_label") else ""
                key = "%s # %s # extended list" % (p_, arm or "-")
                if any(k == "field" and v.endswith("elem_type") for k, v in et):
                    res.bad(rule, key, "%s [%s] builds a list by adding an element and gives it (on some path) the receiver's hidden element type instead of deriving it "
                            "from the elements as a list literal does: `Some([None].append(Some(1))) == Some([None, Some(1)])` turns False" % (p_, arm), st.get("span"))
                else:
                    res.ok(rule, key + ": element type derived from %s" % sorted(v.split("::")[-1] for k, v in et if k == "call"))
    res.floor(rule, "lists built by extending another list", n, 1)


def dict_type_order_free(P, res):
    """DICT-TYPE-ORDER-FREE: a dict prints and compares without regard to the order its entries were added, but its hidden
    `value_type` is part of the runtime type of an enclosing enum / struct value, which `==` compares. So wherever a
    Value_::Dict is built, its value_type is either carried over from another dict, a fixed type, or obtained from a join
    (a function of two types that asks is_subtype in both directions) -- never the type of one particular element."""
    from .. import mir as M2

    def is_join(path):
        g = P.funcs.get(path)
        if g is None or "Type" not in g.local_ty(0):
            return False
        subs = [t for _, t in g.calls() if (M2.callee_name(t) or "").endswith("garden_type::is_subtype")]
        if len(subs) < 2:
            return False
        firsts = set()
        for t in subs:
            r0 = g.root_of(t["args"][0], through_named=True)
            r1 = g.root_of(t["args"][1], through_named=True)
            if r0[0] == "place" and r1[0] == "place":
                firsts.add((r0[1]["l"], r1[1]["l"]))
        return any((b_, a_) in firsts for (a_, b_) in firsts)

    def roots(f, op, seen, depth=0):
        q = M2.op_place(op)
        if q is None:
            return {("const", "")}
        r = f.root_of(op, through_named=True)
        if r[0] == "call":
            n = M2.callee_name(r[2]) or "?"
            if n.endswith("::clone") and r[2]["args"]:
                return roots(f, r[2]["args"][0], seen, depth + 1)
            return {("call", n)}
        if r[0] == "place":
            if r[1]["p"]:
                return {("field", ".".join(f.field_path(r[1])))}
            l = r[1]["l"]
            if l in seen or depth > 6:
                return set()
            seen.add(l)
            out = set()
            for (b_, si, st) in f.defs.get(l, []):
                if si == "term":
                    out.add(("call", M2.callee_name(st) or "?"))
                elif st.get("s") == "assign":
                    rv = st["rv"]
                    if rv["k"] == "use":
                        out |= roots(f, rv["a"], seen, depth + 1)
                    elif rv["k"] == "ref":
                        out.add(("field", ".".join(f.field_path(rv["place"])) or "local"))
                    else:
                        out.add((rv["k"], ""))
            return out
        return {(r[0], "")}
    n = 0
    for p_, f in sorted(P.funcs.items()):
        if p_.endswith("::clone"):
            continue
        k_ = 0
        for bi, b in enumerate(f.blocks):
            for st in b["stmts"]:
                if st.get("s") == "assign" and st["rv"]["k"] == "agg" and st["rv"].get("adt") == "values::Value_" and st["rv"].get("variant") == "Dict":
                    rv = st["rv"]
                    n += 1
                    k_ += 1
                    op = rv["ops"][rv["fields"].index("value_type")]
                    rs = roots(f, op, set())
                    bad = sorted(n_ for kind, n_ in rs if kind == "call" and n_.endswith("Type::from_value"))
                    unknown = sorted(n_ for kind, n_ in rs if kind == "call" and not n_.endswith("Type::from_value") and not is_join(n_)
                                     and not (n_.startswith("garden_type::Type::") and P.funcs.get(n_) is not None and P.funcs[n_].argc == 0))
                    key = "%s # Value_::Dict %d" % (p_, k_)
                    if bad:
                        res.bad("DICT-TYPE-ORDER-FREE", key + " # element type",
                                "a dict built in %s takes its value_type from one particular element (Type::from_value): dicts with the same entries added in a "
                                "different order get different hidden types and, inside an enum or struct value, compare unequal although they print the same" % p_,
                                f.loc(st["span"]))
                    elif unknown:
                        res.bad("DICT-TYPE-ORDER-FREE", key + " # unrecognised source %s" % unknown[0].split("::")[-1],
                                "the value_type of a dict built in %s comes from %s, which is neither another dict's type, a fixed type nor a join of two types" % (p_, unknown), f.loc(st["span"]))
                    else:
                        res.ok("DICT-TYPE-ORDER-FREE", key + ": value_type from %s" % sorted({(n_.split("::")[-1] if kind == "call" else kind + ":" + n_) for kind, n_ in rs}))
    res.floor("DICT-TYPE-ORDER-FREE", "Value_::Dict constructions", n, 3)


def run(ctx, res):
    sh = ctx.shape
    enum = S.find_enum(sh, FILE, "Value_")
    variants = {v["name"]: [f["name"] or str(i) for i, f in enumerate(v["fields"])] for v in enum["variants"]}
    res.floor("DIAGONAL-COVER", "variants of Value_", len(variants), 10)
    context_free_types(ctx.P, res)
    dict_type_order_free(ctx.P, res)
    list_type_from_elements(ctx.P, res)
    fn = S.find_fn(sh, FILE, "eq", impl_self="Value_", impl_trait="PartialEq")
    ms = S.matches_in(fn["body"])
    if not ms or ms[0]["e"]["k"] != "Tuple":
        raise M.MissingAnchor("PartialEq::eq for Value_ is not a `match (self, other)`")
    m = ms[0]
    arms = m["arms"]
    diag = {}
    catch_all_idx = None
    for i, a in enumerate(arms):
        p = a["pat"]
        if p["k"] == "PWild" or (p["k"] == "PTuple" and all(S.pat_variant(e) == "_" for e in p["elems"])):
            if catch_all_idx is None:
                catch_all_idx = i
            continue
        if p["k"] != "PTuple" or len(p["elems"]) != 2:
            continue
        v0, v1 = S.pat_variant(p["elems"][0]), S.pat_variant(p["elems"][1])
        if v0 == v1 and v0 in variants and a["guard"] is None:
            if catch_all_idx is None:
                diag.setdefault(v0, a)
    for v in sorted(variants):
        key = "values::Value_::eq # (%s, %s)" % (v, v)
        if v in diag:
            res.ok("DIAGONAL-COVER", key)
        elif v in NO_ARM_OK:
            res.ok("DIAGONAL-COVER", key + " exempt: " + NO_ARM_OK[v][:50])
        else:
            res.bad("DIAGONAL-COVER", key + " # missing",
                    "PartialEq for Value_ has no (%s, %s) arm before the catch-all: two separately built %s values compare unequal" % (v, v, v),
                    "%s:%d" % (FILE, S.line(m)))
    # catch-all must yield false
    if catch_all_idx is not None:
        b = S.tail_expr(arms[catch_all_idx]["body"])
        if not (b and b["k"] == "LitBool" and b["v"] is False):
            res.bad("DIAGONAL-COVER", "values::Value_::eq # catch-all", "the catch-all arm is not `false`: values of different kinds can compare equal",
                    "%s:%d" % (FILE, S.line(arms[catch_all_idx])))
        else:
            res.ok("DIAGONAL-COVER", "catch-all `_ => false`")
    # ---- FIELD-COVER
    for v, need in sorted(VALUE_FIELDS.items()):
        if v not in diag:
            continue
        a = diag[v]
        key = "values::Value_::eq # (%s, %s) # fields" % (v, v)
        b0 = S.pat_bindings(a["pat"]["elems"][0])
        b1 = S.pat_bindings(a["pat"]["elems"][1])
        f0 = {n: p[-1].split(".", 1)[1] for n, p in b0.items() if p}
        f1 = {n: p[-1].split(".", 1)[1] for n, p in b1.items() if p}
        body = S.tail_expr(a["body"])
        if body is None:
            res.bad("FIELD-COVER", key + " # no-value", "arm has no value expression", "%s:%d" % (FILE, S.line(a)))
            continue
        compared = set()
        bad = None
        for c in conjuncts(body):
            if c["k"] == "Binary" and c["op"] == "==" and c["l"]["k"] == "Path" and c["r"]["k"] == "Path":
                l, r = c["l"]["path"], c["r"]["path"]
                fl = f0.get(l) if l in f0 else f1.get(l)
                fr = f1.get(r) if r in f1 else f0.get(r)
                sides_ok = (l in f0 and r in f1) or (l in f1 and r in f0)
                if sides_ok and fl == fr and fl is not None:
                    compared.add(fl)
                else:
                    bad = "compares `%s` with `%s`, which are not the same field on the two sides" % (l, r)
            else:
                bad = "arm body is not a conjunction of field equalities (found %s)" % c["k"]
        missing = [f for f in need if f not in compared]
        ident = IDENTITY_FIELDS.get(v)
        if ident and not any(f in compared for f in ident):
            missing.append("one of " + "/".join(ident) + " (which user-defined type the value belongs to)")
        if bad:
            res.bad("FIELD-COVER", key + " # shape", "(%s, %s): %s" % (v, v, bad), "%s:%d" % (FILE, S.line(a)))
        elif missing:
            res.bad("FIELD-COVER", key + " # missing " + ",".join(missing),
                    "(%s, %s) does not compare the value-carrying field(s) %s" % (v, v, ", ".join(missing)), "%s:%d" % (FILE, S.line(a)))
        else:
            res.ok("FIELD-COVER", key + " compares " + ",".join(sorted(compared)))
            res.sample({"rule": "FIELD-COVER", "variant": v, "compared": sorted(compared), "line": S.line(a)})
    # ---- FLOAT-PRINT-AGREE: the property ties equality of finite floats to their printed form. IEEE `==` on f64 identifies
    # -0.0 and 0.0, which print differently; a bit-pattern comparison (to_bits / total_cmp) would not.
    if "Float" in diag:
        body = S.tail_expr(diag["Float"]["body"])
        ieee = body is not None and body["k"] == "Binary" and body["op"] == "==" and body["l"]["k"] == "Path" and body["r"]["k"] == "Path"
        bits = body is not None and any(n_["k"] == "MethodCall" and n_["method"] in ("to_bits", "total_cmp") for n_ in S.walk(body))
        if bits:
            res.ok("FLOAT-PRINT-AGREE", "Float equality compares bit patterns: equal exactly when the printed forms are equal")
        elif ieee:
            res.bad("FLOAT-PRINT-AGREE", "values::Value_::eq # Float # ieee-eq-negative-zero",
                    "`-0.0 == 0.0` is True (IEEE equality on f64) although the two values print differently (`-0.0`, `0.0`): the one pair of finite "
                    "floats for which == and the printed form disagree", "%s:%d" % (FILE, S.line(diag["Float"])))
        else:
            res.bad("FLOAT-PRINT-AGREE", "values::Value_::eq # Float # unrecognised comparison", "the Float arm compares neither with `==` nor by bit pattern", "%s:%d" % (FILE, S.line(diag["Float"])))
    # ---- NE
    impl_fns = []
    for it in S.walk(S.file_items(sh, FILE)):
        if it["k"] == "Impl" and it.get("trait") == "PartialEq" and it.get("self_ty") == "Value_":
            impl_fns = [x["name"] for x in it["items"] if x["k"] == "Fn"]
    if "ne" in impl_fns:
        res.bad("NE", "values::Value_ # ne", "PartialEq for Value_ defines its own `ne`; `!=` may disagree with `==`", FILE)
    else:
        res.ok("NE", "no hand-written ne (default `!(a == b)`)")
    eq = S.find_fn(sh, "src/eval.rs", "eval_equality_binop")
    arms_ok = {}
    for mm in S.matches_in(eq["body"]):
        for a in mm["arms"]:
            v = S.pat_variant(a["pat"])
            if v in ("Equal", "NotEqual"):
                ops = [n for n in S.walk(a["body"]) if n["k"] == "Binary" and n["op"] in ("==", "!=")]
                if len(ops) == 1 and ops[0]["l"]["k"] == "Path" and ops[0]["r"]["k"] == "Path":
                    arms_ok[v] = (ops[0]["op"], ops[0]["l"]["path"], ops[0]["r"]["path"])
    want = {"Equal": "==", "NotEqual": "!="}
    for v, op in want.items():
        got = arms_ok.get(v)
        if got and got[0] == op and got[1] != got[2]:
            res.ok("NE", "eval_equality_binop: %s => %s %s %s" % (v, got[1], got[0], got[2]))
        else:
            res.bad("NE", "eval::eval_equality_binop # %s" % v, "BinaryOperatorKind::%s is not evaluated as `lhs %s rhs` (found %s)" % (v, op, got), "src/eval.rs:%d" % S.line(eq))
    if arms_ok.get("Equal") and arms_ok.get("NotEqual") and arms_ok["Equal"][1:] != arms_ok["NotEqual"][1:]:
        res.bad("NE", "eval::eval_equality_binop # operands", "== and != are applied to different operand pairs", "src/eval.rs:%d" % S.line(eq))
    # ---- WRAPPER: Value derives PartialEq => `Value == Value` is Rc<Value_> equality => Value_::eq
    P = ctx.P
    veq = [p for p in P.funcs if p == "<values::Value as std::cmp::PartialEq>::eq"]
    if veq:
        f = P.funcs[veq[0]]
        from_derive = "exp" in f.span or any("derive" in str(x) for x in f.span.get("exp", []))
        callee = [M.callee_name(t) for _, t in f.calls()]
        if any("Rc" in (c or "") and c.endswith("::eq") for c in callee):
            res.ok("WRAPPER", "Value::eq delegates to Rc<Value_>::eq (pointer-equal fast path, then Value_::eq)")
        else:
            res.bad("WRAPPER", "values::Value # eq", "Value's PartialEq no longer delegates to Value_ equality (calls %s)" % callee, f.loc())
    else:
        res.bad("WRAPPER", "values::Value # eq-missing", "no PartialEq impl found for values::Value", FILE)
    res.extra["functions_analysed"] = 3
    res.explanation = (
        "Coverage clauses of structural equality read from the syntax of `impl PartialEq for Value_` and its one caller: every "
        "variant (except the reviewed exemption) has a diagonal arm ahead of `_ => false`, which the compiler cannot enforce "
        "because of the catch-all; each literal-syntax arm is a conjunction of same-field comparisons covering the "
        "value-carrying fields; `!=` is the derived negation and both operators see the same operands. A relation of this shape "
        "is an equivalence by induction on values provided the leaf comparisons are (true for i64/String/usize; f64 == is not "
        "reflexive for NaN, which the property excludes by speaking of finite floats). Values themselves are never computed here.")
    res.assumptions += ["Rc<T: Eq>::eq is pointer-equality-or-structural (std)", "rpds Vector/HashTrieMap == is element-wise"]
