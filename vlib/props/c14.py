"""C14 Subtyping is a preorder with the documented variance (schema conformance).

SHAPE on garden_type::is_subtype: the `match (lhs, rhs)` is abstracted into (1) a first-match decision table over
the constructor classes of Type and (2), for each compound diagonal arm, the exact set of conditions under which
it yields true, with the *provenance* (side and field) of every recursive call argument. Both are compared with the
schema below. Every relation of this schema is reflexive and transitive on well-formed error-free types, has Any as
top and NoValue as bottom, and its variance can be read off the provenance.

  DECISION-TABLE  first-match result for every (lhs class, rhs class)
  ARM-CONDITIONS  Tuple/Fun/UserDefined/TypeParameter diagonal arms
  BOTTOM          the `lhs.is_no_value()` arm precedes every arm that can answer false; is_no_value tests the name NoValue
  SINGLE-DEFINITION  the runtime (eval::check_type) and the checker both reach this one function
"""
from .. import shape as S
from .. import boolshape as B
from .. import mir as M

FILE = "src/garden_type.rs"
CLASSES = ["Any", "Tuple", "Fun", "UserDefined", "TypeParameter", "Error"]


def provenance_env(arm_pat):
    b = S.pat_bindings(arm_pat)
    env = {}
    for name, path in b.items():
        if len(path) >= 2 and path[0] in ("#0", "#1"):
            env[name] = (0 if path[0] == "#0" else 1, path[-1])
    return env


def expected_conditions():
    L, R = 0, 1

    def sub(a, b):
        return ("call", "is_subtype", a, b)

    def eq(a, b):
        x, y = sorted([a, b], key=repr)
        return ("eq", x, y)
    return {
        "Tuple": [{eq(("len", (L, "Tuple.0")), ("len", (R, "Tuple.0"))), sub((L, "Tuple.0"), (R, "Tuple.0"))}],
        "Fun": [{eq(("len", (L, "Fun.params")), ("len", (R, "Fun.params"))),
                 sub((R, "Fun.params"), (L, "Fun.params")), sub((L, "Fun.return_"), (R, "Fun.return_"))}],
        "UserDefined": [
            {eq(("field", (L, "UserDefined.name"), "text"), ("field", (R, "UserDefined.name"), "text")),
             sub((L, "UserDefined.args"), (R, "UserDefined.args"))},
            {eq((L, "UserDefined.name"), (R, "UserDefined.name")), sub((L, "UserDefined.args"), (R, "UserDefined.args"))},
            {eq(("field", (L, "UserDefined.name"), "text"), ("field", (R, "UserDefined.name"), "text")),
             eq(("len", (L, "UserDefined.args")), ("len", (R, "UserDefined.args"))),
             sub((L, "UserDefined.args"), (R, "UserDefined.args"))},
        ],
        "TypeParameter": [{eq((L, "TypeParameter.0"), (R, "TypeParameter.0"))}],
    }


def flatten(conj):
    return {B.unelem(B.strip_forall(a)) for a in conj}


def describe(conj):
    out = []
    for a in sorted(conj, key=repr):
        if a[0] == "call":
            out.append("%s(%s.%s, %s.%s)" % (a[1], "lr"[a[2][0]] if isinstance(a[2][0], int) else a[2], a[2][1], "lr"[a[3][0]] if isinstance(a[3][0], int) else a[3], a[3][1]))
        else:
            out.append(repr(a))
    return " && ".join(out)


def fun_type_honest(P, res, rule="FUN-TYPE-HONEST"):
    """the Fun type the checker builds for a lambda literal, and then compares against the expected type with is_subtype, must
    list the parameter types the body was checked under (the types bound with set_binding): with any other list the
    contravariant comparison of parameters is made on types the lambda does not have (`let f: Fun<(Int), Int> =
    fun(s: String) { s.len() }` is accepted)."""
    import json
    from .. import mir as M2
    from .. import dflow as D2
    n = 0
    for name in ("check_expr_", "infer_expr_"):
        cands = [p_ for p_ in P.funcs if p_.startswith("checks::type_checker::TypeCheckVisitor") and p_.endswith("::" + name)]
        if not cands:
            raise M2.MissingAnchor("TypeCheckVisitor::" + name)
        f = P.funcs[cands[0]]
        for sw in D2.enum_switches(f):
            if not sw["ety"].endswith("Expression_"):
                continue
            for tgt, names in sw["by_target"].items():
                if "FunLiteral" not in names:
                    continue
                reg = D2.edge_dominated(f, sw["bb"], tgt)
                binds, pushes = [], []
                for b in sorted(reg):
                    t = f.blocks[b]["term"]
                    if t["t"] != "call":
                        continue
                    nm = M2.callee_name(t) or ""
                    if nm.endswith("::set_binding") and len(t["args"]) > 2:
                        binds.append((b, t))
                    if nm.endswith("Vec::<T, A>::push") and "Vec<garden_type::Type>" in str((t.get("argtys") or [""])[0]).replace(" ", ""):
                        pushes.append((b, t))

                def base(op):
                    r = f.root_of(op, through_named=True)
                    for _ in range(3):
                        if r[0] == "call" and (M2.callee_name(r[2]) or "").endswith("::clone") and r[2]["args"]:
                            r = f.root_of(r[2]["args"][0], through_named=True)
                    if r[0] == "place" and not r[1]["p"]:
                        return ("local", r[1]["l"])
                    if r[0] == "call":
                        return ("call", r[1])
                    return (r[0], json.dumps(r[1], sort_keys=True) if r[0] == "place" else "")
                if not binds or not pushes:
                    continue
                bound = {base(t["args"][2]) for _, t in binds}
                for b, t in pushes:
                    n += 1
                    key = "%s # FunLiteral # parameter type list" % cands[0].split("::")[-1]
                    if base(t["args"][1]) in bound:
                        res.ok(rule, key + ": the type pushed is the type the parameter was bound with")
                    else:
                        res.bad(rule, key, "%s builds the lambda's Fun type from parameter types other than the ones its body was checked under: the subtype test "
                                "against the expected function type no longer sees the lambda's own parameter types" % cands[0].split("::")[-1], f.loc(t.get("span")))
    res.floor(rule, "parameter-type pushes in the FunLiteral arms", n, 1)


def run(ctx, res):
    fun_type_honest(ctx.P, res)
    sh = ctx.shape
    fn = S.find_fn(sh, FILE, "is_subtype")
    params = [p["name"] for p in fn["params"]]
    ms = S.matches_in(fn["body"])
    if not ms or ms[0]["e"]["k"] != "Tuple" or [x.get("path") for x in ms[0]["e"]["elems"]] != params:
        raise M.MissingAnchor("is_subtype is not `match (%s, %s)`" % tuple(params))
    m = ms[0]
    arms = m["arms"]
    enum = S.find_enum(sh, FILE, "Type")
    variants = [v["name"] for v in enum["variants"]]
    if sorted(variants) != sorted(CLASSES):
        res.bad("DECISION-TABLE", "garden_type::Type # variants %s" % ",".join(sorted(variants)),
                "the constructors of Type changed (%s); the subtype schema must be re-derived" % ", ".join(variants), FILE)
        return
    # ---- abstract each arm
    abstract = []
    for a in arms:
        p = a["pat"]
        if p["k"] != "PTuple" or len(p["elems"]) != 2:
            raise M.MissingAnchor("is_subtype arm is not a pair pattern")
        c0, c1 = S.pat_variant(p["elems"][0]), S.pat_variant(p["elems"][1])
        guard = None
        if a["guard"] is not None:
            g = a["guard"]
            if g["k"] == "MethodCall" and g["method"] == "is_no_value" and g["recv"]["k"] == "Path" and g["recv"]["path"] == params[0]:
                guard = "lhs.is_no_value"
            else:
                guard = "other:" + ctx.src_text(FILE, g["sp"])
        body = a["body"]
        env = B.Env(provenance_env(p), ["is_subtype"])
        try:
            d = B.truth(body, env)
            dn = [flatten(c) for c in d]
        except B.Unknown as e:
            dn = "unknown: %s" % e
        abstract.append({"c0": c0, "c1": c1, "guard": guard, "truth": dn, "line": S.line(a)})
    # ---- BOTTOM
    nv = [i for i, a in enumerate(abstract) if a["guard"] == "lhs.is_no_value" and a["c0"] == "_" and a["c1"] == "_"]
    first_false = None
    for i, a in enumerate(abstract):
        if a["guard"] is None and a["truth"] != [set()] and a["c0"] in ("_", "UserDefined"):
            first_false = i
            break
    if not nv or abstract[nv[0]]["truth"] != [set()]:
        res.bad("BOTTOM", "garden_type::is_subtype # no-bottom-arm", "no arm `(_, _) if lhs.is_no_value() => true`: NoValue is not the bottom type", FILE)
    elif first_false is not None and first_false < nv[0]:
        res.bad("BOTTOM", "garden_type::is_subtype # bottom-arm-late",
                "an arm that can answer false for a NoValue left-hand side (line %d) precedes the is_no_value arm" % abstract[first_false]["line"], FILE)
    else:
        res.ok("BOTTOM", "`(_, _) if lhs.is_no_value() => true` precedes every arm that can reject a UserDefined lhs")
    other_guards = [a for a in abstract if a["guard"] and a["guard"] != "lhs.is_no_value"]
    for a in other_guards:
        res.bad("DECISION-TABLE", "garden_type::is_subtype # guard", "unrecognised arm guard `%s` (the schema has none besides is_no_value)" % a["guard"],
                "%s:%d" % (FILE, a["line"]))
    inv = S.find_fn(sh, FILE, "is_no_value")
    txt = ctx.src_text(FILE, inv["body"]["sp"])
    if '"NoValue"' in txt and "UserDefined" in txt:
        res.ok("BOTTOM", "Type::is_no_value tests UserDefined{name == \"NoValue\"}")
    else:
        res.bad("BOTTOM", "garden_type::Type::is_no_value # shape", "is_no_value no longer tests for the UserDefined type named NoValue", "%s:%d" % (FILE, S.line(inv)))
    # ---- DECISION-TABLE (first match, guard arms skipped: they only add `true` answers for NoValue lhs)
    exp = expected_conditions()

    def want(c0, c1):
        if c1 == "Any":
            return "true"
        if c0 == "Error" or c1 == "Error":
            return "true"
        if c0 == c1 and c0 in exp:
            return "cond:" + c0
        return "false"
    for c0 in CLASSES:
        for c1 in CLASSES:
            got = None
            line = None
            for a in abstract:
                if a["guard"] is not None:
                    continue
                if a["c0"] in ("_", c0) and a["c1"] in ("_", c1):
                    t = a["truth"]
                    if t == [set()]:
                        got = "true"
                    elif t == []:
                        got = "false"
                    elif isinstance(t, str):
                        got = t
                    else:
                        got = "cond:" + (a["c0"] if a["c0"] == a["c1"] else "?")
                    line = a["line"]
                    break
            key = "garden_type::is_subtype # (%s, %s)" % (c0, c1)
            w = want(c0, c1)
            if got is None:
                res.bad("DECISION-TABLE", key + " # no-arm", "no arm decides (%s, %s)" % (c0, c1), FILE)
            elif got != w:
                res.bad("DECISION-TABLE", key + " # %s" % got,
                        "is_subtype(%s, %s) is decided as `%s` by the arm at line %s; the documented relation requires `%s`" % (c0, c1, got, line, w),
                        "%s:%s" % (FILE, line))
            else:
                res.ok("DECISION-TABLE", key + " => " + got)
    # ---- ARM-CONDITIONS
    for c, alts in exp.items():
        arm = None
        for a in abstract:
            if a["guard"] is None and a["c0"] == c and a["c1"] == c:
                arm = a
                break
        key = "garden_type::is_subtype # (%s, %s) # conditions" % (c, c)
        if arm is None:
            res.bad("ARM-CONDITIONS", key + " # missing", "no diagonal arm for %s" % c, FILE)
            continue
        t = arm["truth"]
        if isinstance(t, str):
            res.bad("ARM-CONDITIONS", key + " # unrecognised", "the (%s, %s) arm is outside the recognised idioms (%s); cannot establish the schema" % (c, c, t),
                    "%s:%d" % (FILE, arm["line"]))
            continue
        if len(t) == 1 and any(t[0] == set(alt) for alt in alts):
            res.ok("ARM-CONDITIONS", key + ": " + describe(t[0]))
            res.sample({"rule": "ARM-CONDITIONS", "arm": c, "true_iff": describe(t[0]), "line": arm["line"]})
        else:
            res.bad("ARM-CONDITIONS", key + " # differs",
                    "(%s, %s) yields true iff [%s]; the schema requires [%s] (variance/arity/name conditions differ)" % (
                        c, c, " | ".join(describe(x) for x in t), describe(alts[0])), "%s:%d" % (FILE, arm["line"]))
    # ---- SINGLE-DEFINITION
    P = ctx.P
    r1 = P.reachable(["eval::check_type"], rta=False)
    r2 = P.reachable(["checks::type_checker::check_types"], rta=False)
    tgt = "garden_type::is_subtype"
    if tgt in r1 and tgt in r2:
        res.ok("SINGLE-DEFINITION", "eval::check_type and checks::type_checker::check_types both reach garden_type::is_subtype")
    else:
        res.bad("SINGLE-DEFINITION", "garden_type::is_subtype # callers", "runtime (%s) / checker (%s) no longer reach the one subtype function" % (tgt in r1, tgt in r2), FILE)
    others = [p for p in P.funcs if p.split("::")[-1] in ("is_subtype", "is_subtype_of", "subtype") and p != tgt]
    if others:
        res.bad("SINGLE-DEFINITION", "second subtype relation: %s" % others[0], "a second function named like a subtype relation exists: %s" % others, FILE)
    res.extra["functions_analysed"] = 2
    res.extra["arms"] = len(arms)
    res.explanation = (
        "Schema conformance, not evaluation: is_subtype's match is abstracted by a symbolic evaluator for boolean blocks (early "
        "`return false` guards, `for .. in a.iter().zip(b)`, `.iter().zip().all(|..|)`, `&&`, if/else) into, per arm, the exact "
        "conjunction of atomic conditions under which it answers true, each recursive call carrying the side and field its "
        "arguments come from. Required: top (`(_, Any) => true` first), bottom (is_no_value arm before any rejecting arm), "
        "Tuple componentwise covariant with equal length, Fun contravariant in params (call arguments swapped) and covariant in "
        "the result with equal arity, UserDefined nominal with covariant args, TypeParameter by equality, mixed constructors "
        "false, Error on either side true. Any relation of this schema is reflexive (each diagonal row holds of equal "
        "arguments by induction) and transitive (compose the componentwise conditions; contravariant positions compose in "
        "reverse) on well-formed types without Error. An equivalent but differently structured algorithm would be reported as "
        "unrecognised (fail closed).")
    res.assumptions += ["types are well-formed (UserDefined args have the declared arity; zip truncation is not exercised)",
                        "Error types are excluded by the property"]
