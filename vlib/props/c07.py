"""C07 Resuming after a runtime error reproduces the same error (restore-sequence clause).

On an error a step returns (RestoreValues(vs), err); eval::eval pushes vs back onto the value stack in order and
re-schedules the expression, so that `:resume` re-runs the step. For the re-run to see the same values,
vs must be exactly the values the step popped, in reverse pop order.

  RESTORE-SEQ   for every construction of RestoreValues (and every call passing saved values to a helper that wraps
                them) in every function returning Result<_, (RestoreValues, EvalError)>: the symbolic sequence restored
                equals reverse(symbolic sequence popped so far on that path). Built-in handlers inherit the pops of their
                callers (arguments first-to-last, then the receiver), so the only accepted restore there is
                [receiver, args reversed]. The inherited context is checked at the callers.
  ERR-RESTORE   (MIR) on the Err edge of eval_expr, eval::eval calls restore_stack_frame with the popped pair and the
                returned values before returning.
  NO-EFFECT-BEFORE-ERROR  an arm of eval_expr that schedules its continuation before calling a fallible helper must not
                leave that entry behind when the helper fails (reported, informational until triaged).
Decides the order and completeness of restored values per site; not the text of messages nor side effects of re-running.
"""
from .. import shape as S
from .. import mir as M
from .. import dflow as D
from .. import evalloop as EL

EVAL = "src/eval.rs"
INHERIT = ("receiver_value", "arg_values")


def norm(e):
    k = e["k"]
    if k == "MethodCall" and e["method"] in ("clone", "to_owned") and not e["args"]:
        return norm(e["recv"])
    if k == "Path":
        return e["path"]
    if k == "Index":
        i = e["i"]
        return "%s[%s]" % (norm(e["e"]), i.get("v", "?"))
    if k in ("Ref",):
        return norm(e["e"])
    if k == "Unary" and e["op"] == "*":
        return norm(e["e"])
    if k == "Call" and e["f"].get("path") in ("Rc::clone", "Value::clone") and e["args"]:
        return norm(e["args"][0])
    return "<%s>" % k


def show(seq):
    if seq is None:
        return "?"
    out = []
    for x in seq:
        if isinstance(x, tuple):
            out.append("%s(%s)" % (x[0], ":".join(str(y) for y in x[1:])))
        else:
            out.append(x)
    return "[" + ", ".join(out) + "]"


def reverse(seq):
    out = []
    for x in reversed(seq):
        if isinstance(x, tuple) and x[0] == "fwd":
            out.append(("rev", x[1]))
        elif isinstance(x, tuple) and x[0] == "rev":
            out.append(("fwd", x[1]))
        elif isinstance(x, tuple) and x[0] == "opt":
            out.append(("opt", x[1], tuple(reversed(x[2]))))
        else:
            out.append(x)
    return out


def has_pop(e):
    return any(n["k"] == "MethodCall" and n["method"] == "pop_value" for n in S.walk(e))


class Walker:
    def __init__(self, ctx, fn, helpers, initial):
        self.ctx = ctx
        self.fn = fn
        self.helpers = helpers      # name -> index of the saved-values parameter
        self.sites = []             # dicts
        self.initial = initial
        self.arm_stack = []
        self.poppers = set()

    def arm_label(self):
        for lab in self.arm_stack:
            if lab.startswith("BuiltIn"):
                return lab
        return self.arm_stack[0] if self.arm_stack else "-"

    # ---- symbolic vec evaluation
    def eval_vec(self, e, st):
        if e["k"] == "Macro" and e["name"] == "vec":
            if "args" in e:
                return [norm(a) for a in e["args"]]
            return None
        if e["k"] == "Path":
            return list(st["vecs"][e["path"]]) if e["path"] in st["vecs"] and st["vecs"][e["path"]] is not None else None
        if e["k"] == "Call" and e["f"].get("path") in getattr(self, "vecbuilders", {}):
            # a local function that only assembles the saved values from its parameters: its result, with the arguments put in
            params, tmpl = self.vecbuilders[e["f"]["path"]]
            if len(params) == len(e["args"]):
                sub = {p_: norm(a) for p_, a in zip(params, e["args"])}
                out = []
                for x in tmpl:
                    if isinstance(x, tuple):
                        out.append(tuple([x[0], sub.get(x[1], x[1])] + list(x[2:])))
                    else:
                        out.append(sub.get(x, x))
                return out
            return None
        if e["k"] == "MethodCall" and e["method"] in ("clone", "to_vec") and e["recv"]["k"] == "Path":
            return self.eval_vec(e["recv"], st)
        if e["k"] == "MethodCall" and e["method"] == "collect":
            # V.iter().rev().cloned().collect()
            n = e["recv"]
            rev = False
            while n["k"] == "MethodCall" and n["method"] in ("cloned", "copied", "rev", "iter", "into_iter"):
                if n["method"] == "rev":
                    rev = not rev
                n = n["recv"]
            if n["k"] == "Path":
                base = self.eval_vec(n, st)
                if base is not None:
                    return reverse(base) if rev else base
        return None

    def site(self, node, vec_expr, st, via):
        restored = self.eval_vec(vec_expr, st)
        popped = st["popped"]
        expected = reverse(popped) if popped is not None else None
        ok = restored is not None and expected is not None and restored == expected
        self.sites.append({"fn": self.fn["name"], "arm": self.arm_label(), "line": S.line(node), "via": via,
                           "restored": restored, "popped": popped, "expected": expected, "ok": ok})

    # ---- expression scan (in evaluation order, shallow): RestoreValues(..) and helper calls
    def scan_expr(self, e, st):
        if e is None or not isinstance(e, dict):
            return
        if "k" not in e:
            for v in e.values():
                if isinstance(v, dict):
                    self.scan_expr(v, st)
                elif isinstance(v, list):
                    for x in v:
                        self.scan_expr(x, st)
            return
        k = e["k"]
        if k == "Block":
            self.walk_block(e, st)
            return
        if k == "If":
            self.scan_expr(e["cond"], st)
            s1 = self.copy(st)
            self.walk_block(e["then"], s1)
            if e["else"] is not None:
                s2 = self.copy(st)
                self.scan_expr(e["else"], s2)
                self.merge(st, [(s1, e["then"]), (s2, e["else"])])
            else:
                self.merge(st, [(s1, e["then"]), (self.copy(st), None)])
            return
        if k == "Match":
            self.scan_expr(e["e"], st)
            outs = []
            for a in e["arms"]:
                sa = self.copy(st)
                lab = a["pat_txt"].split("(")[0].split("{")[0].strip()
                self.arm_stack.append(lab.replace(" ", ""))
                self.scan_expr(a["body"], sa)
                self.arm_stack.pop()
                outs.append((sa, a["body"]))
            self.merge(st, outs)
            return
        if k in ("For", "While", "Loop"):
            if k == "For":
                self.scan_expr(e["iter"], st)
                self.loop_effects(e, st)
            body = e["body"]
            mir = self.mirror_lets(body, st) if k == "For" else {}
            if mir and st["popped"] is not None:
                vecs = sorted(set(mir.values()))
                if len(vecs) == 1 and st["vecs"].get(vecs[0]) == []:
                    # V mirrors the pops of this loop: at any point it holds exactly the values popped so far
                    st["popped"].append(("fwd", vecs[0]))
                    st["vecs"][vecs[0]] = [("fwd", vecs[0])]
                    if st["popped"] and isinstance(st["popped"][-2] if len(st["popped"]) > 1 else None, tuple) and st["popped"][-2][0] == "loop":
                        del st["popped"][-2]
                else:
                    mir = {}
            sb = self.copy(st)
            self.walk_block(body, sb, mirrored=mir)
            return
        if k == "Closure":
            sc = self.copy(st)
            self.scan_expr(e["body"], sc)
            return
        if k == "Call" and e["f"].get("path") == "RestoreValues" and e["args"]:
            self.site(e, e["args"][0], st, "RestoreValues")
            return
        if k == "Call" and e["f"].get("path") in self.helpers:
            idx = self.helpers[e["f"]["path"]]
            for a in e["args"]:
                self.scan_expr(a, st)
            if idx < len(e["args"]):
                self.site(e, e["args"][idx], st, "helper " + e["f"]["path"])
            return
        if k == "Call" and e["f"].get("path") in getattr(self, "builders", {}):
            idxs = self.builders[e["f"]["path"]]
            for a in e["args"]:
                self.scan_expr(a, st)
            if all(i < len(e["args"]) for i in idxs):
                self.site(e, {"k": "Macro", "name": "vec", "args": [e["args"][i] for i in idxs]}, st, "builder " + e["f"]["path"])
            return
        if k == "Call" and e["f"].get("path") in self.poppers:
            # a local helper that pops values itself without reporting them through RestoreValues:
            # whatever this function restores afterwards cannot include them
            for a in e["args"]:
                self.scan_expr(a, st)
            if st["popped"] is not None:
                st["popped"].append(("callee-pops", e["f"]["path"]))
            return
        # generic: children in order
        for key, v in e.items():
            if key in ("k", "sp"):
                continue
            if isinstance(v, dict):
                self.scan_expr(v, st)
            elif isinstance(v, list):
                for x in v:
                    if isinstance(x, dict):
                        self.scan_expr(x, st)

    def loop_effects(self, e, st):
        """summarise what a `for` loop does to popped / vecs."""
        body = e["body"]
        it = e["iter"]
        itxt = norm(it) if it["k"] != "MethodCall" else None
        # direction and source of iteration
        src, direction = None, "fwd"
        n = it
        while n["k"] == "MethodCall":
            if n["method"] == "rev":
                direction = "rev"
            n = n["recv"]
        if n["k"] in ("Path", "Ref", "Field"):
            src = norm(n) if n["k"] != "Field" else ".".join([norm(n["e"]), n["name"]])
        pops_into = None
        bare_pops = 0
        per_vec = {}
        skip = self.mirror_lets(body, st)
        for s in body["stmts"]:
            if id(s) in skip:
                continue
            for m in S.walk(s):
                if m["k"] == "MethodCall" and m["method"] == "push" and m["recv"]["k"] == "Path" and m["args"]:
                    tgt = m["recv"]["path"]
                    if has_pop(m["args"][0]):
                        pops_into = tgt
                    elif tgt in st["vecs"] and st["vecs"][tgt] is not None:
                        per_vec.setdefault(tgt, []).append(norm(m["args"][0]))
            if s["k"] == "Let" and s["init"] is not None and has_pop(s["init"]):
                bare_pops += 1
        pat = e["pat"]
        for tgt, pushed in per_vec.items():
            if pat["k"] == "PIdent" and pushed == [pat["name"]] and src is not None:
                st["vecs"][tgt].append((direction, src))
            else:
                # several pushes per iteration (or not the loop variable): keep a printable description
                st["vecs"][tgt].append(("each-" + direction, "%s: %s" % (src, "+".join(pushed))))
        if pops_into is not None and st["popped"] is not None:
            st["popped"].append(("fwd", pops_into))
        elif bare_pops and st["popped"] is not None:
            st["popped"].append(("loop", "%d-per-iteration" % bare_pops))

    def copy(self, st):
        return {"popped": None if st["popped"] is None else list(st["popped"]),
                "vecs": {k: (None if v is None else list(v)) for k, v in st["vecs"].items()}}

    def diverges(self, node):
        """does this block/expr always leave (return/break/continue/panic) ?"""
        if node is None:
            return False
        if node["k"] == "Block":
            st = node["stmts"]
            if not st:
                return False
            last = st[-1]
            if last["k"] == "ExprStmt":
                return self.diverges(last["e"])
            return False
        if node["k"] in ("Return", "Break", "Continue"):
            return True
        if node["k"] == "Macro" and node["name"] in ("unreachable", "panic", "todo", "unimplemented"):
            return True
        if node["k"] == "If" and node["else"] is not None:
            return self.diverges(node["then"]) and self.diverges(node["else"])
        if node["k"] == "Match":
            return all(self.diverges(a["body"]) for a in node["arms"])
        return False

    def merge(self, st, outs):
        live = [s for (s, node) in outs if not self.diverges(node)]
        if not live:
            return
        p0 = live[0]["popped"]
        if all(s["popped"] == p0 for s in live):
            st["popped"] = None if p0 is None else list(p0)
        else:
            st["popped"] = None
        keys = set()
        for s in live:
            keys |= set(s["vecs"])
        for k in keys:
            vals = [s["vecs"].get(k, "missing") for s in live]
            if all(v == vals[0] for v in vals) and vals[0] != "missing":
                st["vecs"][k] = None if vals[0] is None else list(vals[0])
            else:
                st["vecs"][k] = None

    # ---- conditional pop group:  let X = match .. { Some(..) => { pops..; Some((a, k, b)) } None => None };
    def opt_pop_group(self, init):
        if init["k"] != "Match" or len(init["arms"]) != 2:
            return None
        some_arm = none_arm = None
        for a in init["arms"]:
            v = S.pat_variant(a["pat"])
            if v == "Some":
                some_arm = a
            elif v == "None":
                none_arm = a
        if not some_arm or not none_arm or has_pop(none_arm["body"]) or some_arm["body"]["k"] != "Block":
            return None
        names = []
        for st_ in some_arm["body"]["stmts"]:
            if st_["k"] == "Let" and st_["init"] is not None and has_pop(st_["init"]) and st_["pat"]["k"] == "PIdent":
                names.append(st_["pat"]["name"])
            elif st_["k"] == "Let" and st_["init"] is not None and has_pop(st_["init"]):
                return None
        tail = S.tail_expr(some_arm["body"])
        if not names or tail is None or tail["k"] != "Call" or tail["f"].get("path") != "Some" or tail["args"][0]["k"] != "Tuple":
            return None
        elems = [x.get("path") if x["k"] == "Path" else None for x in tail["args"][0]["elems"]]
        try:
            return tuple(elems.index(n) for n in names)
        except ValueError:
            return None

    def opt_push_group(self, e, st):
        """if let Some((a, _, b)) = &X { V.push(a.clone()); V.push(b.clone()); }  ->  (V, X, positions)"""
        if e["k"] != "If" or e["else"] is not None or e["cond"]["k"] != "LetCond":
            return None
        pat = e["cond"]["pat"]
        while pat["k"] in ("PRef",):
            pat = pat["pat"]
        if S.pat_variant(pat) != "Some" or pat["k"] != "PTupleStruct" or len(pat["elems"]) != 1:
            return None
        inner = pat["elems"][0]
        if inner["k"] != "PTuple":
            return None
        pos = {}
        for i, q in enumerate(inner["elems"]):
            if q["k"] == "PIdent":
                pos[q["name"]] = i
        src = norm(e["cond"]["e"])
        vec = None
        positions = []
        for s_ in e["then"]["stmts"]:
            x = s_.get("e")
            if s_["k"] != "ExprStmt" or x["k"] != "MethodCall" or x["method"] != "push" or x["recv"]["k"] != "Path" or not x["args"]:
                return None
            if vec not in (None, x["recv"]["path"]):
                return None
            vec = x["recv"]["path"]
            n = norm(x["args"][0])
            if n not in pos:
                return None
            positions.append(pos[n])
        if vec is None or vec not in st["vecs"] or st["vecs"][vec] is None:
            return None
        return vec, src, tuple(positions)

    def mirror_lets(self, body, st):
        """inside a loop body: `let x = <pop>;` immediately followed by `V.push(x.clone());` -> {id(let stmt): V}"""
        out = {}
        ss = body["stmts"]
        for i, s_ in enumerate(ss[:-1]):
            if s_["k"] == "Let" and s_["pat"]["k"] == "PIdent" and s_["init"] is not None and has_pop(s_["init"]):
                nx = ss[i + 1]
                if nx["k"] == "ExprStmt" and nx["e"]["k"] == "MethodCall" and nx["e"]["method"] == "push" and nx["e"]["recv"]["k"] == "Path" and nx["e"]["args"] \
                        and norm(nx["e"]["args"][0]) == s_["pat"]["name"] and nx["e"]["recv"]["path"] in st["vecs"]:
                    out[id(s_)] = nx["e"]["recv"]["path"]
                    out[id(nx)] = nx["e"]["recv"]["path"]
        return out

    def walk_block(self, b, st, mirrored=None):
        mirrored = mirrored or {}
        for s in b["stmts"]:
            k = s["k"]
            if id(s) in mirrored:
                continue
            if k == "Let":
                init = s["init"]
                if s["pat"]["k"] == "PType" and s["pat"]["pat"]["k"] == "PIdent":
                    s = dict(s, pat=s["pat"]["pat"])
                if init is not None:
                    grp = self.opt_pop_group(init) if s["pat"]["k"] == "PIdent" else None
                    if grp is not None:
                        if st["popped"] is not None:
                            st["popped"].append(("opt", s["pat"]["name"], grp))
                        continue
                    self.scan_expr(init, st)
                    if s["pat"]["k"] == "PIdent":
                        name = s["pat"]["name"]
                        if has_pop(init) and init["k"] != "Match" and init["k"] != "If":
                            if st["popped"] is not None:
                                st["popped"].append(name)
                        elif init["k"] == "Macro" and init["name"] == "vec":
                            st["vecs"][name] = self.eval_vec(init, st)
                        elif init["k"] == "Call" and init["f"].get("path") in ("Vec::new", "Vec::with_capacity"):
                            st["vecs"][name] = []
                        elif init["k"] == "Call" and init["f"].get("path") in getattr(self, "vecbuilders", {}):
                            v_ = self.eval_vec(init, st)
                            if v_ is not None:
                                st["vecs"][name] = v_
                        elif init["k"] == "MethodCall" and init["method"] in ("collect", "clone", "to_vec"):
                            # `let saved: Vec<Value> = popped.iter().rev().cloned().collect();` -- a named copy of a vector
                            v_ = self.eval_vec(init, st)
                            if v_ is not None:
                                st["vecs"][name] = v_
                    elif has_pop(init) and st["popped"] is not None:
                        st["popped"].append("<pattern>")
                if s.get("else") is not None:
                    se = self.copy(st)
                    self.scan_expr(s["else"], se)
            elif k == "ExprStmt":
                e = s["e"]
                g = self.opt_push_group(e, st)
                if g is not None:
                    vec, src, positions = g
                    st["vecs"][vec].append(("opt", src, positions))
                    continue
                # `v.extend(xs.iter().rev().cloned())` / `v.extend_from_slice(xs)`: the iterator form of the push loop
                if e["k"] == "MethodCall" and e["method"] in ("extend", "extend_from_slice") and e["recv"]["k"] == "Path" \
                        and e["recv"]["path"] in st["vecs"] and e["args"]:
                    tgt = e["recv"]["path"]
                    if st["vecs"][tgt] is not None:
                        n = e["args"][0]
                        direction = "fwd"
                        plain = True
                        while n["k"] == "MethodCall":
                            if n["method"] == "rev":
                                direction = "rev" if direction == "fwd" else "fwd"
                            elif n["method"] not in ("iter", "into_iter", "cloned", "copied", "clone", "to_vec", "as_slice"):
                                plain = False
                            n = n["recv"]
                        while n["k"] == "Ref":
                            n = n["e"]
                        if plain and n["k"] == "Path" and not has_pop(e["args"][0]):
                            st["vecs"][tgt].append((direction, norm(n)))
                        else:
                            st["vecs"][tgt] = None
                    continue
                # `v.reverse()`: the vector now lists what it holds the other way round -- and if it mirrors pops, the pops
                # are its elements last to first from here on
                if e["k"] == "MethodCall" and e["method"] == "reverse" and e["recv"]["k"] == "Path" and not e["args"]:
                    v_ = e["recv"]["path"]
                    if v_ in st["vecs"] and st["vecs"][v_] is not None:
                        st["vecs"][v_] = reverse(st["vecs"][v_])
                    if st["popped"] is not None:
                        flip = {"fwd": "rev", "rev": "fwd"}
                        st["popped"] = [tuple([flip[x[0]]] + list(x[1:])) if isinstance(x, tuple) and x[0] in flip and x[1] == v_ else x for x in st["popped"]]
                        if v_ in st["vecs"] and st["vecs"][v_] is not None:
                            st["vecs"][v_] = [("fwd", v_)] if any(isinstance(x, tuple) and x[1] == v_ for x in st["popped"]) else st["vecs"][v_]
                    continue
                # vec pushes outside loops
                if e["k"] == "MethodCall" and e["method"] == "push" and e["recv"]["k"] == "Path" and e["recv"]["path"] in st["vecs"] and e["args"]:
                    if st["vecs"][e["recv"]["path"]] is not None:
                        if has_pop(e["args"][0]):
                            st["vecs"][e["recv"]["path"]] = None
                        else:
                            st["vecs"][e["recv"]["path"]].append(norm(e["args"][0]))
                    continue
                if has_pop(e) and e["k"] == "MethodCall" and st["popped"] is not None and not any(n["k"] in ("If", "Match", "For") for n in S.walk(e)):
                    # a pop whose value is dropped (e.g. `env.pop_value().expect(..);`)
                    st["popped"].append("<dropped>")
                    continue
                self.scan_expr(e, st)


def restore_sites(ctx, res=None):
    """every RestoreValues construction / saved-value hand-off with the symbolic pop and restore sequences (shared with C04)."""
    sh = ctx.shape
    items = S.file_items(sh, EVAL)
    fns = []
    S._fns_in(items, fns)
    targets = [fn for impl, fn, test in fns if not test and "RestoreValues" in fn.get("ret", "")]
    if res is not None:
        res.floor("RESTORE-SEQ", "functions returning (RestoreValues, EvalError)", len(targets), 20)
    # helpers that wrap a saved-values parameter into RestoreValues
    helpers = {}
    for fn in targets:
        for i, p in enumerate(fn["params"]):
            if "Vec<Value>" in p["ty"].replace(" ", ""):
                uses = [n for n in S.walk(fn["body"]) if n["k"] == "Call" and n["f"].get("path") == "RestoreValues" and n["args"] and n["args"][0].get("path") == p["name"]]
                if uses:
                    helpers[fn["name"]] = i
    # builders: error constructors that pop nothing and wrap (clones of) their own parameters, in a fixed order
    builders = {}
    for fn in targets:
        if fn["name"] in helpers or has_pop(fn["body"]):
            continue
        rvs = [n for n in S.walk(fn["body"]) if n["k"] == "Call" and n["f"].get("path") == "RestoreValues" and n["args"]]
        if len(rvs) != 1 or not (rvs[0]["args"][0]["k"] == "Macro" and rvs[0]["args"][0]["name"] == "vec" and "args" in rvs[0]["args"][0]):
            continue
        pn = [p_["name"] for p_ in fn["params"]]
        elems = [norm(a) for a in rvs[0]["args"][0]["args"]]
        if all(isinstance(x, str) and x in pn for x in elems):
            builders[fn["name"]] = [pn.index(x) for x in elems]
    # vector builders: local functions returning Vec<Value> that pop nothing and only arrange (clones of) their parameters
    vecbuilders = {}
    for impl, fn, test in fns:
        if test or has_pop(fn["body"]) or fn.get("ret", "").replace(" ", "") != "Vec<Value>":
            continue
        if any(n["k"] == "Call" and n["f"].get("path") == "RestoreValues" for n in S.walk(fn["body"])):
            continue
        wv = Walker(ctx, fn, {}, [])
        stv = {"popped": [], "vecs": {}}
        wv.walk_block(fn["body"], stv)
        tail = S.tail_expr(fn["body"])
        tmpl = wv.eval_vec(tail, stv) if tail is not None else None
        pn = [p_["name"] for p_ in fn["params"]]
        if tmpl is not None and all((x in pn) if isinstance(x, str) else (x[1] in pn) for x in tmpl):
            vecbuilders[fn["name"]] = (pn, tmpl)
    if res is not None:
        res.extra["saved_value_builders"] = {k_: show(v_[1]) for k_, v_ in vecbuilders.items()}
    # fallible local helpers that pop values but do not return RestoreValues themselves
    target_names = {fn["name"] for fn in targets}
    poppers = set()
    for impl, fn, test in fns:
        if test or fn["name"] in target_names:
            continue
        if "EvalError" in fn.get("ret", "") and has_pop(fn["body"]):
            poppers.add(fn["name"])
    if res is not None:
        res.extra["fallible_poppers_outside_the_protocol"] = sorted(poppers)
    all_sites = []
    inheritors = set()
    for fn in targets:
        pnames = [p["name"] for p in fn["params"]]
        initial = []
        vecs = {}
        # built-in handlers receive the values their caller popped: one `&Value` receiver and one `&[Value]` argument slice
        # (found by type, so renaming the parameters changes nothing)
        recv = [p_["name"] for p_ in fn["params"] if p_["ty"].replace(" ", "") == "&Value"]
        argsl = [p_["name"] for p_ in fn["params"] if p_["ty"].replace(" ", "") == "&[Value]"]
        if len(recv) == 1 and len(argsl) == 1:
            initial = [("fwd", argsl[0]), recv[0]]
            inheritors.add(fn["name"])
        for name, idx in helpers.items():
            if name == fn["name"]:
                vecs[fn["params"][idx]["name"]] = None   # passthrough parameter
        if fn["name"] in builders:
            continue    # checked at its call sites, with the arguments substituted
        w = Walker(ctx, fn, helpers, initial)
        w.builders = builders
        w.vecbuilders = vecbuilders
        w.poppers = poppers
        st = {"popped": list(initial), "vecs": vecs}
        w.walk_block(fn["body"], st)
        # passthrough sites in helpers are fine by construction
        for s in w.sites:
            if fn["name"] in helpers and s["restored"] is None and s["via"] == "RestoreValues":
                s["ok"] = True
                s["passthrough"] = True
        all_sites += w.sites
    return all_sites, inheritors, helpers, sh


def run(ctx, res):
    all_sites, inheritors, helpers, sh = restore_sites(ctx, res)
    res.floor("RESTORE-SEQ", "RestoreValues constructions / saved-value hand-offs", len(all_sites), 100)
    # ordinal per (fn, arm)
    counters = {}
    n_bad = 0
    for s in all_sites:
        k0 = (s["fn"], s["arm"])
        counters[k0] = counters.get(k0, 0) + 1
        s["ordinal"] = counters[k0]
        key = "eval::%s # %s # %d # %s" % (s["fn"], s["arm"], s["ordinal"], show(s["restored"]))
        if s["ok"]:
            res.ok("RESTORE-SEQ", key)
            if len(res.samples) < 12:
                res.sample({"rule": "RESTORE-SEQ", "site": key, "popped": show(s["popped"]), "line": s["line"]})
        else:
            n_bad += 1
            res.bad("RESTORE-SEQ", key,
                    "%s%s restores %s after popping %s; resuming re-runs the step on %s (expected %s)" % (
                        s["fn"], "" if s["arm"] == "-" else " [" + s["arm"] + "]", show(s["restored"]), show(s["popped"]),
                        "different values" if s["restored"] is not None else "values this check cannot order",
                        show(s["expected"])),
                    "%s:%d" % (EVAL, s["line"]), {"popped": show(s["popped"]), "restored": show(s["restored"]), "expected": show(s["expected"])})
    # ---- inherited context at the callers: the call of an inheritor passes (receiver, args) popped as [fwd(args), receiver]
    P = ctx.P
    for caller in ("eval_call", "eval_method_call"):
        fn = S.find_fn(sh, EVAL, caller)
        st = {"popped": [], "vecs": {}}
        w = Walker(ctx, fn, {}, [])
        # find popped just before the first inheritor call: walk statements until then
        popped_at = None
        for s in fn["body"]["stmts"]:
            calls = [n for n in S.walk(s) if n["k"] == "Call" and n["f"].get("path") in inheritors]
            if calls:
                popped_at = list(st["popped"]) if st["popped"] is not None else None
                c = calls[0]
                break
            w.walk_block({"k": "Block", "stmts": [s]}, st)
        key = "eval::%s # inherited-context" % caller
        if popped_at is not None and len(popped_at) == 2 and isinstance(popped_at[0], tuple) and popped_at[0][0] == "fwd":
            res.ok("RESTORE-SEQ", key + ": pops %s before dispatching to the built-in handlers" % show(popped_at))
        else:
            res.bad("RESTORE-SEQ", key, "%s does not pop [arguments first-to-last, receiver] before dispatching (found %s); the canonical restore order of the handlers would change" % (caller, show(popped_at)),
                    "%s:%d" % (EVAL, S.line(fn)))
    # ---- EFFECT-BEFORE-ERROR (MIR): a continuation scheduled before a fallible helper must be dropped again on its Err edge
    from . import c06 as C6
    ev = P.require_fn("eval::eval_expr")
    pushw = {}
    popw = {}
    for bi, t in ev.calls():
        if C6.pushed_state(ev, t) is not None:
            pushw[bi] = (1, 1)
    for bi, t in D.calls_named(ev, "Vec::<T, A>::pop", "exprs_to_eval"):
        popw[bi] = (1, 1)
    before = D.event_ranges(ev, pushw)
    n_fallible = 0
    for bi, t in ev.calls():
        n = M.callee_name(t) or ""
        if n not in P.funcs or "EvalError" not in P.funcs[n].locals[0]["ty"]:
            continue
        n_fallible += 1
        rng = before.get(bi, (0, 0))
        if bi in pushw:
            rng = (rng[0] - 1, rng[1] - 1)
        arm = D.arm_label(ev, bi, enums={"Expression_", "ExpressionState"})
        key = "eval::eval_expr # %s # %s" % (arm, n.split("::")[-1])
        if rng == (0, 0):
            res.ok("EFFECT-BEFORE-ERROR", key + ": nothing scheduled before the fallible call")
            continue
        # Err edge of this call
        dest = t["dest"]["l"]
        err_t = None
        tb = D.try_continue_block(ev, bi)
        for sw in D.enum_switches(ev):
            if sw["place"]["l"] == dest and not sw["place"]["p"]:
                for tgt, names in sw["by_target"].items():
                    if "Err" in names:
                        err_t = (sw["bb"], tgt)
        if err_t is None and tb is not None:
            # `?`: the Break edge of the branch switch
            swt = ev.blocks[tb[0]]["term"]
            for v, b2 in swt["targets"]:
                if v == 1:
                    err_t = (tb[0], b2)
            if err_t is None:
                err_t = (tb[0], swt["otherwise"])
        if err_t is None:
            res.bad("EFFECT-BEFORE-ERROR", key + " # no-err-edge", "cannot locate the error edge of the call", ev.loc(t["span"]))
            continue
        after = D.event_ranges(ev, popw, start=err_t[1])
        rets = [b for b in ev.reachable_blocks() if ev.blocks[b]["term"]["t"] == "return" and b in after]
        pops = sorted({after[b] for b in rets})
        if rng[0] == rng[1] and pops == [(rng[0], rng[0])]:
            res.ok("EFFECT-BEFORE-ERROR", key + ": %d continuation(s) scheduled before the call are dropped on its error edge" % rng[0])
        else:
            res.bad("EFFECT-BEFORE-ERROR", key,
                    "the %s arm schedules %s entr%s on exprs_to_eval and then calls %s, which can fail; on the error edge %s of them are removed, so resuming "
                    "schedules them twice (the block they belong to is then popped twice)" % (arm, rng, "y" if rng == (1, 1) else "ies", n.split("::")[-1], pops),
                    ev.loc(t["span"]), {"arm": arm, "callee": n})
    res.floor("EFFECT-BEFORE-ERROR", "fallible helper calls in eval_expr", n_fallible, 15)
    # ---- ERR-RESTORE (MIR)
    L = EL.locate(P)
    f = L.f
    step_t = f.blocks[L.step_bb]["term"]
    dest = step_t["dest"]["l"]
    err_edge = None
    for sw in D.enum_switches(f):
        if sw["place"]["l"] == dest and not sw["place"]["p"]:
            for tgt, names in sw["by_target"].items():
                if "Err" in names:
                    err_edge = (sw["bb"], tgt)
    if err_edge is None:
        res.bad("ERR-RESTORE", "eval::eval # err-edge", "cannot find the Err edge of the eval_expr call", f.loc())
    else:
        region = D.edge_dominated(f, err_edge[0], err_edge[1])
        rs = [b for b in L.restore_bbs if b in region]
        r = D.reach_from(f, [err_edge[1]], avoid_blocks=rs)
        if rs and not any(b in r for b in L.return_bbs):
            t = f.blocks[rs[0]]["term"]
            r3 = f.root_of(t["args"][2], through_named=True)
            from_err = r3[0] == "place" and r3[1]["l"] == dest and "RestoreValues" in str(r3[1]["p"])
            r2 = f.root_of(t["args"][1])
            pair_ok = False
            if r2[0] == "rv" and r2[3]["rv"]["k"] == "agg":
                roots = [f.root_of(o, through_named=False) for o in r2[3]["rv"]["ops"]]
                pair_ok = roots[0][0] == "place" and roots[0][1]["l"] in L.pair_locals
            if from_err and pair_ok:
                res.ok("ERR-RESTORE", "eval::eval: Err edge of eval_expr => restore_stack_frame(popped pair, returned RestoreValues) on every path")
            else:
                res.bad("ERR-RESTORE", "eval::eval # restore-args", "restore_stack_frame on the Err edge is not given the popped pair and the returned values (values=%s pair=%s)" % (from_err, pair_ok), f.loc(t["span"]))
        else:
            res.bad("ERR-RESTORE", "eval::eval # no-restore", "the Err edge of eval_expr can return without restore_stack_frame", f.loc())
    # ---- EXIT-RESTORE (MIR): the frame-exit part of eval pops the return value before checking the return hint;
    # every error return between that pop and the pop of the frame must push the value back.
    pv = [bi for bi, t in f.calls() if M.callee_name(t) == "env::Env::pop_value"]
    frame_pops = [bi for bi, t in f.calls() if (M.callee_name(t) or "").endswith("Vec::<T, A>::pop")
                  and "StackFrame" in ((t.get("argtys") or [""])[0])]
    pushes = [bi for bi, t in f.calls() if M.callee_name(t) == "env::Env::push_value"]

    def restores_before_err(g):
        """in helper g, no Err value is built on a path from entry that has not passed push_value."""
        gp = [bi for bi, t in g.calls() if M.callee_name(t) == "env::Env::push_value"]
        if not gp:
            return False
        r = D.reach_from(g, [0], avoid_blocks=gp)
        for bi in r:
            for st in g.blocks[bi]["stmts"]:
                if st["s"] == "assign" and st["rv"]["k"] == "agg" and st["rv"].get("variant") == "Err":
                    return False
        return True
    # a call to a local helper that pushes the value back before any error it returns counts as a push
    for bi, t in f.calls():
        n = M.callee_name(t)
        g = P.funcs.get(n) if n else None
        if g is not None and n != f.path and n != "env::Env::push_value" and restores_before_err(g):
            pushes.append(bi)
    n_exit = 0
    for pb in pv:
        # the pop that is followed (on some path) by a pop of the frame vector: the function-return pop
        fwd = D.reach_from(f, [f.blocks[pb]["term"]["target"]], avoid_blocks=[L.pop_bb])
        if not any(q in fwd for q in frame_pops):
            continue
        n_exit += 1
        leak = D.reach_from(f, [f.blocks[pb]["term"]["target"]], avoid_blocks=frame_pops + pushes + [L.pop_bb]) & set(L.return_bbs)
        # the value must go back into the frame it was popped from: no error may be built, within this iteration, after the
        # frame itself has been taken off the stack (a push_value after that lands in the caller's frame)
        err_blocks = set()
        for bi2, b2 in enumerate(f.blocks):
            for st2 in b2["stmts"]:
                if st2.get("s") == "assign" and st2["rv"]["k"] == "agg" and st2["rv"].get("variant") == "Err" and "EvalError" in str(st2["rv"].get("adt", "")) + f.local_ty(st2["place"]["l"]):
                    err_blocks.add(bi2)
        prefix = D.reach_from(f, [f.blocks[pb]["term"]["target"]], avoid_blocks=pushes + [L.pop_bb])
        wrong_frame = set()
        frame_pushes = [bi2 for bi2, t2 in f.calls() if (M.callee_name(t2) or "").endswith("Vec::<T, A>::push")
                        and len(t2.get("argtys") or []) > 1 and "StackFrame" in t2["argtys"][1]]
        for fp in frame_pops:
            if fp in prefix:
                tgt_ = f.blocks[fp]["term"]["target"]
                if tgt_ is not None:
                    # while the frame is off the stack (until it is pushed back): an error built, or the value pushed
                    off = D.reach_from(f, [tgt_], avoid_blocks=frame_pushes + [L.pop_bb])
                    can_err = D.reach_from(f, [tgt_], avoid_blocks=[L.pop_bb]) & err_blocks
                    if can_err:
                        wrong_frame |= (off & err_blocks) | {b_ for b_ in off if b_ in pushes and D.reach_from(f, [b_], avoid_blocks=[L.pop_bb]) & err_blocks}
        if wrong_frame:
            res.bad("EXIT-RESTORE", "eval::eval # return-value-restored-into-wrong-frame",
                    "eval::eval takes the finished frame off the stack before the return-type check can fail: the value it pushes back for "
                    "`:resume` lands in the caller's frame, and the re-run pops the callee frame's placeholder instead (the error message changes)",
                    f.loc(f.blocks[sorted(wrong_frame)[0]]["term"].get("span")))
            continue
        if leak:
            res.bad("EXIT-RESTORE", "eval::eval # return-value-not-restored",
                    "eval::eval pops the callee's return value and can then return an error without pushing it back "
                    "(a failed return type hint): resuming pops an empty value stack", f.loc(f.blocks[pb]["term"].get("fn_span")))
        else:
            res.ok("EXIT-RESTORE", "eval::eval: every error return after popping the return value pushes it back first")
    res.floor("EXIT-RESTORE", "return-value pops at frame exit", n_exit, 1)
    # ---- RESUME-ENTRY (MIR): eval may return without running anything only when it is at the top level with nothing
    # pending. A callee frame with nothing pending still has work to repeat (its return-type check), so the early
    # return must be behind `stack.len() == 1`; otherwise `:resume` after a failed return hint answers Unit.
    rets = set(L.return_bbs)
    early = D.reach_from(f, [0], avoid_blocks=[L.pop_bb]) & rets
    if early:
        guard_edges = []
        for sw in D.bool_switches(f):
            r = sw["root"]
            if r[0] == "rv" and r[3]["rv"]["k"] == "binop" and r[3]["rv"]["op"] == "Eq" and D.const_int(f, r[3]["rv"]["b"]) == 1:
                la = f.root_of(r[3]["rv"]["a"], through_named=True)
                if la[0] == "call" and (M.callee_name(la[2]) or "").endswith("::len") and "StackFrame" in ((la[2].get("argtys") or [""])[0]):
                    if sw["true"] is not None:
                        guard_edges.append((sw["bb"], sw["true"]))
        leak = D.reach_from(f, [0], avoid_blocks=[L.pop_bb], avoid_edges=guard_edges) & rets
        if guard_edges and not leak:
            res.ok("RESUME-ENTRY", "eval::eval returns without stepping only behind `stack.len() == 1` (top level, nothing pending)")
        else:
            res.bad("RESUME-ENTRY", "eval::eval # early-return-not-toplevel",
                    "eval::eval can return without entering its loop when it is not at the top-level frame: a `:resume` after a "
                    "failed return-type check then answers Unit instead of repeating the error", f.loc())
    else:
        res.ok("RESUME-ENTRY", "eval::eval has no return that bypasses its loop")
    res.extra.update({"sites": len(all_sites), "wrong_sites": n_bad, "functions_analysed": len({x["fn"] for x in all_sites})})
    res.explanation = (
        "RESTORE-SEQ walks every function returning (RestoreValues, EvalError) and tracks two symbolic sequences: the values "
        "popped so far (named let-bound pops; `for .. { args.push(pop) }` as a forward segment) and the contents of the vector "
        "handed to RestoreValues (vec! literals, pushes, `for v in xs.iter().rev()` as a reversed segment). At each of the %d "
        "constructions the restored sequence must equal the reverse of the popped one; branches are walked with copies and "
        "merged when they agree. Built-in handlers inherit [args forward, receiver] from eval_call/eval_method_call (checked "
        "there), so only [receiver, args reversed] is accepted. ERR-RESTORE checks on MIR that eval pushes exactly those values "
        "back with the popped expression. Message text and side effects of re-running are not decided." % len(all_sites))
