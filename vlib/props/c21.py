"""C21 Wrap-in-dbg and add-type-annotation preserve behaviour (structural clauses of the wrap-in-dbg half only).

The property has two halves. The add-type-annotation half (the printed type parses, adds no check error, runs the same)
is about the printed form of every type and about re-checking the edited program: not decided here. Of the wrap-in-dbg half,
"the output and result are unchanged" for every program is a fact about runs and is not decided either; its necessary
conditions that are visible in the code are:

  DBG-IDENTITY     the built-in behind `dbg` hands back the very value it was given: in the PreludeDbg arm of
                   eval_built_in_call every push_value pushes a clone of arg_values[0], exactly one on the path where
                   the value is used; the arm pops nothing and writes no binding.
  DBG-STDERR-ONLY  what the arm prints goes to standard error in every output mode: std::io::_eprint, a
                   ResponseKind::PrintedStderr response, or the nREPL session's stderr buffer -- never _print, a Printed
                   (stdout) response or stdout_buf.
  WRAP-SPLICE      wrap_in_dbg's result is src[..start] + "dbg(" + src[start..end] + ")" + src[end..] with start/end the two
                   offsets of one expression's position: the literal `dbg(` is part of the format string, and the three slices use start_offset, (start_offset, end_offset), end_offset of the same position.
  SAME-CORE        the language server's code action and the command line both call wrap_in_dbg::wrap_in_dbg.
  ANNOTATION-OFFERED  (the one shape clause of the other half) annotation_src prints a type as the suggestion only outside
                   the Error arm of its match and on the false edge of is_no_value().
Decides these clauses only.
"""
import json
from .. import mir as M
from .. import dflow as D

ARM_FN = "eval::eval_built_in_call"


def run(ctx, res):
    P = ctx.P
    f = P.require_fn(ARM_FN)
    arm = None
    for sw in D.enum_switches(f):
        if "BuiltInFunctionKind" not in sw["ety"]:
            continue
        for tgt, names in sw["by_target"].items():
            if names == ["PreludeDbg"]:
                arm = (sw["bb"], tgt)
    if arm is None:
        raise M.MissingAnchor("the PreludeDbg arm of eval::eval_built_in_call")
    region = D.edge_dominated(f, arm[0], arm[1])
    # which parameter is the argument slice: the `&[Value]` parameter
    arg_locals = [i for i in range(1, f.argc + 1) if f.local_ty(i).replace(" ", "") in ("&[values::Value]", "&[Value]")]
    if len(arg_locals) != 1:
        raise M.MissingAnchor("eval_built_in_call: expected one &[Value] parameter, found %d" % len(arg_locals))
    argl = arg_locals[0]
    pushes = [(bi, t) for bi, t in f.calls() if bi in region and M.callee_name(t) == "env::Env::push_value"]
    res.floor("DBG-IDENTITY", "push_value sites in the PreludeDbg arm", len(pushes), 1)
    for bi, t in pushes:
        r = f.root_of(t["args"][1], through_named=True)
        for _ in range(3):
            if r[0] == "call" and (M.callee_name(r[2]) or "").endswith("::clone") and r[2]["args"]:
                r = f.root_of(r[2]["args"][0], through_named=True)
        ok = False
        if r[0] == "place" and r[1]["l"] == argl:
            txt = json.dumps(r[1]["p"])
            ok = ('"ci": 0' in txt or '"const_index": 0' in txt)
            for e in r[1]["p"]:
                if isinstance(e, dict) and "index" in e:
                    ok = D.const_int(f, {"copy": {"l": e["index"], "p": []}}) == 0
        if ok:
            res.ok("DBG-IDENTITY", "PreludeDbg pushes a clone of arg_values[0]")
        else:
            res.bad("DBG-IDENTITY", ARM_FN + " # PreludeDbg # pushed-value",
                    "`dbg(e)` does not evaluate to the value of `e`: the PreludeDbg arm pushes something other than a clone of its first argument", f.loc(t.get("span")))
    stops = {s for b in region for s in f.succ[b] if s not in region}
    rng = D.path_event_range(f, arm[1], stops, {bi for bi, _ in pushes})
    if rng[1] <= 1:
        res.ok("DBG-IDENTITY", "at most one value is pushed on any path of the arm (%s)" % (rng,))
    else:
        res.bad("DBG-IDENTITY", ARM_FN + " # PreludeDbg # push-count %s" % (rng,), "the PreludeDbg arm can push %s values" % (rng,), f.loc())
    other = [M.callee_name(t) for bi, t in f.calls() if bi in region and (M.callee_name(t) or "") in
             ("env::Env::pop_value",) or (bi in region and (M.callee_name(t) or "").startswith("eval::Bindings::"))]
    if other:
        res.bad("DBG-IDENTITY", ARM_FN + " # PreludeDbg # other-effects", "the PreludeDbg arm pops values or writes bindings (%s)" % ", ".join(sorted(set(other))), f.loc())
    else:
        res.ok("DBG-IDENTITY", "the arm pops nothing and writes no binding")
    # ---- DBG-STDERR-ONLY
    n_out = 0
    for bi in sorted(region):
        t = f.blocks[bi]["term"]
        if t["t"] == "call":
            n = M.callee_name(t) or ""
            if n == "std::io::_print" or n.endswith("Stdout::write_all") or n.endswith("io::stdout"):
                res.bad("DBG-STDERR-ONLY", ARM_FN + " # PreludeDbg # stdout", "the PreludeDbg arm writes to standard output (%s)" % n, f.loc(t.get("span")))
            if n == "std::io::_eprint":
                n_out += 1
            if n.endswith("String::push_str") or n.endswith("Mutex::<T>::lock"):
                fp = f.field_path(f.root_of(t["args"][0], through_named=True)[1]) if f.root_of(t["args"][0], through_named=True)[0] == "place" else []
                if "stdout_buf" in fp:
                    res.bad("DBG-STDERR-ONLY", ARM_FN + " # PreludeDbg # stdout_buf", "the PreludeDbg arm appends to the nREPL session's stdout buffer", f.loc(t.get("span")))
                if "stderr_buf" in fp:
                    n_out += 1
        for st in f.blocks[bi]["stmts"]:
            if st.get("s") == "assign" and st["rv"]["k"] == "agg" and (st["rv"].get("adt") or "").endswith("ResponseKind"):
                v = st["rv"].get("variant")
                if v == "PrintedStderr":
                    n_out += 1
                else:
                    res.bad("DBG-STDERR-ONLY", ARM_FN + " # PreludeDbg # response " + str(v),
                            "the PreludeDbg arm sends a `%s` response: debug lines must be reported as standard error" % v, f.loc(st.get("span")))
    res.floor("DBG-STDERR-ONLY", "stderr outputs in the PreludeDbg arm (eprint, PrintedStderr, stderr_buf)", n_out, 3)
    res.ok("DBG-STDERR-ONLY", "every output of the arm is a standard-error output (%d sites)" % n_out)

    # ---- WRAP-SPLICE
    w = P.require_fn("wrap_in_dbg::wrap_in_dbg")
    txt = json.dumps(w.blocks)
    has_open = "dbg(" in txt
    idx = [(bi, t) for bi, t in w.calls() if "ops::Index" in (M.callee_name(t) or "") and "str" in (M.callee_name(t) or "")]
    ins = [(bi, t) for bi, t in w.calls() if (M.callee_name(t) or "").endswith(("String::insert_str", "String::insert"))]
    if not idx and len(ins) == 2:
        # the other spelling: copy the text, insert ")" at the end offset first, then "dbg(" at the start offset
        offs = []
        for bi, t in ins:
            rr = w.root_of(t["args"][1], through_named=True)
            offs.append((bi, w.field_path(rr[1])[-1:] if rr[0] == "place" else ["?"], rr[1]["l"] if rr[0] == "place" else None))
        offs.sort(key=lambda x: w.rpo.index(x[0]))
        if [o[1] for o in offs] == [["end_offset"], ["start_offset"]] and offs[0][2] == offs[1][2] and w.dominates(offs[0][0], offs[1][0]) and has_open:
            res.ok("WRAP-SPLICE", "wrap_in_dbg inserts `)` at end_offset, then `dbg(` at start_offset of one expression position")
        else:
            res.bad("WRAP-SPLICE", "wrap_in_dbg::wrap_in_dbg # inserts", "the two insertions are not `)` at end_offset followed by `dbg(` at start_offset of one position (%s)" % [o[1] for o in offs], w.loc())
        idx = None
    if idx is not None:
        res.floor("WRAP-SPLICE", "slices of the source text in wrap_in_dbg", len(idx), 3)
    if idx is not None:
        shapes = []
        for bi, t in idx:
            r = w.root_of(t["args"][1], through_named=True)
            d = None
            if r[0] == "rv" and r[3]["rv"]["k"] == "agg":
                flds = []
                for o in r[3]["rv"]["ops"]:
                    rr = w.root_of(o, through_named=True)
                    if rr[0] == "place":
                        fp = w.field_path(rr[1])
                        flds.append((rr[1]["l"], tuple(fp[-2:])))
                    else:
                        flds.append((None, ("?",)))
                d = ((r[3]["rv"].get("adt") or "").split("::")[-1], tuple(flds))
            shapes.append(d)
        want = {"RangeTo": ("start_offset",), "Range": ("start_offset", "end_offset"), "RangeFrom": ("end_offset",)}
        got = {}
        bases = set()
        for d in shapes:
            if d is None:
                continue
            got[d[0]] = tuple(x[1][-1] for x in d[1])
            for x in d[1]:
                bases.add((x[0], x[1][:-1]))
        if has_open and got == want and len(bases) == 1:
            res.ok("WRAP-SPLICE", "wrap_in_dbg = src[..start] + \"dbg(\" + src[start..end] + \")\" + src[end..] for one expression position")
        else:
            res.bad("WRAP-SPLICE", "wrap_in_dbg::wrap_in_dbg # splice",
                    "the three slices of the source are not [..start_offset], [start_offset..end_offset], [end_offset..] of one position (found %s, %d position(s), `dbg(` literal: %s): "
                    "text outside the selected expression is lost, duplicated or pulled into the call" % (got, len(bases), has_open), w.loc())
    # ---- ANNOTATION-OFFERED (the one clause of the add-type-annotation half that is a shape): the text offered as an annotation
    # is never the printed form of an error type or of NoValue -- the first does not parse as a hint, the second makes
    # every function that ends in `return e` fail its own return check
    a = P.require_fn("add_type_annotation::annotation_src")
    shows = [bi for bi, t in a.calls() if (M.callee_name(t) or "").endswith(("ToString>::to_string", "ToString::to_string")) or "fmt::Display" in (M.callee_name(t) or "")
             or (M.callee_name(t) or "").endswith("std::fmt::format")]
    res.floor("ANNOTATION-OFFERED", "places where annotation_src prints the type", len(shows), 1)
    nv = [sw for sw in D.bool_switches(a) if sw["root"][0] == "call" and (M.callee_name(sw["root"][2]) or "").endswith("Type::is_no_value")]
    err_regions = set()
    for sw in D.enum_switches(a):
        if sw["ety"].endswith("garden_type::Type"):
            for tgt, names in sw["by_target"].items():
                if "Error" in names:
                    err_regions |= D.edge_dominated(a, sw["bb"], tgt)
            if "Error" in sw["otherwise_variants"]:
                err_regions |= D.edge_dominated(a, sw["bb"], sw["otherwise"])
    for b in shows:
        key = "add_type_annotation::annotation_src # printed type"
        in_nv_false = any(sw["false"] is not None and b in D.edge_dominated(a, sw["bb"], sw["false"]) for sw in nv)
        if b in err_regions:
            res.bad("ANNOTATION-OFFERED", key + " # error-type", "annotation_src prints an error type as the suggested annotation: the result is not a type hint", a.loc(a.blocks[b]["term"].get("span")))
        elif not in_nv_false:
            res.bad("ANNOTATION-OFFERED", key + " # no-value", "annotation_src can offer `NoValue` (the type of `return e`) as an annotation: the annotated function then fails "
                    "its return check although it ran before", a.loc(a.blocks[b]["term"].get("span")))
        else:
            res.ok("ANNOTATION-OFFERED", key + ": only outside the Error arm and on the false edge of is_no_value()")
    # ---- SAME-CORE
    E = P.edges()
    core_fn = "wrap_in_dbg::wrap_in_dbg"
    lsp_calls = [p for p, g in P.funcs.items() if p.startswith("lsp::") and any(M.callee_name(t) == core_fn for _, t in g.calls())]
    seen = set()
    st_ = [p for p in P.funcs if p in ("main", "main::main")]
    if not st_:
        raise M.MissingAnchor("main not found")
    seen.update(st_)
    while st_:
        x = st_.pop()
        for k, tgt, bi in E.get(x, []):
            if k == "live" or tgt in seen or tgt.startswith("lsp::"):
                continue
            seen.add(tgt)
            st_.append(tgt)
    if lsp_calls and core_fn in seen:
        res.ok("SAME-CORE", "%s and the command line both call wrap_in_dbg::wrap_in_dbg" % lsp_calls[0])
    else:
        res.bad("SAME-CORE", "lsp -> wrap_in_dbg::wrap_in_dbg", "the language server and the command line no longer share wrap_in_dbg (lsp callers: %s; reached from main outside lsp: %s)" % (
            lsp_calls, core_fn in seen), w.loc())
    res.explanation = (
        "Structural clauses of the wrap-in-dbg half of C21 on MIR: the value pushed by the PreludeDbg arm is its first argument (operand "
        "provenance + path count inside the arm's region), every output site of the arm is a standard-error output in each of the five "
        "output modes, and the splice in wrap_in_dbg uses the two offsets of one expression position around the literal `dbg(` / `)`. "
        "Not decided: that the selected text is an expression whose wrapping parses and type-checks in every context, the whole "
        "add-type-annotation half, and the equality of outputs of the two programs.")
    res.assumptions += ["`dbg` in the prelude is bound to BuiltInFunctionKind::PreludeDbg (values.rs name table, covered by the existing tests)",
                        "evaluating the argument once is what the call machinery does for every built-in (C02/C07 cover it)"]
