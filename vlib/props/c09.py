"""C09 The JSON session answers every request and never dies.

  PANIC-INV      every panic-capable MIR site reachable from the worker thread (handle_request_in_worker, eval_worker)
                 and from handle_request is discharged or reviewed -- a panic there kills the worker and every later
                 request is lost. Sites in the evaluator / front end are included (they run on the worker thread).
  RESPONSE-ONCE  in handle_request_in_worker every path from entry to return prints exactly one response
                 (print_as_json), except the Interrupt request which is answered by handle_request.
  WORKER-LOOP    eval_worker's loop leaves only when the channel closes.
"""
from .. import panicinv as PI, mir as M, dflow as D

LAYERS = ["json"]


def worker_loop_exits(P, res, fn_name, rule="WORKER-LOOP", floor=1):
    """the request loop of a worker thread leaves only when its channel is closed: every exit edge of the loop comes from the
    switch on the result of recv() / the channel iterator's next(). Any other exit (a flag, a counter) drops the requests
    that are still queued without an answer. Shared by C09 (eval_worker) and C30 (session_worker)."""
    w = P.require_fn(fn_name)
    loops = D.natural_loops(w)
    res.floor(rule, "loops in %s" % fn_name.split("::")[-1], len(loops), floor)
    byh = {}
    for (h, a, body) in loops:
        byh.setdefault(h, set()).update(body)
    # only loops that dequeue
    deq = [bi for bi, t in w.calls() if (M.callee_name(t) or "").endswith(("::recv", "Iterator>::next")) and ("mpsc" in (M.callee_name(t) or "") or (M.callee_name(t) or "").endswith("Receiver::<T>::recv"))]
    for h, body in byh.items():
        if deq and not any(d in body for d in deq):
            continue
        exits = {(b, s) for b in body for s in w.succ[b] if s not in body and w.blocks[s]["term"]["t"] != "unreachable"}
        okx = True
        for (b, s) in exits:
            t = w.blocks[b]["term"]
            if t["t"] != "switch":
                okx = False
                continue
            r = w.root_of(t["discr"])
            src = None
            if r[0] == "rv" and r[3]["rv"]["k"] == "discr":
                d = w.single_def(r[3]["rv"]["place"]["l"])
                if d and d[1] == "term":
                    src = M.callee_name(d[2]) or ""
            if src is None and r[0] == "call" and (M.callee_name(r[2]) or "").endswith(("::is_err", "::is_ok")) and r[2]["args"]:
                # `if tx.send(resp).is_err() { break }`: the peer that would read the answers is gone
                r2 = w.root_of(r[2]["args"][0])
                if r2[0] == "call" and (M.callee_name(r2[2]) or "").endswith("Sender::<T>::send"):
                    src = "response channel closed::recv"
            if not (src and (src.endswith("::recv") or src.endswith("::next"))):
                okx = False
        if okx:
            res.ok(rule, "%s loop at bb%d leaves only on channel close" % (fn_name.split("::")[-1], h))
        else:
            res.bad(rule, "%s # loop-exit" % fn_name,
                    "%s's request loop has an exit that is not the channel-closed case: requests still in the queue are never answered" % fn_name.split("::")[-1], w.loc())


def run(ctx, res):
    P = ctx.P
    PI.valstack_writers(P, res)
    reach, inv = PI.run(ctx, res, LAYERS, floor_fns=575, floor_sites=370)
    # FRAME-COVER (shared with C10): `:abort`, eval-up-to and the test runner leave the session through pop_to_toplevel; a
    # pending entry or value that survives it is re-entered by the next `:resume` / `:skip` with its operands gone, and the
    # eval thread panics on an empty value stack
    from . import c10 as _c10
    _c10.frame_cover(P, res)
    f = P.require_fn("json_session::handle_request_in_worker")
    # ---- RESPONSE-ONCE: count print_as_json events on every path entry -> return
    ev = {}
    for bi, t in f.calls():
        n = M.callee_name(t) or ""
        if n.endswith("json_session::print_as_json"):
            ev[bi] = (1, 1)
    res.floor("RESPONSE-ONCE", "print_as_json calls in handle_request_in_worker", len(ev), 1)
    # callee summaries: handlers that print themselves
    summ = response_summaries(P)
    for bi, t in f.calls():
        n = M.callee_name(t) or ""
        if n in summ and bi not in ev:
            ev[bi] = summ[n]
    # the Interrupt request is answered by handle_request on the reader thread, not by the worker: its arm counts
    # as one (external) response, provided handle_request does print one on its Interrupt path
    n_int = 0
    for sw in D.enum_switches(f):
        if not D.short_ty(sw["ety"]).startswith("Request"):
            continue
        for tgt, names in sw["by_target"].items():
            if names == ["Interrupt"] and tgt not in ev:
                ev[tgt] = (1, 1)
                n_int += 1
    hr = P.require_fn("json_session::handle_request")
    hr_prints = [bi for bi, t in hr.calls() if (M.callee_name(t) or "").endswith("json_session::print_as_json")]
    if n_int == 1 and hr_prints:
        res.ok("RESPONSE-ONCE", "Interrupt arm: answered by handle_request (print_as_json at %d site(s)), not by the worker" % len(hr_prints))
    else:
        res.bad("RESPONSE-ONCE", "json_session # interrupt-answer",
                "the Interrupt request is not answered exactly once outside the worker (arms=%d, prints in handle_request=%d)" % (n_int, len(hr_prints)), hr.loc())
    rng = D.event_ranges(f, ev, cap=3)
    bad = []
    for x in f.exits():
        r = rng.get(x)
        if r is None:
            continue
        if r != (1, 1):
            bad.append((x, r))
    if not bad:
        res.ok("RESPONSE-ONCE", "handle_request_in_worker: every return path has exactly one response (%d exits)" % len(f.exits()))
    for x, r in bad:
        res.bad("RESPONSE-ONCE", "json_session::handle_request_in_worker # responses on a return path in [%d,%d]" % r,
                "a path through handle_request_in_worker sends between %d and %s responses" % (r[0], "%d" % r[1] if r[1] < 3 else "3+"),
                f.loc(f.blocks[x]["term"].get("span")))
    worker_loop_exits(P, res, "json_session::eval_worker")
    # ---- FRAMING-EXACT: the reader must consume exactly Content-Length bytes for a request (read_exact); a short
    # read turns one request into a truncated request plus a header-less line, i.e. two error responses.
    js = P.require_fn("json_session::json_session")
    exact = [bi for bi, t in js.calls() if (M.callee_name(t) or "").endswith("Read>::read_exact") or (M.callee_name(t) or "").endswith("Read::read_exact")]
    plain = [bi for bi, t in js.calls() if (M.callee_name(t) or "").endswith(("Read::read", "Read>::read", "Read::read_to_end", "Read>::read_to_end", "Read::read_buf", "Read>::read_buf"))]
    utf = [(bi, t) for bi, t in js.calls() if (M.callee_name(t) or "").endswith("String::from_utf8")]
    okf = bool(exact) and not plain and bool(utf) and all(any(js.dominates(e, bi) for e in exact) for bi, _ in utf)
    if okf:
        res.ok("FRAMING-EXACT", "json_session: the payload buffer is filled by read_exact before it is decoded and dispatched")
    else:
        res.bad("FRAMING-EXACT", "json_session::json_session # payload-read",
                "the request payload is not read with read_exact(Content-Length) before decoding (read_exact=%d, other reads=%d): a "
                "payload longer than one pipe read is split into a truncated request and a stray line" % (len(exact), len(plain)), js.loc())
    # the session's :resume relies on every non-step exit of the interpreter loop restoring the popped
    # expression (shared with C08): a lost entry makes a later pop run the value stack dry and kills the worker
    from . import c08 as _c08
    from ..core import Result as _R
    sub = _R("C09")
    _c08.run(ctx, sub)
    for (rule, inst, st) in sub.obligations:
        if st != "violated":
            res.ok("C08:" + rule, inst, st)
    for v in sub.violations:
        res.bad("C08:" + v.rule, v.key, v.msg + " (then `:resume` re-enters an expression whose operands are gone)", v.where, v.data)
    # ---- READER-NEVER-BLOCKS (shared with C30/C31): handle_request runs on the thread that reads stdin and is the only place an
    # `interrupt` request is seen; if handing a request to the worker could wait (a bounded queue), a running eval is
    # never interrupted and no later request is answered
    from . import c31 as _c31
    _c31.reader_never_blocks(P, res, root="json_session::handle_request", prefix="json_session::", floor=1)
    # ---- RESTORE-BALANCE (shared with C07): a step that fails must hand back as many values as it popped; otherwise the
    # re-run of that step by `:resume` pops values that are not there and the worker dies on an empty value stack
    from . import c07 as _c07
    sites, _inh, _help, _sh = _c07.restore_sites(ctx)

    def bag(seq):
        out = []
        for x in seq:
            if isinstance(x, tuple):
                out.append((x[0] if x[0] == "opt" else "vec", x[1], len(x[2]) if x[0] == "opt" else 0))
            else:
                out.append(("v", x, 0))
        return sorted(out)
    nb = 0
    for s in sites:
        if s["ok"] or s["restored"] is None or s["expected"] is None:
            nb += 1 if s["ok"] else 0
            continue
        if bag(s["restored"]) != bag(s["expected"]):
            res.bad("RESTORE-BALANCE", "eval::%s # %s # restores %s of %s" % (s["fn"], s["arm"], _c07.show(s["restored"]), _c07.show(s["expected"])),
                    "%s pops %s and on this error hands back %s: `:resume` re-runs the step and pops values that were never pushed back, "
                    "so the worker thread dies on an empty value stack" % (s["fn"], _c07.show(s["popped"]), _c07.show(s["restored"])),
                    "%s:%d" % (_c07.EVAL, s["line"]))
        else:
            nb += 1
    res.ok("RESTORE-BALANCE", "%d error hand-offs in eval.rs give back as many values as the step popped" % nb)
    res.floor("RESTORE-BALANCE", "RestoreValues hand-offs", len(sites), 100)
    if ctx.tier == "thorough":
        from .. import loops as LP
        LP.run(ctx, res, reach)
    res.explanation = (
        "No-panic inventory over everything the JSON session's worker thread can execute (%d functions), plus "
        "RESPONSE-ONCE as an interval path-count dataflow over handle_request_in_worker's CFG (with callee summaries "
        "for handlers that print the response themselves) and the worker-loop exit shape. Not decided: the content "
        "and order of responses, the stdin framing loop." % len(reach))
    res.assumptions += ["see C01/C02 for the PANIC-INV assumptions"]


def response_summaries(P, depth=3):
    """callee path -> (lo, hi) number of print_as_json calls on any of its return paths (local functions in json_session)."""
    out = {}
    names = [p for p in P.funcs if p.startswith("json_session::") and "{closure" not in p]
    for _ in range(depth):
        for p in names:
            g = P.funcs[p]
            ev = {}
            for bi, t in g.calls():
                n = M.callee_name(t) or ""
                if n.endswith("json_session::print_as_json"):
                    ev[bi] = (1, 1)
                elif n in out and out[n] != (0, 0):
                    ev[bi] = out[n]
            if not ev:
                out[p] = (0, 0)
                continue
            rng = D.event_ranges(g, ev, cap=3)
            lo, hi = None, None
            for x in g.exits():
                r = rng.get(x)
                if r is None:
                    continue
                lo = r[0] if lo is None else min(lo, r[0])
                hi = r[1] if hi is None else max(hi, r[1])
            out[p] = (lo or 0, hi or 0)
    return out
