"""C26 Test verdicts are independent and the exit status is honest (two structural clauses).

  EXIT-GUARD       in test_runner::run_tests_in_files, process::exit(nonzero) is edge-dominated by the
                   true edge of `tests_failed > 0`; the true edge reaches the exit unconditionally;
                   no exit(0)/other exit on the way; tests_failed is `summary.tests.iter().filter(err.is_some()).count()`.
  COUNT-AGREE      describe_tests derives its failure count from the same summary with the same predicate
                   (sibling agreement of the two closures), and passed = total - failed.
  ISOLATION-SHAPE  in eval::eval_tests every loop iteration that continues passes pop_to_toplevel, and each
                   iteration records exactly one verdict row.
"""
from .. import mir as M
from .. import dflow as D
from ..panics import describe_operand


def closure_pred(P, f, op):
    """describe the predicate closure passed as `op`: returns e.g. 'is_some(.1)'."""
    r = f.root_of(op)
    cpath = None
    if r[0] == "rv" and r[3]["rv"]["k"] == "agg" and r[3]["rv"].get("ak") == "closure":
        cpath = r[3]["rv"]["def"]
    elif r[0] == "const" and "closure" in r[1]:
        cpath = r[1]["closure"]
    if cpath is None:
        return None, None
    c = P.fn(cpath)
    if c is None:
        return cpath, None
    calls = [(bi, t) for bi, t in c.calls()]
    if len(calls) != 1:
        return cpath, "calls=%d" % len(calls)
    bi, t = calls[0]
    n = (M.callee_name(t) or "").split("::")[-1]
    # the argument: a field of the closure's tuple parameter
    a = c.root_of(t["args"][0], through_named=True) if t["args"] else None
    fld = "?"
    if a and a[0] == "place":
        names = c.field_path(a[1])
        if names and a[1]["l"] <= c.argc:
            fld = "." + names[-1]
    # result must be returned unchanged
    ret_ok = t["dest"]["l"] == 0 and not t["dest"]["p"]
    return cpath, "%s(%s)%s" % (n, fld, "" if ret_ok else "+post")


def fail_count_shape(P, f, local):
    """local = X.tests.iter().filter(<closure>).count()  -> (source place names, predicate)"""
    d = f.single_def(local)
    if not d or d[1] != "term":
        return None
    t = d[2]
    if not (M.callee_name(t) or "").endswith("::count"):
        return None
    r = f.root_of(t["args"][0])
    if r[0] != "call" or not (M.callee_name(r[2]) or "").endswith("Iterator::filter"):
        return None
    ft = r[2]
    srcdesc = "?"
    src = f.root_of(ft["args"][0])
    if src[0] == "call" and (M.callee_name(src[2]) or "").endswith("::iter"):
        s2 = f.root_of(src[2]["args"][0], through_named=False)
        if s2[0] == "place":
            base = f.local_name(s2[1]["l"]) or ("_%d" % s2[1]["l"])
            srcdesc = ".".join([base] + f.field_path(s2[1]))
    cpath, pred = closure_pred(P, f, ft["args"][1])
    return srcdesc, pred


def all_files_loaded(P, res, rule="ALL-FILES-LOADED"):
    """every file named on the command line reaches run_tests_in_files: the loop in main that reads them appends exactly one
    entry per path on every path of its body (methods and types are registered globally, so a test selected with -n can
    depend on a file that contains no selected test; skipping such a file makes the verdict depend on the selection)."""
    mains = [p for p in P.funcs if p in ("main", "main::main")]
    if not mains:
        raise M.MissingAnchor("main")
    m = P.funcs[mains[0]]
    calls = [(bi, t) for bi, t in m.calls() if M.callee_name(t) == "test_runner::run_tests_in_files"]
    if len(calls) != 1:
        raise M.MissingAnchor("main: exactly one call of run_tests_in_files (found %d)" % len(calls))
    cb, ct = calls[0]
    def base_local(op):
        r_ = m.root_of(op)
        for _ in range(4):
            if r_[0] == "call" and (M.callee_name(r_[2]) or "").endswith(("::deref", "::as_slice", "::as_ref", "::borrow")) and r_[2]["args"]:
                r_ = m.root_of(r_[2]["args"][0])
        return r_[1]["l"] if r_[0] == "place" else None
    vec = base_local(ct["args"][0])
    pushes = []
    for bi, t in m.calls():
        if (M.callee_name(t) or "").endswith("Vec::<T, A>::push") and t["args"]:
            if vec is not None and base_local(t["args"][0]) == vec:
                pushes.append(bi)
    collects = [bi for bi, t in m.calls() if (M.callee_name(t) or "").endswith("Iterator::collect") and t["dest"]["l"] == vec]
    if collects and not pushes:
        names = set()
        r2 = m.root_of(m.blocks[collects[0]]["term"]["args"][0], through_named=True)
        for _ in range(8):
            if r2[0] != "call":
                break
            names.add((M.callee_name(r2[2]) or "").split("::")[-1])
            if not r2[2]["args"]:
                break
            r2 = m.root_of(r2[2]["args"][0], through_named=True)
        dropping = sorted(names & {"filter", "filter_map", "skip", "take", "skip_while", "take_while", "step_by", "flat_map"})
        if dropping:
            res.bad(rule, "main # test files # " + ",".join(dropping), "the files handed to run_tests_in_files pass through %s: a listed file can be left out" % ",".join(dropping), m.loc(ct.get("span")))
        else:
            res.ok(rule, "main: the listed files are mapped one to one into the vector given to run_tests_in_files")
        return
    res.floor(rule, "pushes to the vector handed to run_tests_in_files", len(pushes), 1)
    loops = {}
    for h, a, body in D.natural_loops(m):
        loops.setdefault(h, set()).update(body)
    done = False
    for h, body in sorted(loops.items()):
        mine = [b for b in pushes if b in body]
        if not mine:
            continue
        starts = []
        for b in body:
            t = m.blocks[b]["term"]
            if t["t"] == "switch" and any(x not in body for x in m.succ[b]) and m.dominates(b, mine[0]):
                starts += [x for x in m.succ[b] if x in body]
        rng = D.path_event_range(m, starts[0], [h], mine) if starts else None
        done = True
        if rng == (1, 1):
            res.ok(rule, "main: exactly one (source, path) entry per listed file on every path of the reading loop")
        else:
            res.bad(rule, "main # test files # entries per file %s" % (rng,),
                    "the loop that reads the files named on the command line does not hand every one of them to run_tests_in_files (%s entries per file): "
                    "a file that is skipped is never loaded, so a test that uses a method or type it defines passes in the full run and fails when selected" % (rng,),
                    m.loc(m.blocks[mine[0]]["term"].get("span")))
    if not done:
        res.bad(rule, "main # test files # no-loop", "cannot find the loop that collects the files for run_tests_in_files", m.loc(ct.get("span")))


def run(ctx, res):
    P = ctx.P
    all_files_loaded(P, res)
    f = P.require_fn("test_runner::run_tests_in_files")
    # ---- EXIT-GUARD -----------------------------------------------------------------
    exits = [(bi, t) for bi, t in f.calls() if M.callee_name(t) == "std::process::exit"]
    res.floor("EXIT-GUARD", "process::exit calls in run_tests_in_files", len(exits), 1)
    cmp_sw = None
    for bi in f.rpo:
        t = f.blocks[bi]["term"]
        if t["t"] == "switch" and t["dty"] == "bool":
            r = f.root_of(t["discr"])
            if r[0] == "rv" and r[3]["rv"]["k"] == "binop" and r[3]["rv"]["op"] in ("Gt", "Ne", "Ge"):
                rv = r[3]["rv"]
                a = f.root_of(rv["a"])
                k = D.const_int(f, rv["b"])
                if a[0] == "place" and not a[1]["p"] and f.local_name(a[1]["l"]) and k is not None:
                    shape = fail_count_shape(P, f, a[1]["l"])
                    if shape:
                        cmp_sw = (bi, t, rv["op"], k, a[1]["l"], shape)
    if cmp_sw is None:
        res.bad("EXIT-GUARD", "test_runner::run_tests_in_files # no-failure-test",
                "no test of the form `<failure count> > 0` where the count is filter(..).count() over the summary", f.loc())
    else:
        sb, st, op, k, loc, shape = cmp_sw
        ok_cmp = (op == "Gt" and k == 0) or (op == "Ne" and k == 0) or (op == "Ge" and k == 1)
        if not ok_cmp:
            res.bad("EXIT-GUARD", "test_runner::run_tests_in_files # threshold",
                    "the exit status is decided by `count %s %d`, not by `count > 0` (some failing runs exit 0)" % (op, k), f.loc(st["span"]))
        else:
            res.ok("EXIT-GUARD", "threshold: %s(%s, %d)" % (op, f.local_name(loc), k))
        ft, tt = None, st["otherwise"]
        for v, b in st["targets"]:
            if v == 0:
                ft = b
        tre = D.edge_dominated(f, sb, tt)
        for bi, t in exits:
            code = D.const_int(f, t["args"][0])
            key = "test_runner::run_tests_in_files # exit(%s)" % code
            if bi in tre and code not in (0, None):
                # true edge reaches this exit unconditionally: every path from tt ends here
                others = D.reach_from(f, [tt], avoid_blocks=[bi])
                escapes = [b for b in others if f.blocks[b]["term"]["t"] == "return"]
                if escapes:
                    res.bad("EXIT-GUARD", key + " # conditional",
                            "after `failures > 0` a path returns normally without calling process::exit", f.loc(t["span"]))
                else:
                    res.ok("EXIT-GUARD", key + " on the true edge of the failure test, unconditionally")
                    res.sample({"rule": "EXIT-GUARD", "exit_line": t["span"]["line"], "cmp": "%s %s %d" % (f.local_name(loc), op, k)})
            elif bi not in tre and code not in (0, None):
                res.bad("EXIT-GUARD", key + " # unguarded",
                        "process::exit(%s) is not guarded by the failure test (a passing run can exit non-zero)" % code, f.loc(t["span"]))
            elif code == 0 or code is None:
                res.bad("EXIT-GUARD", key + " # exit-zero-or-dynamic",
                        "run_tests_in_files exits with a status that is not a non-zero constant", f.loc(t["span"]))
        if not any(bi in tre for bi, _ in exits):
            res.bad("EXIT-GUARD", "test_runner::run_tests_in_files # no-exit-on-failure",
                    "no process::exit on the true edge of the failure test: failing runs exit 0", f.loc(st["span"]))
        # no exit / early return on the false edge before function end that is non-zero handled above
        # ---- COUNT-AGREE
        src, pred = shape
        g = P.require_fn("test_runner::describe_tests")
        # the failure count of describe_tests: the local defined as `<..>.tests.iter().filter(<closure>).count()`
        gl = None
        gshape = None
        for l in range(len(g.locals)):
            sh_ = fail_count_shape(P, g, l)
            if sh_ is not None:
                gl, gshape = l, sh_
                break
        if pred != "is_some(.1)":
            res.bad("COUNT-AGREE", "test_runner::run_tests_in_files # predicate",
                    "the failure count is not `filter(|(_, err, _)| err.is_some())` (found %s)" % pred, f.loc())
        elif gshape is None or gshape[1] != pred:
            res.bad("COUNT-AGREE", "test_runner::describe_tests # predicate",
                    "describe_tests counts failures with a different predicate (%s) than the exit status (%s)" % (gshape, pred), g.loc())
        else:
            res.ok("COUNT-AGREE", "run_tests_in_files and describe_tests both count %s over %s / %s" % (pred, src, gshape[0]))
        if not src.endswith(".tests"):
            res.bad("COUNT-AGREE", "test_runner::run_tests_in_files # source", "failure count is not taken over summary.tests (%s)" % src, f.loc())
        # describe_tests is called with the same summary local
        dcalls = [(bi, t) for bi, t in f.calls() if M.callee_name(t) == "test_runner::describe_tests"]
        evcalls = [(bi, t) for bi, t in f.calls() if M.callee_name(t) == "eval::eval_tests"]
        if len(dcalls) == 1 and len(evcalls) == 1:
            sumloc = evcalls[0][1]["dest"]["l"]
            r = f.root_of(dcalls[0][1]["args"][1])
            same = r[0] == "place" and r[1]["l"] == sumloc
            if same:
                res.ok("COUNT-AGREE", "describe_tests(&env, &summary) prints the summary returned by eval_tests")
            else:
                res.bad("COUNT-AGREE", "test_runner::run_tests_in_files # printed-summary",
                        "describe_tests is not given the summary returned by eval_tests", f.loc(dcalls[0][1]["span"]))
        else:
            res.bad("COUNT-AGREE", "test_runner::run_tests_in_files # calls",
                    "expected one eval_tests and one describe_tests call (found %d, %d)" % (len(evcalls), len(dcalls)), f.loc())
        # passed = total - failed in describe_tests: a subtraction whose left operand is `<..>.tests.len()` and whose right
        # operand is the failure count found above (locals identified by what defines them, not by name)
        def rooted_local(op):
            q = M.op_place(op)
            for _ in range(6):
                if q is None:
                    return None
                if g.local_name(q["l"]) or q["l"] == gl:
                    return q["l"]
                d_ = g.single_def(q["l"])
                if d_ is None or d_[1] == "term" or d_[2]["rv"]["k"] != "use":
                    return q["l"]
                q = M.op_place(d_[2]["rv"]["a"])
            return None

        def is_total(l):
            d_ = g.single_def(l) if l is not None else None
            if not d_ or d_[1] != "term" or not (M.callee_name(d_[2]) or "").endswith("::len"):
                return False
            r_ = g.root_of(d_[2]["args"][0], through_named=True)
            return r_[0] == "place" and g.field_path(r_[1])[-1:] == ["tests"]
        okp = False
        for b_ in g.blocks:
            for stt in b_["stmts"]:
                if stt.get("s") == "assign" and stt["rv"]["k"] == "binop" and stt["rv"]["op"].startswith("Sub"):
                    la, lb_ = rooted_local(stt["rv"]["a"]), rooted_local(stt["rv"]["b"])
                    if lb_ == gl and gl is not None and is_total(la):
                        okp = True
        if okp:
            res.ok("COUNT-AGREE", "describe_tests: passed = <summary>.tests.len() - <failure count>")
        else:
            res.bad("COUNT-AGREE", "test_runner::describe_tests # passed", "the number of passed tests is not `tests.len()` minus the failure count", g.loc())

    # ---- SELECTION-FILTER: which tests run is decided only by "is a test" and the -n name filter. Any other
    # condition on the way to `test_items.push` silently drops tests from the run, the counts and the exit status.
    sel_locals = set()
    for bi, t in f.calls():
        if M.callee_name(t) == "eval::eval_tests" and t["args"]:
            r = f.root_of(t["args"][0], through_named=False)
            for _ in range(4):
                if r[0] == "call" and r[2]["args"]:
                    r = f.root_of(r[2]["args"][0], through_named=False)
                else:
                    break
            if r[0] == "place":
                sel_locals.add(r[1]["l"])
    pushes = []
    for bi, t in f.calls():
        n = M.callee_name(t) or ""
        if n.endswith("::push") and t["args"]:
            r = f.root_of(t["args"][0], through_named=False)
            if r[0] == "place" and r[1]["l"] in sel_locals:
                pushes.append(bi)
    def switch_kind(g, bi):
        t = g.blocks[bi]["term"]
        r = g.root_of(t["discr"], through_named=True)
        kind = None
        if r[0] == "rv" and r[3]["rv"]["k"] == "discr":
            src = g.root_of({"copy": {"l": r[3]["rv"]["place"]["l"], "p": []}}, through_named=True)
            if src[0] == "call" and (M.callee_name(src[2]) or "").endswith(("::next",)):
                kind = "iterator"
            elif "ToplevelItem" in str(r[3]["rv"].get("ety", "")):
                kind = "is-a-test"
            elif "Option" in str(r[3]["rv"].get("ety", "")) or "Result" in str(r[3]["rv"].get("ety", "")):
                kind = "iterator" if src[0] == "call" and "next" in (M.callee_name(src[2]) or "") else None
        elif r[0] == "call" and (M.callee_name(r[2]) or "").endswith("str>::contains"):
            kind = "name-filter"
            # both sides of the comparison must have gone through the same transformation (none, today): lower-casing
            # only the test's name makes every filter that contains a capital letter match nothing
            def transforms(op):
                out = []
                rr = g.root_of(op, through_named=True)
                for _ in range(6):
                    if rr[0] != "call" or not rr[2]["args"]:
                        break
                    nm = (M.callee_name(rr[2]) or "").split("::")[-1]
                    if nm not in ("deref", "as_str", "as_ref", "borrow", "clone", "to_owned", "to_string", "unwrap_or_default", "cloned"):
                        out.append(nm)
                    rr = g.root_of(rr[2]["args"][0], through_named=True)
                return out
            ta, tb = transforms(r[2]["args"][0]), transforms(r[2]["args"][1]) if len(r[2]["args"]) > 1 else []
            if ta != tb:
                kind = None
                return (kind, "name %s the filter %s (the two sides are transformed differently)" % (".".join(ta) or "as written", ".".join(tb) or "as written"), bi)
        return (kind, describe_operand(g, t["discr"]), bi)
    # iterator form: the selected vector is `all.iter().filter(|item| ..).cloned().collect()`; the closure is the condition
    from .. import panicinv as PI
    filters = []
    for l in sorted(sel_locals):
        r = f.root_of({"copy": {"l": l, "p": []}}, through_named=True)
        for _ in range(8):
            if r[0] == "place":
                dd = [d for d in f.defs.get(r[1]["l"], []) if d[1] == "term"]
                if len(dd) != 1:
                    break
                r = ("call", dd[0][0], dd[0][2])
                continue
            if r[0] != "call":
                break
            t = r[2]
            nm = (M.callee_name(t) or "").split("::")[-1]
            for a in t["args"][1:]:
                cp = PI._closure_of(f, a)
                if cp and cp in P.funcs:
                    filters.append((nm, P.funcs[cp]))
            if not t["args"]:
                break
            r = f.root_of(t["args"][0], through_named=True)
    res.floor("SELECTION-FILTER", "test_items.push sites", len(pushes) + len(filters), 1)
    for nm, c in filters:
        conds = [switch_kind(c, bi) for bi in c.rpo if c.blocks[bi]["term"]["t"] == "switch"]
        extra = [x for x in conds if x[0] is None]
        if nm != "filter" or extra:
            why = extra[0][1][:80] if extra else "the adapter is `%s`, not a plain filter" % nm
            res.bad("SELECTION-FILTER", "test_runner::run_tests_in_files # extra-condition # " + why[:60],
                    "a test is selected for the run only if `%s` also holds: tests can be dropped from the run (and from the "
                    "failure count that decides the exit status) for a reason other than the -n filter" % why, c.loc())
        else:
            res.ok("SELECTION-FILTER", "the selection closure tests only %s" % sorted({x[0] for x in conds}))
    for pb in pushes:
        conds = []
        for bi in f.rpo:
            t = f.blocks[bi]["term"]
            if t["t"] != "switch" or not f.dominates(bi, pb) or bi == pb:
                continue
            on_edge = any(pb in D.edge_dominated(f, bi, tgt) for tgt in set(f.succ[bi]))
            if not on_edge:
                continue
            conds.append(switch_kind(f, bi))
        extra = [c for c in conds if c[0] is None]
        if extra:
            res.bad("SELECTION-FILTER", "test_runner::run_tests_in_files # extra-condition # " + extra[0][1][:60],
                    "a test is selected for the run only if `%s` also holds: tests can be dropped from the run (and from the "
                    "failure count that decides the exit status) for a reason other than the -n filter" % extra[0][1][:80],
                    f.loc(f.blocks[extra[0][2]]["term"].get("span")))
        else:
            res.ok("SELECTION-FILTER", "test_items.push is conditional only on %s" % sorted({c[0] for c in conds}))
    # ---- NO-SHARED-BUDGET: `Env.ticks` is one counter for the whole run and is never reset between tests, so a
    # tick or stack limit configured for `garden test` would be a budget shared by all selected tests: a test's
    # verdict would then depend on which tests ran before it. Either no limit is set on this path, or the counter is
    # reset for every test.
    from .. import sandbox as SB
    reach_t = P.reachable([f.path])
    limit_stores = []
    for fld in ("tick_limit", "stack_limit"):
        for pth, ws in SB.field_stores(P, fld).items():
            if pth in reach_t and not pth.startswith("env::Env::new"):
                for (bi, si, rv, sp) in ws:
                    is_none = rv["k"] == "agg" and rv.get("variant") == "None"
                    if not is_none:
                        limit_stores.append((pth, fld, sp))
    tick_resets = [pth for pth, ws in SB.field_stores(P, "ticks").items() if pth in ("eval::eval_tests",)]
    if limit_stores and not tick_resets:
        pth, fld, sp = limit_stores[0]
        res.bad("NO-SHARED-BUDGET", "%s # sets %s" % (pth, fld),
                "`%s` sets Env.%s on the `garden test` path, but Env.ticks is never reset between tests: the limit is a budget for "
                "the whole run, so a test passes alone and fails after enough other tests" % (pth, fld), P.funcs[pth].loc(sp))
    else:
        res.ok("NO-SHARED-BUDGET", "no run-wide tick/stack limit is configured on the garden test path (limit stores=%d, per-test resets=%d)" % (len(limit_stores), len(tick_resets)))
    # ---- ISOLATION-SHAPE ---------------------------------------------------------------
    for fn_name in ("eval::eval_tests",):
        h = P.require_fn(fn_name)
        evs = [bi for bi, t in h.calls() if M.callee_name(t) == "eval::eval"]
        pops = [bi for bi, t in h.calls() if M.callee_name(t) == "env::Stack::pop_to_toplevel"]
        if len(evs) != 1:
            res.bad("ISOLATION-SHAPE", fn_name + " # eval-calls", "expected one eval call per iteration, found %d" % len(evs), h.loc())
            continue
        ev = evs[0]
        # loop head: the `next` call whose loop contains ev
        heads = [hh for (hh, a, body) in D.natural_loops(h) if ev in body]
        if not heads:
            res.bad("ISOLATION-SHAPE", fn_name + " # no-loop", "eval is not called inside a loop over the tests", h.loc())
            continue
        head = heads[0]
        after = h.blocks[ev]["term"]["target"]
        r = D.reach_from(h, [after], avoid_blocks=pops + [ev])
        if head in r:
            res.bad("ISOLATION-SHAPE", fn_name + " # continue-without-reset",
                    "a test iteration can continue to the next test without pop_to_toplevel (state of one test leaks into the next)",
                    h.loc(h.blocks[ev]["term"]["span"]))
        else:
            res.ok("ISOLATION-SHAPE", fn_name + ": every path from eval back to the loop head passes pop_to_toplevel")
        # exactly one verdict row per iteration
        pushes = []
        for bi, t in h.calls():
            n = M.callee_name(t) or ""
            if n.endswith("Vec::<T, A>::push") and t["args"]:
                rr = h.root_of(t["args"][0])
                # the verdict vector: its element type is the (name, Option<EvalError>, ..) row
                if rr[0] == "place" and "EvalError" in h.local_ty(rr[1]["l"]) and "Vec<(" in h.local_ty(rr[1]["l"]):
                    pushes.append(bi)
        rets = [bi for bi in h.reachable_blocks() if h.blocks[bi]["term"]["t"] == "return"]
        rng = D.path_event_range(h, after, [head] + rets, pushes)
        if rng == (1, 1):
            res.ok("ISOLATION-SHAPE", fn_name + ": exactly one verdict row is recorded on every path of an iteration")
            res.sample({"rule": "ISOLATION-SHAPE", "fn": fn_name, "verdict_pushes": len(pushes), "range": list(rng)})
        else:
            res.bad("ISOLATION-SHAPE", fn_name + " # verdict-rows",
                    "an iteration of the test loop records %s verdict rows (must be exactly 1 on every path)" % (rng,), h.loc())
    res.extra["functions_analysed"] = 3
    res.explanation = (
        "Two structural clauses. EXIT-GUARD/COUNT-AGREE: in run_tests_in_files the only non-zero process::exit is edge-dominated "
        "by the true edge of `tests_failed > 0`, reached unconditionally from it, with tests_failed computed by the same "
        "filter(err.is_some()).count() over the same summary that describe_tests prints (closure bodies compared). "
        "ISOLATION-SHAPE: in eval_tests no path leads from a finished eval to the next iteration without pop_to_toplevel, and "
        "the number of verdict rows pushed per iteration is exactly 1 on every path (min=max path count on the CFG). What "
        "pop_to_toplevel resets is checked under C10. Independence with respect to namespace-level state is not decided.")
    res.assumptions += ["process exit status is otherwise 0 when main returns normally"]
