"""Thorough tier of C25: native loops and native recursion reachable from eval::eval."""
from .. import loops as LP


def run(ctx, res, reach):
    LP.run(ctx, res, reach, defect_for=("value-depth",))
    res.note("RECURSION sees only recursion through the crate's own functions; recursion of Drop / PartialEq / Clone over nested "
             "values goes through std generics and is not represented in MIR call facts (deep value nesting is a known limitation)")
