"""C08 An evaluation interrupted anywhere resumes to the same outcome (state-restoration clause).

All rules are on eval::eval's MIR (the interpreter loop) plus the session front ends:
  MUST-PASS       every return reachable from the loop head's pop without executing the step
                  (interrupt / tick-limit / stack-limit exits) passes restore_stack_frame called
                  with the popped (state, expr) pair and an empty value list.
  NO-EFFECT       between the pop and those exits nothing mutates the machine except `ticks`
                  (no other store through env, no call taking &mut Env / &mut StackFrame).
  FLAG-CONSUME    the Interrupted exit is dominated by the true edge of the flag load and passes
                  store(false) exactly on that edge.
  RESTORE-INVERSE restore_stack_frame pushes the pair back onto exprs_to_eval (inverse of the pop)
                  and pushes the given values back in order.
  RE-ENTRY        `:resume` re-enters eval without touching exprs_to_eval / evalled_values.
"""
from .. import mir as M
from .. import dflow as D
from .. import evalloop as EL
from ..panics import describe_operand


def run(ctx, res):
    P = ctx.P
    # STATE-WRITERS (shared with C02/C09): the outcome of a resumed evaluation is the uninterrupted outcome only if nothing
    # but the interpreter's own primitives touches the pending entries and operands between the interrupt and `:resume`
    from .. import panicinv as _PI
    _PI.valstack_writers(P, res)
    L = EL.locate(P)
    f = L.f
    pre = L.pre_region
    restores = [b for b in L.restore_bbs if b in pre]
    res.floor("MUST-PASS", "restore_stack_frame calls on the non-step exits", len(restores), 1)

    # ---- MUST-PASS ---------------------------------------------------------------
    r = D.reach_from(f, [L.some_bb], avoid_blocks=[L.step_bb] + restores)
    leaks = [b for b in L.return_bbs if b in r]
    if leaks:
        # find which exit: the blocks assigning _0 in r
        wh = [bi for bi in sorted(r) for s in f.blocks[bi]["stmts"] if s["s"] == "assign" and s["place"]["l"] == 0 and not s["place"]["p"]]
        what = ""
        if wh:
            for s in f.blocks[wh[0]]["stmts"]:
                if s["s"] == "assign" and s["rv"]["k"] == "agg" and s["rv"].get("adt") == "eval::EvalError":
                    what = " (EvalError::%s)" % s["rv"]["variant"]
        res.bad("MUST-PASS", "eval::eval # exit-without-restore%s" % what,
                "eval::eval can return after popping an expression, without stepping it and without "
                "restore_stack_frame%s: the popped expression is lost on resume" % what,
                f.loc(next((x.get("span") for x in f.blocks[wh[0]]["stmts"] if x.get("span")), None)) if wh else f.loc())
    else:
        res.ok("MUST-PASS", "eval::eval: no return reachable from the pop without the step or restore_stack_frame")
    for b in restores:
        t = f.blocks[b]["term"]
        key = "eval::eval # restore@%s" % (EL.builds_variant(f, D.reach_from(f, [t["target"]], avoid_blocks=[L.pop_bb]), None) or "")
        # argument 2: tuple of the popped pair
        ok_pair = False
        r2 = f.root_of(t["args"][1])
        if r2[0] == "rv" and r2[3]["rv"]["k"] == "agg" and r2[3]["rv"]["ak"] == "tuple":
            roots = []
            for o in r2[3]["rv"]["ops"]:
                rr = f.root_of(o)
                roots.append(rr[1]["l"] if rr[0] == "place" and not rr[1]["p"] else None)
            ok_pair = len(roots) == 2 and all(x in L.pair_locals for x in roots) and roots[0] != roots[1]
        # argument 3: empty slice
        r3 = f.root_of(t["args"][2])
        ok_empty = False
        if r3[0] == "const" and "; 0]" in r3[1].get("ty", ""):
            ok_empty = True
        if r3[0] == "place":
            ty = f.local_ty(r3[1]["l"])
            ok_empty = "; 0]" in ty
        # which exit is this
        after = D.reach_from(f, [t["target"]], avoid_blocks=[L.pop_bb])
        var = None
        for v in ("Interrupted", "ReachedTickLimit", "ReachedStackLimit"):
            if EL.builds_variant(f, after, v) is not None:
                var = v
                break
        key = "eval::eval # restore before %s" % var
        if ok_pair and ok_empty:
            res.ok("MUST-PASS", key + ": restore(popped pair, [])")
            res.sample({"rule": "MUST-PASS", "exit": var, "line": t["span"]["line"]})
        else:
            res.bad("MUST-PASS", key + " # wrong-arguments",
                    "restore_stack_frame before the %s exit is not called with the popped (state, expr) pair and an empty value "
                    "list (pair=%s, empty=%s)" % (var, ok_pair, ok_empty), f.loc(t["span"]))

    # ---- NO-EFFECT -----------------------------------------------------------------
    # region strictly before any restore call (the exits' own tails may do what they like after restoring)
    before = D.reach_from(f, [L.some_bb], avoid_blocks=[L.step_bb] + restores)
    n_calls = 0
    for bi in sorted(before | set(restores)):
        b = f.blocks[bi]
        for s in b["stmts"]:
            if s["s"] == "assign" and s["place"]["p"] and s["place"]["p"][0] == "deref":
                names = [e.get("name") for e in s["place"]["p"] if isinstance(e, dict) and "name" in e]
                base_ty = f.local_ty(s["place"]["l"])
                if base_ty.startswith("&mut env::") and names != ["ticks"]:
                    res.bad("NO-EFFECT", "eval::eval # store %s" % ".".join(names),
                            "machine state (%s) is written between popping an expression and the interrupt/limit checks" % ".".join(names),
                            f.loc(s["span"]))
        t = b["term"]
        if t["t"] == "call" and bi in before:
            n_calls += 1
            n = M.callee_name(t) or "<indirect>"
            muts = [a for a in t.get("argtys", []) if a.startswith("&mut env::") or a.startswith("&mut std::vec::Vec<(eval::ExpressionState")
                    or a.startswith("&mut std::vec::Vec<values::Value")]
            if muts and n != "eval::restore_stack_frame":
                res.bad("NO-EFFECT", "eval::eval # call %s" % n,
                        "%s takes %s between the pop and the interrupt/limit checks: the interrupted state would differ from the "
                        "state before the step" % (n, muts[0]), f.loc(t["span"]))
    res.ok("NO-EFFECT", "eval::eval: %d calls and all stores between pop and step inspected; only `ticks` is written" % n_calls)

    # ---- FLAG-CONSUME ---------------------------------------------------------------
    loads = []
    swap_clears = False
    for bi, d, t in EL.switches_described(f, pre):
        r0 = f.root_of(t["discr"])
        if r0[0] == "call" and (M.callee_name(r0[2]) or "").endswith("::load"):
            loads.append((bi, t))
        elif r0[0] == "call" and (M.callee_name(r0[2]) or "").endswith("::swap") and \
                any((M.op_const(a) or {}).get("v") is False for a in r0[2]["args"]):
            # `flag.swap(false)` tests and clears in one step: equivalent to load + store(false) on the true edge
            loads.append((bi, t))
            swap_clears = True
    helper = EL.prestep_flag_helper(L, P) if not loads else None
    if helper is not None:
        if helper["problems"]:
            res.bad("FLAG-CONSUME", "eval::eval # flag-helper # " + helper["problems"][0][:60],
                    "the interrupt test lives in %s, called before every step, but: %s" % (helper["name"], "; ".join(helper["problems"])), helper["fn"].loc())
        else:
            res.ok("FLAG-CONSUME", "%s (called before every step): Interrupted only on the true edge of the one flag test, after store(false); the stop result never reaches the step" % helper["name"])
    elif len(loads) != 1:
        res.bad("FLAG-CONSUME", "eval::eval # flag-load", "expected exactly one test of the interrupt flag per step, found %d" % len(loads), f.loc())
    else:
        lb, lt = loads[0]
        ft, tt = EL.bool_edges(lt)
        if not f.dominates(lb, L.step_bb):
            res.bad("FLAG-CONSUME", "eval::eval # flag-load # not-every-step", "the interrupt flag is not tested on every path to the step", f.loc(lt["span"]))
        tre = D.edge_dominated(f, lb, tt)
        stores = [bi for bi in tre for _ in [0] if f.blocks[bi]["term"]["t"] == "call"
                  and (M.callee_name(f.blocks[bi]["term"]) or "").endswith("::store")]
        ok_store = swap_clears
        for sb in stores:
            st = f.blocks[sb]["term"]
            c = [M.op_const(a) for a in st["args"]]
            if any(x is not None and x.get("v") is False for x in c):
                ok_store = True
                ib = EL.builds_variant(f, D.reach_from(f, [tt], avoid_blocks=[L.pop_bb]), "Interrupted")
                if ib is None or not f.dominates(sb, ib):
                    ok_store = False
        ib_any = EL.builds_variant(f, f.reachable_blocks(), "Interrupted")
        if ib_any is not None and ib_any not in tre:
            res.bad("FLAG-CONSUME", "eval::eval # interrupted-outside-flag-edge",
                    "EvalError::Interrupted is produced on a path that is not dominated by the true edge of the flag test", f.loc())
        elif ok_store:
            res.ok("FLAG-CONSUME", "eval::eval: Interrupted exit is on the true edge of load() and passes store(false)")
        else:
            res.bad("FLAG-CONSUME", "eval::eval # flag-not-cleared",
                    "the Interrupted exit does not clear the interrupt flag with store(false) on the true edge of the flag test "
                    "(a consumed interrupt would fire again on resume)", f.loc(lt["span"]))
        # no store(false) on the false edge / elsewhere in the loop
        other = [bi for bi, t2 in f.calls() if (M.callee_name(t2) or "").endswith("Atomic::<bool>::store") and bi not in tre]
        for ob in other:
            res.bad("FLAG-CONSUME", "eval::eval # flag-store-elsewhere",
                    "the interrupt flag is written outside the consumed-interrupt edge (an interrupt could be lost)", f.loc(f.blocks[ob]["term"]["span"]))

    # ---- ENTRY-INDEPENDENT: `:resume` re-enters eval() in the middle of the evaluation, at whatever depth the interrupt left.
    # Every decision inside the loop must therefore be computed from the machine state inside the loop; a value captured
    # before the loop (the stack depth at entry, say) is different on re-entry, and a branch on it makes the resumed run
    # diverge from the uninterrupted one.
    loop_body = set()
    for (h_, a_, body_) in D.natural_loops(f):
        if L.pop_bb in body_:
            loop_body |= set(body_)
    n_dec = 0

    def entry_value(op, depth=6):
        """a description of a pre-loop computed value `op` depends on, or None."""
        if depth == 0:
            return None
        r_ = f.root_of(op)
        if r_[0] == "const":
            return None
        if r_[0] == "call":
            if r_[1] not in loop_body and f.dominates(r_[1], L.pop_bb):
                return "%s computed before the loop (%s)" % ((M.callee_name(r_[2]) or "a call").split("::")[-1], f.loc(r_[2].get("span")))
            for a in r_[2]["args"]:
                x = entry_value(a, depth - 1)
                if x:
                    return x
            return None
        if r_[0] == "rv":
            rv = r_[3]["rv"]
            for k_ in ("a", "b"):
                if k_ in rv and isinstance(rv[k_], dict):
                    x = entry_value(rv[k_], depth - 1)
                    if x:
                        return x
            for o in rv.get("ops", []):
                x = entry_value(o, depth - 1)
                if x:
                    return x
            return None
        if r_[0] == "place":
            l_ = r_[1]["l"]
            if l_ <= f.argc:
                return None
            for (b_, si_, st_) in f.defs.get(l_, []):
                if b_ not in loop_body and f.dominates(b_, L.pop_bb):
                    if si_ == "term":
                        return "%s computed before the loop (%s)" % ((M.callee_name(st_) or "a call").split("::")[-1], f.loc(st_.get("span")))
                    if st_["rv"]["k"] == "use" and M.op_const(st_["rv"].get("a")) is not None:
                        continue
                    if st_["rv"]["k"] in ("ref", "use", "cast", "binop", "unop", "len", "discr"):
                        return "a value computed before the loop (%s)" % f.loc(st_.get("span"))
        return None
    for bi in sorted(loop_body):
        t = f.blocks[bi]["term"]
        if t["t"] != "switch":
            continue
        n_dec += 1
        why = entry_value(t["discr"])
        if why:
            res.bad("ENTRY-INDEPENDENT", "eval::eval # loop decision on an entry-time value",
                    "a branch inside the interpreter loop depends on %s: `:resume` re-enters eval() with a different value there, so the resumed "
                    "evaluation takes another path than the uninterrupted one" % why, f.loc(t.get("span")))
    res.floor("ENTRY-INDEPENDENT", "branches inside the interpreter loop", n_dec, 20)
    res.ok("ENTRY-INDEPENDENT", "%d branches inside the loop inspected: none depends on a value computed before the loop" % n_dec)

    # ---- RESTORE-INVERSE ---------------------------------------------------------------
    g = P.require_fn("eval::restore_stack_frame")
    pushes_pair = False
    pushes_vals = False
    for bi, t in g.calls():
        n = M.callee_name(t) or ""
        if n.endswith("Vec::<T, A>::push") and t["args"]:
            r0 = g.root_of(t["args"][0])
            if r0[0] == "place":
                names = [e.get("name") for e in r0[1]["p"] if isinstance(e, dict) and "name" in e]
                if names and names[-1] == "exprs_to_eval":
                    # pushed value must be the pair parameter (arg 2)
                    r1 = g.root_of(t["args"][1])
                    if r1[0] == "place" and r1[1]["l"] == 2:
                        pushes_pair = True
                if names and names[-1] == "evalled_values":
                    pushes_vals = True
        if n.endswith("push_value") or n.endswith("Env::push_value"):
            pushes_vals = True
        if n.endswith("Env::push_expr_to_eval") and len(t["args"]) >= 3:
            srcs = []
            for a in t["args"][1:3]:
                r1 = g.root_of(a)
                pl = r1[1] if r1[0] == "place" else None
                if pl is not None and not pl["p"]:
                    # a named local bound from the pair parameter
                    for (db, si, st) in g.defs.get(pl["l"], []):
                        if si != "term" and st["rv"]["k"] == "use":
                            q = M.op_place(st["rv"]["a"])
                            if q is not None:
                                pl = q
                if pl is not None and pl["l"] == 2 and pl["p"]:
                    srcs.append(pl["p"][-1].get("name"))
            if srcs == ["0", "1"]:
                h = P.fn("env::Env::push_expr_to_eval")
                if h is not None:
                    for hb, ht in h.calls():
                        if (M.callee_name(ht) or "").endswith("Vec::<T, A>::push"):
                            hr = h.root_of(ht["args"][0])
                            if hr[0] == "place" and [e.get("name") for e in hr[1]["p"] if isinstance(e, dict) and "name" in e][-1:] == ["exprs_to_eval"]:
                                pushes_pair = True
    if pushes_pair and pushes_vals:
        res.ok("RESTORE-INVERSE", "eval::restore_stack_frame pushes the given pair onto exprs_to_eval and the values onto the value stack")
    else:
        res.bad("RESTORE-INVERSE", "eval::restore_stack_frame # shape",
                "restore_stack_frame does not push its (state, expr) argument back onto exprs_to_eval and its values onto the "
                "value stack (pair=%s, values=%s)" % (pushes_pair, pushes_vals), g.loc())
    # values pushed in iteration order of the slice (no .rev())
    rev_calls = [bi for bi, t in g.calls() if (M.callee_name(t) or "").endswith("Iterator::rev")]
    if rev_calls:
        res.bad("RESTORE-INVERSE", "eval::restore_stack_frame # reversed",
                "restore_stack_frame iterates the restore values in reverse; callers pass them bottom-first", g.loc())

    # ---- RE-ENTRY ---------------------------------------------------------------
    # After eval returned Interrupted, the session front end must leave the machine as eval left it: the arm that
    # handles EvalError::Interrupted passes no `&mut Env` / `&mut Stack` / `&mut StackFrame` to anything.
    n_arms = 0
    for pth, g2 in sorted(P.funcs.items()):
        if not pth.startswith(("json_session::", "nrepl::", "cli_session::")) or "{closure" in pth:
            continue
        for sw in D.enum_switches(g2):
            if D.short_ty(sw["ety"]) != "EvalError":
                continue
            for tgt, names in sw["by_target"].items():
                if names != ["Interrupted"]:
                    continue
                n_arms += 1
                region = D.edge_dominated(g2, sw["bb"], tgt)
                writers = []
                for bi in region:
                    t = g2.blocks[bi]["term"]
                    if t["t"] == "call":
                        muts = [a for a in (t.get("argtys") or []) if a.startswith(("&mut env::Env", "&mut env::Stack", "&mut env::StackFrame"))]
                        if muts:
                            writers.append((M.callee_name(t) or "?", bi))
                if writers:
                    res.bad("RE-ENTRY", "%s # interrupted-arm-mutates # %s" % (pth, writers[0][0]),
                            "the EvalError::Interrupted arm of `%s` hands the environment mutably to `%s`: the state an interrupted "
                            "evaluation is resumed from is no longer the state eval left" % (pth, writers[0][0]),
                            g2.loc(g2.blocks[writers[0][1]]["term"].get("fn_span")))
                else:
                    res.ok("RE-ENTRY", "%s: the Interrupted arm does not touch the environment" % pth)
    res.floor("RE-ENTRY", "EvalError::Interrupted arms in the session front ends", n_arms, 2)
    # the frame an interrupted evaluation is resumed in must still be the frame it was interrupted in: who may
    # re-point a live frame's namespace is a reviewed table (shared with C10)
    from . import c10 as _c10
    _c10.namespace_writers(P, res)
    res.extra.update({"functions_analysed": 2, "pre_step_region_blocks": len(pre)})
    res.explanation = (
        "State-restoration clause of interrupt/resume, decided on the CFG of eval::eval: from the block that pops "
        "(state, expr) off exprs_to_eval, every return that does not execute the step passes restore_stack_frame(pair, []) "
        "(reachability with the step and the restore calls removed finds no return); between pop and checks nothing but "
        "`ticks` is written and no callee receives &mut Env/&mut frame; the flag is tested every step and consumed with "
        "store(false) only on the Interrupted edge; restore_stack_frame is the inverse of the pop. Together: at an interrupt the "
        "machine state equals the state before the step, so no step is lost, repeated or reordered. Equality of printed output "
        "additionally needs every step to be deterministic, which is not analysed.")
    res.assumptions += ["steps (eval_expr) are deterministic functions of the machine state", "ticks is not observable by programs"]
