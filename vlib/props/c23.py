"""C23 Reported source positions are consistent (lexical clauses).

  MULTILINE-TOKEN  E3 decides which lexer regexes can match a newline. For a token kind that can, every Position built in
                   lex_between that spans the whole match (end_offset = offset + match.end()) must take end_line_number and
                   end_column from LinePositions::from_offset(<end offset>), not from the start line / start column + length.
  POSITION-TRIPLE  every Position literal in the lexer describes two points consistently: (line_number, column) is
                   from_offset(start_offset); the end is either from_offset(end_offset) in both end fields, or the start line
                   with end_column = column + L and end_offset = start_offset + L for one and the same L.
  POSITION-GROUP   (MIR, crate-wide) a Position edited in place keeps offsets and line/column in step: an assignment to
                   start_offset / end_offset of a position comes with assignments to its column and line fields (the start
                   of the same line, found with rfind('\n'), needs no new line number).
  POSITION-PAIRS   (MIR, crate-wide) each end of a Position assembled from the fields of other positions copies offset, line
                   and column from one end of one source position.
  UNIT-MIX         (MIR dataflow over the whole crate, vlib/units.py) no str slice bound or offset derives from a count of
                   characters, and no index into a char sequence derives from a byte offset.
  CHAR-BOUNDARY    every amount added to the byte `offset` in lex_between, and every `&s[a..b]` bound, has char-boundary
                   provenance: a str len(), a regex Match::end(), a find() result (+ the ASCII needle length), len_utf8(), or
                   the byte length of an ASCII literal that was matched with starts_with. A bare integer literal after a test
                   on a decoded char is a violation (the next slice can land inside a code point).
  MERGE-PAIRING    Position::merge takes every start field from `first`, end_offset and end_line_number as the max of both
                   operands, and end_column from the operand with the larger end_offset.
  LINE-BASE        every CheckDiagnostic exported by syntax_check adds 1 to both line numbers and to neither column.
Every other position computation (checker fixes, LSP conversions) is not decided.
"""
from .. import shape as S
from .. import mir as M
from .c12 import grex, lexer_regexes

LEX = "src/parser/lex.rs"
POS = "src/parser/position.rs"
SC = "src/syntax_check.rs"


def field_map(struct_node):
    return {f["name"]: f["e"] for f in struct_node["fields"]}


_LETS = {}


def mentions_end(e, depth=0):
    """does the expression contain `<match>.end()`, directly or through a `let`-bound name (`let end = m.end();`)?"""
    for n in S.walk(e):
        if n["k"] == "MethodCall" and n["method"] == "end":
            return True
        if n["k"] == "Path" and depth < 3 and n["path"] in _LETS and any(mentions_end(i_, depth + 1) for i_ in _LETS[n["path"]]):
            return True
    return False


def position_group_pairs(P, res, M=M):
    """POSITION-GROUP and POSITION-PAIRS (shared with C29: fix positions become LSP edits)."""
    PADT = "parser::position::Position"
    # ---- POSITION-GROUP: a Position that is edited in place keeps its offsets and its line/column in step. Whoever assigns
    # `<pos>.start_offset` also assigns `<pos>.column` and `<pos>.line_number` (unless the new offset is the start of the same
    # line, found with rfind('\n')); whoever assigns `<pos>.end_offset` also assigns `.end_column` and `.end_line_number`.
    from .. import sandbox as SB
    stores = {fld: SB.field_stores(P, fld, adt=PADT) for fld in ("start_offset", "end_offset", "column", "end_column", "line_number", "end_line_number")}
    n_grp = 0

    def bases(fn_path, fld):
        out = {}
        g = P.funcs[fn_path]
        for (bi, si, rv, sp) in stores[fld].get(fn_path, []):
            st = g.blocks[bi]["stmts"][si]
            out.setdefault(st["place"]["l"], []).append((bi, rv, sp))
        return out

    def same_line_start(g, rv):
        """the stored value is the start of the same line: every source of it is 0 or `<rfind('\\n') result> + 1`, whether it
        is written `.map(|i| i + 1).unwrap_or(0)` or as a `match` on the rfind result."""
        if rv["k"] != "use":
            return False
        found_rfind = []

        def leaves(op, seen, depth=0):
            c = M.op_const(op)
            if c is not None:
                return c.get("v") == 0
            q = M.op_place(op)
            if q is None or depth > 8:
                return False
            cur = g.root_of(op, through_named=True)
            if cur[0] == "call":
                n = M.callee_name(cur[2]) or ""
                if n.endswith("<impl str>::rfind"):
                    cc = M.op_const(cur[2]["args"][1]) if len(cur[2]["args"]) > 1 else None
                    if cc is not None and cc.get("v") == 10:
                        found_rfind.append(1)
                        return True
                    return False
                if n.endswith(("::map", "::unwrap_or", "::map_or", "::unwrap_or_default", "::unwrap_or_else")) and cur[2]["args"]:
                    return leaves(cur[2]["args"][0], seen, depth + 1) and all(
                        (M.op_const(a) is None or M.op_const(a).get("v") == 0) for a in cur[2]["args"][1:])
                return False
            if cur[0] == "rv":
                rv2 = cur[3]["rv"]
                if rv2["k"] == "binop" and rv2["op"] in ("Add", "AddWithOverflow", "AddUnchecked"):
                    cb = M.op_const(rv2["b"])
                    return cb is not None and cb.get("v") == 1 and leaves(rv2["a"], seen, depth + 1)
                return False
            if cur[0] == "place":
                l = cur[1]["l"]
                if cur[1]["p"]:
                    # payload of an Option (`Some(i)` of the rfind result) or the .0 of an overflow-checked add
                    base = {"copy": {"l": l, "p": []}}
                    d_ = g.single_def(l)
                    if d_ is not None and d_[1] != "term" and d_[2]["rv"]["k"] == "binop":
                        rv2 = d_[2]["rv"]
                        cb = M.op_const(rv2["b"])
                        return rv2["op"].startswith("Add") and cb is not None and cb.get("v") == 1 and leaves(rv2["a"], seen, depth + 1)
                    return leaves(base, seen, depth + 1)
                if l in seen:
                    return True
                seen.add(l)
                defs = g.defs.get(l, [])
                if not defs:
                    return False
                ok_ = True
                for (b_, si, st_) in defs:
                    if si == "term":
                        ok_ = ok_ and leaves({"copy": {"l": l, "p": []}}, seen, depth + 1) if False else ok_ and _call_leaf(st_, seen, depth)
                    elif st_.get("s") == "assign" and st_["rv"]["k"] == "use":
                        ok_ = ok_ and leaves(st_["rv"]["a"], seen, depth + 1)
                    elif st_.get("s") == "assign" and st_["rv"]["k"] == "binop":
                        rv2 = st_["rv"]
                        cb = M.op_const(rv2["b"])
                        ok_ = ok_ and rv2["op"].startswith("Add") and cb is not None and cb.get("v") == 1 and leaves(rv2["a"], seen, depth + 1)
                    else:
                        ok_ = False
                return ok_
            return False

        def _call_leaf(t_, seen, depth):
            n = M.callee_name(t_) or ""
            if n.endswith("<impl str>::rfind"):
                cc = M.op_const(t_["args"][1]) if len(t_["args"]) > 1 else None
                if cc is not None and cc.get("v") == 10:
                    found_rfind.append(1)
                    return True
                return False
            if n.endswith(("::map", "::unwrap_or", "::map_or", "::unwrap_or_default", "::unwrap_or_else")) and t_["args"]:
                return leaves(t_["args"][0], seen, depth + 1)
            return False
        return leaves(rv["a"], set()) and bool(found_rfind)
    for off, col, line in (("start_offset", "column", "line_number"), ("end_offset", "end_column", "end_line_number")):
        for fn_path in sorted(stores[off]):
            g = P.funcs[fn_path]
            for base, sts in sorted(bases(fn_path, off).items()):
                n_grp += 1
                key = "%s # Position.%s assigned" % (fn_path, off)
                missing = []
                if base not in bases(fn_path, col):
                    missing.append(col)
                if base not in bases(fn_path, line) and not (off == "start_offset" and all(same_line_start(g, rv) for _, rv, _ in sts)):
                    missing.append(line)
                if missing:
                    res.bad("POSITION-GROUP", key + " # without " + ",".join(missing),
                            "%s moves the %s of a position but leaves its %s as they were: line/column no longer agree with the offset (the LSP layer "
                            "rebuilds ranges from the line number, `check --fix` uses offsets, so the two disagree)" % (fn_path, off, " and ".join(missing)),
                            g.loc(sts[0][2]))
                else:
                    res.ok("POSITION-GROUP", key + ": %s and %s move with it" % (col, line))
    res.floor("POSITION-GROUP", "in-place edits of Position offsets", n_grp, 4)

    # ---- POSITION-PAIRS: in every Position built outside the lexer from the fields of other positions, the offset, line and
    # column of each end are copied from one and the same end of one and the same source position
    START_K = {"start_offset": "start", "line_number": "start", "column": "start",
               "end_offset": "end", "end_line_number": "end", "end_column": "end"}
    n_pairs = 0
    for fn_path, g in sorted(P.funcs.items()):
        if fn_path.startswith("parser::lex::") or fn_path.endswith("::clone"):
            continue
        k_ = 0
        for b in g.blocks:
            for st in b["stmts"]:
                if st.get("s") != "assign" or st["rv"]["k"] != "agg" or st["rv"].get("adt") != PADT:
                    continue
                rv = st["rv"]
                k_ += 1
                srcs = {}
                for fld, op in zip(rv["fields"], rv["ops"]):
                    if fld not in START_K:
                        continue
                    r = g.root_of(op, through_named=True)
                    if r[0] == "place":
                        fp = g.field_path(r[1])
                        if fp and fp[-1] in START_K:
                            srcs[fld] = ((r[1]["l"], tuple(fp[:-1])), START_K[fp[-1]])
                for end_name, flds in (("start", ("start_offset", "line_number", "column")), ("end", ("end_offset", "end_line_number", "end_column"))):
                    known = [srcs[x] for x in flds if x in srcs]
                    if len(known) < 2:
                        continue
                    n_pairs += 1
                    key = "%s # Position literal %d # %s" % (fn_path, k_, end_name)
                    if len(set(known)) == 1:
                        res.ok("POSITION-PAIRS", key + ": offset, line and column copied from one end of one position")
                    else:
                        res.bad("POSITION-PAIRS", key + " # mixed",
                                "the %s of a position built in %s takes its offset, line and column from different positions or different ends "
                                "(%s): if those are not on the same line the position is inconsistent" % (
                                    end_name, fn_path, ", ".join("%s<-%s" % (x, "%s.%s" % (".".join(srcs[x][0][1]) or g.local_name(srcs[x][0][0]) or "?", srcs[x][1])) for x in flds if x in srcs)),
                                g.loc(st["span"]))
    res.floor("POSITION-PAIRS", "position ends copied from other positions", n_pairs, 15)



def run(ctx, res):
    sh = ctx.shape
    rxs = lexer_regexes(sh)
    names = sorted(rxs)
    out = grex([("newline", rxs[n]) for n in names])
    multiline = {n for n, line in zip(names, out) if line.startswith("fail")}
    for n, line in zip(names, out):
        res.ok("MULTILINE-TOKEN", "%s %s" % (n, "can match a newline" if n in multiline else "cannot match a newline"))
    lb = S.find_fn(sh, LEX, "lex_between")
    _LETS.clear()
    for n in S.walk(lb["body"]):
        if n["k"] == "Let" and n.get("init") is not None and n["pat"]["k"] == "PIdent" and not n["pat"].get("mut"):
            _LETS.setdefault(n["pat"]["name"], []).append(n["init"])
    # from_offset bindings: let (a, b) = lp.from_offset(<expr>)
    fo = {}
    for n in S.walk(lb["body"]):
        if n["k"] == "Let" and n["init"] is not None and n["init"]["k"] == "MethodCall" and n["init"]["method"] == "from_offset":
            arg = n["init"]["args"][0]
            for name in S.pat_bindings(n["pat"]):
                fo[name] = fo.get(name, []) + [arg]
    n_pos = 0
    for n in S.walk(lb["body"]):
        if n["k"] != "If" or n["cond"]["k"] != "LetCond":
            continue
        c = n["cond"]["e"]
        if not (c["k"] == "MethodCall" and c["method"] == "find" and c["recv"]["k"] == "Path" and c["recv"]["path"] in rxs):
            continue
        rx = c["recv"]["path"]
        for st in S.walk(n["then"]):
            if st["k"] == "Struct" and st["path"].endswith("Position"):
                fm = field_map(st)
                if "end_offset" not in fm or not mentions_end(fm["end_offset"]):
                    continue
                n_pos += 1
                key = "parser::lex::lex_between # %s token position" % rx
                if rx not in multiline:
                    res.ok("MULTILINE-TOKEN", key + " (single-line token kind)")
                    continue
                bad = []
                for fld in ("end_line_number", "end_column"):
                    e = fm.get(fld)
                    ids = S.idents_in(e) if e is not None else set()
                    srcs = [a for i in ids for a in fo.get(i, [])]
                    if not srcs or not all(mentions_end(a) for a in srcs):
                        bad.append(fld)
                if bad:
                    res.bad("MULTILINE-TOKEN", key + " # " + ",".join(bad),
                            "%s can match text containing a newline, but the token's %s is not computed from the end offset "
                            "(LinePositions::from_offset(offset + match.end())): it is wrong for multi-line tokens" % (rx, " and ".join(bad)),
                            "%s:%d" % (LEX, S.line(st)))
                else:
                    res.ok("MULTILINE-TOKEN", key + ": end line/column from from_offset(end offset)")
                    res.sample({"rule": "MULTILINE-TOKEN", "regex": rx, "line": S.line(st)})
    res.floor("MULTILINE-TOKEN", "whole-match token positions in lex_between", n_pos, 4)

    position_group_pairs(ctx.P, res)
    # ---- NO-SRC-LAST-RESORT (shared with C29): go-to-definition reports byte columns only when the file cannot be read
    from . import c29 as _c29
    _c29.no_src_last_resort(ctx.P, res)
    # ---- UTF16-UNITS (shared with C29): the columns of the positions the language server reports are UTF-16 counts
    _c29.utf16_units(ctx.P, res)
    # ---- UNIT-MIX over the whole crate (byte offsets vs character counts)
    from .. import units as U
    U.check(ctx.P, res, "UNIT-MIX", ("",), 70)

    # ---- POSITION-TRIPLE: offsets and line/column of every Position literal in the lexer describe the same two points
    import re as _re
    n_trip = 0
    fns = []
    S._fns_in(S.file_items(sh, LEX), fns)
    for impl, fn, test in fns:
        if test:
            continue
        lets = []       # (line, names, kind, expr)
        for n in S.walk(fn["body"]):
            if n["k"] == "Let" and n["init"] is not None:
                if n["init"]["k"] == "MethodCall" and n["init"]["method"] == "from_offset" and n["init"]["args"]:
                    lets.append((S.line(n), list(S.pat_bindings(n["pat"])), "fo", n["init"]["args"][0]))
                elif n["pat"]["k"] == "PIdent" and not n["pat"].get("mut"):
                    lets.append((S.line(n), [n["pat"]["name"]], "let", n["init"]))

        def txt(e):
            return _re.sub(r"\s+", "", ctx.src_text(LEX, e["sp"]))

        def binding(name, line, kind):
            best = None
            for (ln, names, k, e) in lets:
                if name in names and ln <= line and (best is None or ln > best[0]):
                    best = (ln, names, k, e)
            return best if best and best[2] == kind else None

        def norm_(e, line, depth=0):
            """source text with single `let x = <expr>` bindings substituted."""
            if e["k"] == "Path" and "::" not in e["path"] and depth < 4:
                b = binding(e["path"], line, "let")
                if b is not None and b[3]["k"] in ("Binary", "Path", "MethodCall", "Paren"):
                    return "(" + norm_(b[3], b[0], depth + 1) + ")"
                return e["path"]
            if e["k"] == "Binary":
                return "%s%s%s" % (norm_(e["l"], line, depth), e["op"], norm_(e["r"], line, depth))
            if e["k"] == "Paren":
                return norm_(e["e"], line, depth)
            if e["k"] == "MethodCall" and e["method"] == "as_usize" and not e["args"]:
                return norm_(e["recv"], line, depth)
            return txt(e)

        def strip_par(t):
            while t.startswith("(") and t.endswith(")"):
                t = t[1:-1]
            return t

        def from_offset_arg(e, line, idx):
            """e is (a use of) the idx-th binding of `let (l, c) = lp.from_offset(X)` -> normalised X"""
            ids = [n["path"] for n in S.walk(e) if n["k"] == "Path" and "::" not in n["path"]]
            for name in ids:
                b = binding(name, line, "fo")
                if b is not None and b[1].index(name) == idx and strip_par(norm_(e, line)) == name:
                    return strip_par(norm_(b[3], b[0]))
            return None

        def plus(e, line):
            """`A + L` -> (norm A, norm L)"""
            if e["k"] == "Binary" and e["op"] == "+":
                return strip_par(norm_(e["l"], line)), strip_par(norm_(e["r"], line))
            if e["k"] == "Path":
                b = binding(e["path"], line, "let")
                if b is not None:
                    return plus(b[3], b[0])
            return None
        for st in S.walk(fn["body"]):
            if st["k"] != "Struct" or not st["path"].endswith("Position"):
                continue
            fm = field_map(st)
            if not all(k in fm for k in ("start_offset", "end_offset", "line_number", "end_line_number", "column", "end_column")):
                continue
            n_trip += 1
            ln = S.line(st)
            ordinal = n_trip
            key = "parser::lex::%s # Position literal %d" % (fn["name"], ordinal)
            so = strip_par(norm_(fm["start_offset"], ln))
            problems = []
            a_l = from_offset_arg(fm["line_number"], ln, 0)
            a_c = from_offset_arg(fm["column"], ln, 1)
            if a_l is None or a_c is None or a_l != so or a_c != so:
                problems.append("line_number/column are not LinePositions::from_offset(start_offset)")
            eo = strip_par(norm_(fm["end_offset"], ln))
            e_l = from_offset_arg(fm["end_line_number"], ln, 0)
            e_c = from_offset_arg(fm["end_column"], ln, 1)
            if e_l is not None and e_c is not None:
                if e_l != eo or e_c != eo:
                    problems.append("end_line_number/end_column come from from_offset(%s) but end_offset is %s" % (e_l, eo))
                form = "from_offset(end_offset)"
            else:
                # same line: end_line == line, end_column = column + L, end_offset = start_offset + L
                po = plus(fm["end_offset"], ln)
                pc = plus(fm["end_column"], ln)
                same_line = strip_par(norm_(fm["end_line_number"], ln)) == strip_par(norm_(fm["line_number"], ln))
                if not (po and pc and same_line and po[0] == so and pc[0] == strip_par(norm_(fm["column"], ln)) and po[1] == pc[1]):
                    problems.append("end_offset, end_line_number and end_column are neither all taken from from_offset(end_offset) nor start + one common length on the start line "
                                    "(end_offset=%s, end_line_number=%s, end_column=%s)" % (eo, txt(fm["end_line_number"]), txt(fm["end_column"])))
                form = "start + %s on the start line" % (po[1] if po else "?")
            if problems:
                res.bad("POSITION-TRIPLE", key + " # inconsistent", "; ".join(problems), "%s:%d" % (LEX, ln))
            else:
                res.ok("POSITION-TRIPLE", key + ": start from from_offset(%s); end %s" % (so, form))
    res.floor("POSITION-TRIPLE", "Position literals in the lexer", n_trip, 8)

    # ---- CHAR-BOUNDARY
    def boundary_expr(e, lits_ok):
        """is e a byte count with char-boundary provenance?"""
        k = e["k"]
        if k == "MethodCall" and e["method"] in ("len", "end", "len_utf8", "start"):
            return True
        if k == "Path":
            return e["path"] in safe_names
        if k == "Binary" and e["op"] in ("+",):
            # <find result> + <byte length of the ASCII needle that was found>
            if e["l"]["k"] == "Path" and e["l"]["path"] in find_needle and e["r"]["k"] == "LitInt" \
                    and int(e["r"]["v"]) == find_needle[e["l"]["path"]]:
                return True
            return boundary_expr(e["l"], lits_ok) and boundary_expr(e["r"], lits_ok)
        if k == "LitInt":
            return int(e["v"]) in lits_ok
        if k == "MethodCall" and e["method"] in ("unwrap_or",):
            return boundary_expr(e["recv"], lits_ok) and all(boundary_expr(a, lits_ok) for a in e["args"])
        if k == "MethodCall" and e["method"] == "find":
            return True
        return False
    # names bound to find() results / len_utf8 etc.
    safe_names = set()
    find_needle = {}
    for n in S.walk(lb["body"]):
        if n["k"] in ("Let", "LetCond"):
            init = n.get("init") or n.get("e")
            if init is not None and init["k"] == "MethodCall" and init["method"] in ("find", "len_utf8", "len", "end"):
                for name in S.pat_bindings(n["pat"]):
                    safe_names.add(name)
                    if init["method"] == "find" and init["args"]:
                        a = init["args"][0]
                        if a["k"] in ("LitStr", "LitChar") and a["v"].isascii():
                            find_needle[name] = len(a["v"])
        if n["k"] == "Match" and n["e"]["k"] == "MethodCall" and n["e"]["method"] in ("find", "len_utf8", "len", "end"):
            # `match s.find('\n') { Some(i) => .., None => .. }`
            init = n["e"]
            for arm in n["arms"]:
                for name in S.pat_bindings(arm["pat"]):
                    safe_names.add(name)
                    if init["method"] == "find" and init["args"]:
                        a = init["args"][0]
                        if a["k"] in ("LitStr", "LitChar") and a["v"].isascii():
                            find_needle[name] = len(a["v"])
    n_adv = 0

    def ascii_guard_lengths(path_nodes):
        """literal lengths justified by an enclosing `starts_with(<ASCII literal>)` / `for tok in <ASCII table>`"""
        ok = set()
        for anc in path_nodes:
            if anc["k"] == "If":
                for c in S.walk(anc["cond"]):
                    if c["k"] == "MethodCall" and c["method"] == "starts_with" and c["args"]:
                        a = c["args"][0]
                        if a["k"] == "LitStr" and a["v"].isascii():
                            ok.add(len(a["v"]))
                        if a["k"] == "LitChar" and a["v"].isascii():
                            ok.add(1)
                        if a["k"] in ("Path", "Unary"):
                            # element of a constant table: all entries ASCII and of one length
                            ids = S.idents_in(a)
                            for fr in path_nodes:
                                if fr["k"] == "For" and fr["pat"]["k"] == "PIdent" and fr["pat"]["name"] in ids:
                                    lens = table_lengths(fr["iter"])
                                    if lens is not None:
                                        ok |= lens
        return ok

    consts = {}
    for it in S.walk(S.file_items(sh, LEX)):
        if it["k"] == "Const":
            vals = [x["v"] for x in S.walk(it["init"]) if x["k"] in ("LitStr", "LitChar")]
            consts[it["name"]] = vals

    def table_lengths(iter_expr):
        ids = S.idents_in(iter_expr)
        lens = set()
        for i in ids:
            if i in consts:
                if not all(v.isascii() for v in consts[i]):
                    return None
                lens |= {len(v) for v in consts[i]}
        return lens or None

    # names of the source text and of the running byte offset, from the signature (first `&str` / first `usize`
    # parameter) and the locals re-bound from them (`let mut offset = offset;`, `let s = &s[offset..];`)
    text_names = {p_["name"] for p_ in lb["params"] if "str" in p_["ty"]}
    off_names = set([p_["name"] for p_ in lb["params"] if p_["ty"].strip() == "usize"][:1])
    for _ in range(3):
        for n in S.walk(lb["body"]):
            if n["k"] == "Let" and n.get("init") is not None and n["pat"]["k"] == "PIdent":
                i_ = n["init"]
                while i_["k"] in ("Ref", "Paren"):
                    i_ = i_["e"]
                if i_["k"] == "Path" and i_["path"] in off_names:
                    off_names.add(n["pat"]["name"])
                if i_["k"] == "Index" and i_["e"].get("path") in text_names:
                    text_names.add(n["pat"]["name"])
    if not text_names or not off_names:
        raise M.MissingAnchor("lex_between: cannot identify the source text / offset parameters")

    def visit(node, path):
        nonlocal n_adv
        if isinstance(node, dict):
            if node.get("k") == "Binary" and node["op"] == "+=" and node["l"].get("path") in off_names:
                n_adv += 1
                ok_l = ascii_guard_lengths(path)
                key = "parser::lex::lex_between # offset += %s" % ctx.src_text(LEX, node["r"]["sp"])
                if boundary_expr(node["r"], ok_l):
                    res.ok("CHAR-BOUNDARY", key)
                else:
                    res.bad("CHAR-BOUNDARY", key,
                            "the lexer advances its byte offset by `%s`, which is not a character-boundary quantity here "
                            "(the next `&s[offset..]` can land inside a multi-byte character and panic)" % ctx.src_text(LEX, node["r"]["sp"]),
                            "%s:%d" % (LEX, S.line(node)))
            if node.get("k") == "Index" and node["i"]["k"] == "Range" and node["e"].get("path") in text_names:
                ok_l = ascii_guard_lengths(path) | {0}
                for bnd in ("lo", "hi"):
                    b = node["i"][bnd]
                    if b is None:
                        continue
                    n_adv += 1
                    key = "parser::lex::lex_between # &s[..] bound %s" % ctx.src_text(LEX, b["sp"])
                    if boundary_expr(b, ok_l) or b.get("path") in off_names:
                        res.ok("CHAR-BOUNDARY", key)
                    else:
                        res.bad("CHAR-BOUNDARY", key, "slice bound `%s` of the source text is not a character-boundary quantity here" % ctx.src_text(LEX, b["sp"]),
                                "%s:%d" % (LEX, S.line(node)))
            for v in node.values():
                if isinstance(v, (dict, list)):
                    visit(v, path + [node] if "k" in node else path)
        elif isinstance(node, list):
            for v in node:
                visit(v, path)
    visit(lb["body"], [])
    res.floor("CHAR-BOUNDARY", "offset advances and slice bounds in lex_between", n_adv, 12)

    # ---- MERGE-PAIRING
    mg = S.find_fn(sh, POS, "merge", impl_self="Position")
    pn = [p["name"] for p in mg["params"]]
    first, second = pn[0], pn[1]
    structs = [n for n in S.walk(mg["body"]) if n["k"] == "Struct" and n["path"] in ("Self", "Position")]
    if len(structs) != 1:
        raise M.MissingAnchor("Position::merge does not build exactly one Position")
    fm = field_map(structs[0])
    # look through `let x = <expr>;` bindings of the function body (hoisted field values, field-init shorthand)
    lets = {}
    for st in mg["body"]["stmts"]:
        if st["k"] == "Let" and st.get("init") is not None and st["pat"]["k"] == "PIdent" and not st["pat"].get("mut"):
            lets[st["pat"]["name"]] = st["init"]
    for fld in list(fm):
        for _ in range(3):
            e = fm[fld]
            if e is not None and e["k"] == "Path" and e.get("path") in lets:
                fm[fld] = lets[e["path"]]
            else:
                break

    def is_field(e, base, name):
        return e["k"] == "Field" and e["name"] == name and e["e"].get("path") == base

    def is_max(e, name):
        if e["k"] == "Call" and e["f"].get("path", "").endswith("max") and len(e["args"]) == 2:
            a, b = e["args"]
            return (is_field(a, first, name) and is_field(b, second, name)) or (is_field(a, second, name) and is_field(b, first, name))
        return False
    for fld in ("start_offset", "line_number", "column"):
        e = fm.get(fld)
        if e is not None and is_field(e, first, fld):
            res.ok("MERGE-PAIRING", "Position::merge.%s = %s.%s" % (fld, first, fld))
        else:
            res.bad("MERGE-PAIRING", "parser::position::Position::merge # %s" % fld,
                    "merge must take %s from its first operand (found `%s`)" % (fld, ctx.src_text(POS, e["sp"]) if e else "nothing"), "%s:%d" % (POS, S.line(mg)))
    for fld in ("end_offset", "end_line_number"):
        e = fm.get(fld)
        if e is not None and is_max(e, fld):
            res.ok("MERGE-PAIRING", "Position::merge.%s = max of both" % fld)
        else:
            res.bad("MERGE-PAIRING", "parser::position::Position::merge # %s" % fld,
                    "merge must take %s as the max of both operands (found `%s`)" % (fld, ctx.src_text(POS, e["sp"]) if e else "nothing"), "%s:%d" % (POS, S.line(mg)))
    e = fm.get("end_column")
    okc = False
    if e is not None and e["k"] == "If" and e["else"] is not None and e["cond"]["k"] == "Binary" and e["cond"]["op"] in (">", ">=", "<", "<="):
        c = e["cond"]
        t = S.tail_expr(e["then"])
        f = S.tail_expr(e["else"])
        if c["op"] in (">", ">=") and is_field(c["l"], first, "end_offset") and is_field(c["r"], second, "end_offset"):
            okc = t is not None and f is not None and is_field(t, first, "end_column") and is_field(f, second, "end_column")
        if c["op"] in ("<", "<=") and is_field(c["l"], first, "end_offset") and is_field(c["r"], second, "end_offset"):
            okc = t is not None and f is not None and is_field(t, second, "end_column") and is_field(f, first, "end_column")
    if okc:
        res.ok("MERGE-PAIRING", "Position::merge.end_column comes from the operand with the larger end_offset")
    else:
        res.bad("MERGE-PAIRING", "parser::position::Position::merge # end_column",
                "end_column is not selected from the operand that has the larger end_offset; it would disagree with end_offset", "%s:%d" % (POS, S.line(mg)))
    # ---- LINE-BASE
    n_cd = 0
    for n in S.walk(S.file_items(sh, SC)):
        if n["k"] == "Struct" and n["path"].endswith("CheckDiagnostic"):
            fmm = field_map(n)
            n_cd += 1
            key = "syntax_check # CheckDiagnostic literal %d" % n_cd

            def plus1(e, fld):
                return e is not None and e["k"] == "Binary" and e["op"] == "+" and e["l"]["k"] == "Field" and e["l"]["name"] == fld and e["r"].get("v") == "1"

            def plain(e, fld):
                return e is not None and e["k"] == "Field" and e["name"] == fld
            okd = plus1(fmm.get("line_number"), "line_number") and plus1(fmm.get("end_line_number"), "end_line_number") \
                and plain(fmm.get("column"), "column") and plain(fmm.get("end_column"), "end_column")
            if okd:
                res.ok("LINE-BASE", key + ": lines +1, columns unchanged")
            else:
                res.bad("LINE-BASE", key, "a CheckDiagnostic does not export (line+1, end_line+1, column, end_column) from the same position", "%s:%d" % (SC, S.line(n)))
    res.floor("LINE-BASE", "CheckDiagnostic literals", n_cd, 3)
    res.extra["multiline_regexes"] = sorted(multiline)
    res.extra["functions_analysed"] = 3
    res.explanation = (
        "Lexical clauses. Which token kinds can span lines is decided by automaton search on each lexer regex (a match state "
        "reachable after a newline byte). For those kinds the token Position literal that spans the whole match must derive its end "
        "line and column from the end offset. CHAR-BOUNDARY gives every byte-offset advance and slice bound in the lexer loop a "
        "provenance (len/end/find/len_utf8 or the length of an ASCII literal or ASCII constant table entry tested with starts_with), "
        "which is what keeps offsets on character boundaries for all input texts. MERGE-PAIRING and LINE-BASE are field-by-field "
        "shape checks. Positions computed elsewhere (checker fixes, LSP) are not decided.")
