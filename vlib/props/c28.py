"""C28 The LSP server answers every request and never dies.

  PANIC-INV     no-panic inventory over everything reachable from lsp::run_lsp (handlers, completions, hover,
                rename, code actions, conversion helpers, the front end they call).
  ARM-SHAPE     in lsp::handle_message every arm for an LSP *request* method answers exactly once when an id is
                present and not at all otherwise; notification arms push no id-carrying response; the unknown-method
                arm and the parse-failure exit answer iff an id is present; push_request_response pushes exactly once
                on each of its paths.
  LOOP-LIVENESS run_lsp's loop leaves only on end of input or through process::exit in the `exit` arm.
  PIPELINE-AGREE lsp::get_diagnostics runs the same ordered front-end pipeline as syntax_check::check.
  DIAG-COMPLETE  each iteration of get_diagnostics' conversion loops publishes exactly one diagnostic on every path.
"""
import json
from .. import panicinv as PI, mir as M, dflow as D

LAYERS = ["lsp"]
REQUESTS = ["initialize", "shutdown", "textDocument/completion", "textDocument/definition", "textDocument/hover",
            "textDocument/signatureHelp", "textDocument/documentHighlight", "textDocument/documentSymbol",
            "textDocument/formatting", "textDocument/codeAction", "textDocument/references", "textDocument/rename"]
NOTIFICATIONS = ["initialized", "exit", "textDocument/didOpen", "textDocument/didChange", "textDocument/didClose"]
PUSH = ("lsp::push_request_response", "lsp::push_response", "lsp::push_error")


def const_str(f, op):
    r = f.root_of(op)
    if r[0] == "const":
        c = r[1]
        if "s" in c:
            return c["s"]
        t = c.get("text", "")
        if t.startswith('"') and t.endswith('"'):
            return t[1:-1]
    return None


def is_push(t):
    n = M.callee_name(t) or ""
    return any(n == p or n.startswith(p + "::<") for p in PUSH)


def id_switches(f):
    """enum switches on the discriminant of an Option that is `parsed.id` or `message.get("id")`."""
    out = []
    for sw in D.enum_switches(f):
        pl = sw["place"]
        names = f.field_path(pl)
        is_id = names[-1:] == ["id"]
        if not is_id and not pl["p"]:
            d = f.single_def(pl["l"])
            if d and d[1] == "term" and (M.callee_name(d[2]) or "").endswith("Value::get") and \
                    len(d[2]["args"]) > 1 and const_str(f, d[2]["args"][1]) == "id":
                is_id = True
        if not is_id:
            continue
        some = None
        for tgt, nm in sw["by_target"].items():
            if nm == ["Some"]:
                some = tgt
        if some is None and sw["otherwise_variants"] == ["Some"]:
            some = sw["otherwise"]
        none = None
        for tgt, nm in sw["by_target"].items():
            if nm == ["None"]:
                none = tgt
        if none is None and sw["otherwise_variants"] == ["None"]:
            none = sw["otherwise"]
        out.append({"bb": sw["bb"], "some": some, "none": none})
    return out


def count_range(f, start, region, events):
    stops = {s for b in region for s in f.succ[b] if s not in region}
    if start not in region:
        return (0, 0)
    return D.path_event_range(f, start, stops, events)


def run(ctx, res):
    P = ctx.P
    reach, inv = PI.run(ctx, res, LAYERS, floor_fns=545, floor_sites=250)
    f = P.require_fn("lsp::handle_message")
    push_blocks = {bi for bi, t in f.calls() if is_push(t)}
    res.floor("ARM-SHAPE", "push_* calls in handle_message", len(push_blocks), 14)
    ids = id_switches(f)
    arms = {}
    for sw in D.bool_switches(f):
        r = sw["root"]
        if r[0] != "call" or not (M.callee_name(r[2]) or "").endswith("PartialEq for str>::eq"):
            continue
        lit = None
        for a in r[2]["args"]:
            lit = lit or const_str(f, a)
        if lit is None or sw["true"] is None:
            continue
        arms[lit] = (sw["bb"], sw["true"], sw["false"])
    # arms selected by a predicate on the method other than equality with a literal (`method.starts_with("$/")`, a helper
    # taking the method): such an arm covers methods this table does not know, so it is held to the request shape --
    # answer exactly once iff an id is present
    method_roots = set()
    for sw in D.bool_switches(f):
        r = sw["root"]
        if r[0] == "call" and (M.callee_name(r[2]) or "").endswith("PartialEq for str>::eq"):
            for a in r[2]["args"]:
                if const_str(f, a) is None:
                    rr = f.root_of(a, through_named=True)
                    if rr[0] == "place":
                        method_roots.add((rr[1]["l"], json.dumps(rr[1]["p"], sort_keys=True)))
    n_pat = 0
    for sw in D.bool_switches(f):
        r = sw["root"]
        if r[0] != "call" or (M.callee_name(r[2]) or "").endswith("PartialEq for str>::eq") or sw["true"] is None:
            continue
        on_method = False
        for a in r[2]["args"]:
            rr = f.root_of(a, through_named=True)
            if rr[0] == "place" and (rr[1]["l"], json.dumps(rr[1]["p"], sort_keys=True)) in method_roots:
                on_method = True
        if on_method:
            n_pat += 1
            arms["<%s(method, ..)>#%d" % ((M.callee_name(r[2]) or "?").split("::")[-1].split("<")[0] or "pred", n_pat)] = (sw["bb"], sw["true"], sw["false"])
    res.extra["method_pattern_arms"] = n_pat
    for m in REQUESTS + NOTIFICATIONS:
        if m not in arms:
            res.bad("ARM-SHAPE", "lsp::handle_message # arm-missing # " + m, "no arm compares the method with %r" % m, f.loc())
    last_false = None
    for m, (sb, tt, ff) in arms.items():
        region = D.edge_dominated(f, sb, tt)
        pushes = push_blocks & region
        if m in NOTIFICATIONS:
            if pushes:
                res.bad("ARM-SHAPE", "lsp::handle_message # notification-answers # " + m,
                        "the arm for notification %r pushes an id-carrying response" % m, f.loc(f.blocks[min(pushes)]["term"].get("fn_span")))
            else:
                res.ok("ARM-SHAPE", "notification %s: no response" % m)
            continue
        if m.startswith("<") and any(o != m and osb in region for o, (osb, _t, _f) in arms.items()):
            res.ok("ARM-SHAPE", "%s: a grouping test, its nested arms are judged one by one" % m)
            continue
        sws = [x for x in ids if x["bb"] in region or x["bb"] == tt]
        if len(sws) != 1 or sws[0]["some"] is None:
            res.bad("ARM-SHAPE", "lsp::handle_message # id-test # " + m,
                    "the arm for %r does not test `parsed.id` exactly once (%d tests)" % (m, len(sws)), f.loc())
            continue
        sw = sws[0]
        some_region = D.edge_dominated(f, sw["bb"], sw["some"]) & region
        outside = pushes - some_region
        rng = count_range(f, sw["some"], some_region, pushes)
        if outside:
            res.bad("ARM-SHAPE", "lsp::handle_message # answers-without-id # " + m,
                    "the arm for %r pushes a response on a path where no id is present" % m, f.loc())
        elif rng != (1, 1):
            res.bad("ARM-SHAPE", "lsp::handle_message # answer-count # %s # %s" % (m, rng),
                    "the arm for request %r answers %s times when an id is present (must be exactly once)" % (m, rng), f.loc())
        else:
            res.ok("ARM-SHAPE", "%s %s: exactly one response iff id present" % ("request" if m in REQUESTS else "method", m))
    # unknown-method arm + parse-failure exit: the two push_error calls, each under a Some(id) edge, once
    pe = [bi for bi, t in f.calls() if (M.callee_name(t) or "").startswith("lsp::push_error")]
    res.floor("ARM-SHAPE", "push_error fallbacks (parse failure, unknown method)", len(pe), 2)
    for bi in pe:
        cover = [x for x in ids if x["some"] is not None and bi in D.edge_dominated(f, x["bb"], x["some"])]
        if cover:
            res.ok("ARM-SHAPE", "push_error at bb%d is under an id-present edge" % bi)
        else:
            res.bad("ARM-SHAPE", "lsp::handle_message # push_error-without-id", "push_error is reachable without an id", f.loc(f.blocks[bi]["term"].get("fn_span")))
    # the fall-through of the literal chain must reach the unknown-method push_error when an id is present:
    # every return path that passed no literal arm and has Some(method)+Some(id) answers -- checked as: the
    # default region (false edge of the last comparison) contains an id switch whose Some edge answers once.
    chain = sorted(arms.values(), key=lambda x: f.rpo.index(x[0]) if x[0] in f.rpo else 0)
    if chain:
        sb, tt, ff = chain[-1]
        if ff is not None:
            region = D.edge_dominated(f, sb, ff)
            sws = [x for x in ids if x["bb"] in region or x["bb"] == ff]
            okd = False
            for sw in sws:
                sr = D.edge_dominated(f, sw["bb"], sw["some"]) & region if sw["some"] is not None else set()
                if sw["some"] is not None and count_range(f, sw["some"], sr, push_blocks) == (1, 1):
                    okd = True
            if okd:
                res.ok("ARM-SHAPE", "unknown method: answered once iff an id is present")
            else:
                res.bad("ARM-SHAPE", "lsp::handle_message # unknown-method", "an unknown request method is not answered exactly once", f.loc())
    # push_request_response: exactly one push on every path
    g = P.require_fn("lsp::push_request_response")
    ev = {bi for bi, t in g.calls() if (M.callee_name(t) or "").startswith(("lsp::push_response", "lsp::push_error"))}
    rng = D.path_event_range(g, 0, set(g.exits()), ev)
    if rng == (1, 1):
        res.ok("ARM-SHAPE", "push_request_response pushes exactly once on every path")
    else:
        res.bad("ARM-SHAPE", "lsp::push_request_response # count # %s" % (rng,), "push_request_response pushes %s responses" % (rng,), g.loc())
    for nm in ("lsp::push_response", "lsp::push_error"):
        h = P.require_fn(nm)
        pv = {bi for bi, t in h.calls() if (M.callee_name(t) or "").endswith("Vec::<T, A>::push") or (M.callee_name(t) or "").endswith("Vec::<T>::push")}
        # the Ok edge of to_value must push once
        r2 = D.path_event_range(h, 0, set(h.exits()), pv)
        if r2 is not None and r2[1] == 1 and pv:
            res.ok("ARM-SHAPE", "%s pushes at most once, and only the serialisation-error path pushes nothing" % nm)
        else:
            res.bad("ARM-SHAPE", nm + " # push-count # %s" % (r2,), "%s pushes %s messages" % (nm, r2), h.loc())
    # ---- FRAME-LENGTH: the number written after `Content-Length:` is the byte length of the body written after it (a char
    # count is smaller for any message with a non-ASCII character: the client cuts the body short and the rest of the
    # stream, i.e. every later response, is misframed)
    from .. import units as U
    n_hdr = 0
    for p_, g in sorted(P.funcs.items()):
        if not p_.startswith("lsp::") or "Content-Length" not in json.dumps(g.blocks):
            continue
        shown = [(bi, t) for bi, t in g.calls() if (M.callee_name(t) or "").endswith("Argument::<'_>::new_display")
                 and any(x in str((t.get("argtys") or [""])[0]) for x in ("usize", "u64", "u32", "i64", "i32"))]
        if not shown:
            continue     # a reader of the header
        us, _sinks = U.analyse(g, P)
        written = set()
        for bi, t in g.calls():
            if (M.callee_name(t) or "").endswith(("String::as_bytes", "str>::as_bytes")) and t["args"]:
                rr = g.root_of(t["args"][0], through_named=True)
                if rr[0] == "place":
                    written.add(rr[1]["l"])
        for bi, t in shown:
            n_hdr += 1
            rr = g.root_of(t["args"][0])
            for _ in range(3):
                # format_args! bundles its arguments in a tuple of references first
                if rr[0] == "place" and rr[1]["p"] and isinstance(rr[1]["p"][0], dict) and "f" in rr[1]["p"][0]:
                    d0 = g.single_def(rr[1]["l"])
                    if d0 and d0[1] != "term" and d0[2]["rv"]["k"] == "agg" and rr[1]["p"][0]["f"] < len(d0[2]["rv"]["ops"]):
                        rr = g.root_of(d0[2]["rv"]["ops"][rr[1]["p"][0]["f"]])
                        continue
                break
            l = rr[1]["l"] if rr[0] == "place" else (rr[2]["dest"]["l"] if rr[0] == "call" else None)
            uu = set(us.get(l, set())) if l is not None else set()
            key = "%s # Content-Length value" % p_
            if uu != {U.BYTE}:
                res.bad("FRAME-LENGTH", key + " # " + (",".join(sorted(uu)) or "unknown unit"),
                        "%s writes a Content-Length that is %s, not the byte length of the body: for a message with a non-ASCII character "
                        "the client reads a short body and every later message is misframed" % (p_, ("a %s count" % "/".join(sorted(uu))) if uu else "not derived from str::len / String::len"),
                        g.loc(t.get("span")))
                continue
            d = g.single_def(l)
            same = None
            if d and d[1] == "term" and d[2]["args"]:
                r2 = g.root_of(d[2]["args"][0], through_named=True)
                same = r2[0] == "place" and (not written or r2[1]["l"] in written)
            if same is False:
                res.bad("FRAME-LENGTH", key + " # other text", "%s measures one string and writes another" % p_, g.loc(t.get("span")))
            else:
                res.ok("FRAME-LENGTH", key + ": byte length of the text that is written")
    res.floor("FRAME-LENGTH", "Content-Length headers written in lsp::", n_hdr, 1)
    # ---- LOOP-LIVENESS
    rl = P.require_fn("lsp::run_lsp")
    loops = D.natural_loops(rl)
    byh = {}
    for (h, a, body) in loops:
        byh.setdefault(h, set()).update(body)
    loops = [(h, None, b) for h, b in byh.items()]
    outer = max(loops, key=lambda x: len(x[2])) if loops else None
    if outer is None:
        res.bad("LOOP-LIVENESS", "lsp::run_lsp # no-loop", "run_lsp has no message loop", rl.loc())
    else:
        h, a, body = outer
        rets = set(rl.exits())
        # edges into regions from which no return is reachable (they end in process::exit) are not loop exits
        exits = {(b, s) for b in body for s in rl.succ[b] if s not in body and rl.blocks[s]["term"]["t"] != "unreachable"
                 and (D.reach_from(rl, [s]) & rets)}
        okx = True
        for (b, s) in exits:
            t = rl.blocks[b]["term"]
            why = None
            if t["t"] == "switch":
                r = rl.root_of(t["discr"])
                if r[0] == "rv" and r[3]["rv"]["k"] == "discr":
                    base = rl.root_of({"copy": r[3]["rv"]["place"]}, through_named=True)
                    # discriminant of (a projection of) the read_message() result
                    l = r[3]["rv"]["place"]["l"]
                    d = [x for x in rl.defs.get(l, []) if x[1] == "term"]
                    if d and (M.callee_name(d[0][2]) or "").endswith("lsp::read_message"):
                        why = "read_message result"
            if why is None:
                okx = False
                res.bad("LOOP-LIVENESS", "lsp::run_lsp # loop-exit", "run_lsp's loop has an exit that is not end-of-input", rl.loc(t.get("span")))
        if okx:
            res.ok("LOOP-LIVENESS", "run_lsp: %d loop exit edge(s), all on the read_message() result" % len(exits))
        ex = [bi for bi, t in rl.calls() if M.callee_name(t) == "std::process::exit"]
        for bi in ex:
            ac = [c for c in D.arm_context(rl, bi) if D.short_ty(c[0]) == "Action"]
            if ac and ac[-1][1] == ("Exit",):
                res.ok("LOOP-LIVENESS", "process::exit only in the Action::Exit arm")
            else:
                res.bad("LOOP-LIVENESS", "lsp::run_lsp # exit-outside-exit-arm", "process::exit is reachable outside the `exit` arm", rl.loc())
    # ---- DOC-SYNC: with full-document sync the last entry of contentChanges is the document. The text stored for
    # the document and the text checked for diagnostics must both be that entry's `text`.
    dc = P.require_fn("lsp::handle_did_change")

    def provenance(g, op, limit=30):
        """callee short names on the way back from an operand through single-argument accessor calls and `?`."""
        chain = []
        r = g.root_of(op, through_named=True)
        for _ in range(limit):
            if r[0] == "place":
                # payload of a `?` branch: Continue(x) of Try::branch(y)
                l = r[1]["l"]
                dd = [d for d in g.defs.get(l, []) if d[1] == "term"]
                if len(dd) == 1:
                    r = ("call", dd[0][0], dd[0][2])
                    continue
                return chain
            if r[0] != "call":
                return chain
            t = r[2]
            n = (M.callee_name(t) or "?").split("::")[-1]
            chain.append(n)
            if n == "get" and len(t["args"]) > 1:
                c = const_str(g, t["args"][1])
                if c:
                    chain[-1] = "get(%s)" % c
            if not t["args"]:
                return chain
            r = g.root_of(t["args"][0], through_named=True)
        return chain
    def sync_sites(g):
        i_ = [(bi, t) for bi, t in g.calls() if (M.callee_name(t) or "").endswith("::insert") and "HashMap" in (M.callee_name(t) or "")]
        g_ = [(bi, t) for bi, t in g.calls() if M.callee_name(t) == "lsp::get_diagnostics"]
        return i_, g_
    ins, gd = sync_sites(dc)
    via = None
    if not ins and not gd:
        # the store-and-diagnose step may live in a helper shared with didOpen: follow the text argument one call down
        for bi, t in dc.calls():
            n = M.callee_name(t) or ""
            h = P.funcs.get(n)
            if h is None or not n.startswith("lsp::"):
                continue
            hi, hg = sync_sites(h)
            if hi and hg:
                via = (h, t)
                ins, gd = hi, hg
                break
    res.floor("DOC-SYNC", "document store inserts in handle_did_change", len(ins), 1)
    res.floor("DOC-SYNC", "get_diagnostics calls in handle_did_change", len(gd), 1)

    def text_chain(t, argi):
        if via is None:
            return provenance(dc, t["args"][argi])
        h, ct = via
        ch = provenance(h, t["args"][argi])
        # continue from the helper's parameter at the call site
        r = h.root_of(t["args"][argi], through_named=True)
        for _ in range(8):
            if r[0] == "call" and r[2]["args"]:
                r = h.root_of(r[2]["args"][0], through_named=True)
            else:
                break
        if r[0] == "place" and 1 <= r[1]["l"] <= h.argc and len(ct["args"]) >= r[1]["l"]:
            return ch + provenance(dc, ct["args"][r[1]["l"] - 1])
        return ch
    for what, (bi, t), argi in [("stored text", x, 2) for x in ins] + [("checked text", x, 0) for x in gd]:
        ch = text_chain(t, argi)
        want_text = "get(text)" in ch
        i_text = ch.index("get(text)") if want_text else -1
        after = ch[i_text + 1:] if want_text else ch
        picks = [c for c in after if c in ("last", "first", "find_map", "find", "next", "nth", "index", "get", "rev", "max_by_key", "fold")]
        ok = want_text and picks[:1] == ["last"] and "get(contentChanges)" in after
        if ok:
            res.ok("DOC-SYNC", "handle_did_change: %s = contentChanges.last().text" % what)
        else:
            res.bad("DOC-SYNC", "lsp::handle_did_change # %s # %s" % (what, ">".join(ch)[:80]),
                    "the %s in handle_did_change is not `contentChanges.last().text` (provenance: %s): with batched changes the "
                    "server keeps and checks an intermediate text, so its diagnostics differ from `garden check` on the final text"
                    % (what, " <- ".join(ch)[:160]), dc.loc(t.get("fn_span")))
    # ---- PIPELINE-AGREE
    def pipeline(fn):
        g = P.require_fn(fn)
        order = []
        for bi in g.rpo:
            t = g.blocks[bi]["term"]
            if t["t"] == "call":
                n = M.callee_name(t) or ""
                for k in ("parser::parse_toplevel_items", "eval::load_toplevel_items", "checks::check_toplevel_items_in_env"):
                    if n == k and k not in order:
                        order.append(k)
        return order
    a, b = pipeline("lsp::get_diagnostics"), pipeline("syntax_check::check")
    want = ["parser::parse_toplevel_items", "eval::load_toplevel_items", "checks::check_toplevel_items_in_env"]
    if a == b == want:
        res.ok("PIPELINE-AGREE", "get_diagnostics and syntax_check::check both run parse -> load -> check")
    else:
        res.bad("PIPELINE-AGREE", "pipeline # %s # %s" % (a, b), "lsp::get_diagnostics runs %s but syntax_check::check runs %s" % (a, b))
    # ---- DIAG-COMPLETE: every parse error and every check diagnostic becomes exactly one published diagnostic: each
    # iteration of the conversion loops in get_diagnostics pushes once on every path (no filter, no early `continue`)
    gd_ = P.require_fn("lsp::get_diagnostics")
    pushes_ = [bi for bi, t in gd_.calls() if (M.callee_name(t) or "").endswith("Vec::<T, A>::push") and t.get("argtys")
               and "gen_lsp_types::Diagnostic" in t["argtys"][0]]
    loops_ = {}
    for h, a, body in D.natural_loops(gd_):
        loops_.setdefault(h, set()).update(body)
    n_conv = 0
    for h, body in sorted(loops_.items()):
        if not any(b in body for b in pushes_):
            continue
        n_conv += 1
        # the iteration starts on the edge of the loop header's `next()` switch that stays inside the loop
        starts = []
        for b in body:
            t = gd_.blocks[b]["term"]
            if t["t"] == "switch" and any(x not in body for x in gd_.succ[b]) and gd_.dominates(b, [p_ for p_ in pushes_ if p_ in body][0]):
                starts += [x for x in gd_.succ[b] if x in body]
        rng = D.path_event_range(gd_, starts[0], [h], [p_ for p_ in pushes_ if p_ in body]) if starts else None
        key = "lsp::get_diagnostics # conversion loop %d" % n_conv
        if rng == (1, 1):
            res.ok("DIAG-COMPLETE", key + ": exactly one diagnostic is published per item on every path")
        else:
            res.bad("DIAG-COMPLETE", key + " # pushes per item %s" % (rng,),
                    "a loop of get_diagnostics that converts parse errors / check diagnostics does not publish exactly one diagnostic per item on "
                    "every path (%s): some of what `garden check` reports for the same text is dropped or duplicated" % (rng,),
                    gd_.loc(gd_.blocks[h]["term"].get("span")))
    # iterator form: `.map(|d| Diagnostic {..})` collected or extended into the vector, with no adapter that drops items
    for bi, t in gd_.calls():
        n = M.callee_name(t) or ""
        if not (n.endswith("Iterator::collect") or n.endswith("::extend")) or not t["args"]:
            continue
        chain = []
        builds = False
        r = gd_.root_of(t["args"][-1], through_named=True)
        for _ in range(10):
            if r[0] != "call":
                break
            nm = (M.callee_name(r[2]) or "").split("::")[-1]
            chain.append(nm)
            for a in r[2]["args"][1:]:
                cp = PI._closure_of(gd_, a)
                c_ = P.funcs.get(cp) if cp else None
                if c_ is not None and any(st.get("s") == "assign" and st["rv"]["k"] == "agg" and st["rv"].get("adt") == "gen_lsp_types::Diagnostic"
                                          for b_ in c_.blocks for st in b_["stmts"]):
                    builds = True
            if not r[2]["args"]:
                break
            r = gd_.root_of(r[2]["args"][0], through_named=True)
        if not builds:
            continue
        n_conv += 1
        dropping = [x for x in chain if x in ("filter", "filter_map", "take", "skip", "take_while", "skip_while", "step_by", "flat_map", "nth")]
        key = "lsp::get_diagnostics # conversion chain %d" % n_conv
        if dropping:
            res.bad("DIAG-COMPLETE", key + " # " + ",".join(dropping), "the iterator chain that converts diagnostics passes through %s: items can be dropped or "
                    "multiplied, so the published diagnostics differ from `garden check`" % ", ".join(dropping), gd_.loc(t.get("fn_span")))
        else:
            res.ok("DIAG-COMPLETE", key + ": map(..) without a dropping adapter")
    res.floor("DIAG-COMPLETE", "conversion loops in get_diagnostics", n_conv, 2)
    if ctx.tier == "thorough":
        from .. import loops as LP
        LP.run(ctx, res, reach)
    res.explanation = (
        "No-panic inventory over the %d functions reachable from lsp::run_lsp; ARM-SHAPE decides, on handle_message's "
        "CFG, that each of the %d request methods answers exactly once iff an id is present (path-count over the region "
        "edge-dominated by the method comparison and the id test), that the %d notification arms push nothing, that the "
        "unknown-method and parse-failure exits answer iff an id is present, and that push_request_response pushes once "
        "per path; LOOP-LIVENESS and PIPELINE-AGREE are shape checks. Not decided: range conversion correctness (C29), "
        "equality of published diagnostics beyond the pipeline shape." % (len(reach), len(REQUESTS), len(NOTIFICATIONS)))
    res.assumptions += ["serde serialisation of the server's own response types does not fail", "see C01/C02 for PANIC-INV assumptions"]
