"""C15 Inferred types of lists and branches cover every element (schema conformance).

  JOIN-ROWS      every value `unify` can return is, given the condition it is returned under, an upper bound of both
                 arguments by C14's rows: Type::Any (top) | the *other* side when one side is bottom (NoValue/Error) |
                 either side when they are equal | same-name UserDefined whose args are componentwise `unify` (sound
                 because UserDefined is covariant in its args, C14) | otherwise None.
  FOLD           unify_all starts from the bottom type, passes every element through `unify`, returns the accumulator.
  FAIL-TOP       at every consumer of unify/unify_all, the type used when unification fails is not derived from the
                 failure payload (the partial join) nor from an input: it is built independently (Any, Error, expected type).
  JOIN-MUST-PASS once the types to combine are known, every path to the end of the construct passes the unify/unify_all call.
  CALL-PRESENCE  the inference of list/dict literals, if/else, try/catch and match goes through unify_all/unify.
"""
from .. import shape as S
from .. import mir as M
from .. import dflow as D

FILE = "src/checks/type_checker.rs"


def is_path(e, name=None):
    return e is not None and e["k"] == "Path" and (name is None or e["path"] == name)


def some_arg(e):
    """`Some(X)` -> X"""
    if e and e["k"] == "Call" and is_path(e["f"], "Some") and len(e["args"]) == 1:
        return e["args"][0]
    return None


def bottom_tests(cond, params):
    """cond is `p.is_no_value() || p.is_error()` (any subset/order) -> the parameter name p, else None."""
    names = set()

    def go(c):
        if c["k"] == "Binary" and c["op"] == "||":
            return go(c["l"]) and go(c["r"])
        if c["k"] == "MethodCall" and c["method"] in ("is_no_value", "is_error") and is_path(c["recv"]) and c["recv"]["path"] in params:
            names.add(c["recv"]["path"])
            return True
        return False
    if go(cond) and len(names) == 1:
        return names.pop()
    return None


def any_tests(cond, params):
    """cond is `matches!(p1, Type::Any) || matches!(p2, Type::Any)`-like: returns set of params tested for Any."""
    names = set()

    def go(c):
        if c["k"] == "Binary" and c["op"] == "||":
            return go(c["l"]) and go(c["r"])
        if c["k"] == "Macro" and c["name"] == "matches" and is_path(c.get("scrutinee")) and S.pat_variant(c["pat"]) == "Any":
            names.add(c["scrutinee"]["path"])
            return True
        return False
    return names if go(cond) else None


def clone_of(e):
    if e["k"] == "MethodCall" and e["method"] == "clone" and is_path(e["recv"]):
        return e["recv"]["path"]
    return None


UNIFIERS = ("checks::type_checker::unify_all", "checks::type_checker::unify")


def _rooted(f, op, locals_):
    """does operand `op` resolve (through single-definition temporaries and clone calls) to one of `locals_`?"""
    for _ in range(6):
        r = f.root_of(op)
        if r[0] == "place":
            return r[1]["l"] in locals_
        if r[0] == "call":
            n = M.callee_name(r[2]) or ""
            if n.endswith("::clone") and r[2]["args"]:
                op = r[2]["args"][0]
                continue
            return False
        return False
    return False


def fail_top(P, res):
    """FAIL-TOP: where a combining construct's unification fails, the type it reports instead is not one of the types
    being combined (a partial join, one branch): the fallback is built independently (Type::Any, Type::error, the expected type)."""
    n = 0
    for p_, f in sorted(P.funcs.items()):
        if p_.split("::{closure")[0] in UNIFIERS:
            continue
        for bi, t in f.calls():
            cn = M.callee_name(t)
            if cn not in UNIFIERS or not t.get("dest"):
                continue
            n += 1
            R = t["dest"]["l"]
            key = "%s # %s@%s" % (p_, cn.split("::")[-1], D.arm_label(f, bi, enums={"Expression_"}) or "-")
            # locals tainted on the failure path: the failure payload's types and the inputs of the call
            taint = set()
            for a in t["args"]:
                r = f.root_of(a)
                if r[0] == "place" and r[1]["l"] != R:
                    taint.add(r[1]["l"])
            succ = set()
            for l, defs in f.defs.items():
                for (b_, si, st) in defs:
                    if si == "term" or st.get("s") != "assign" or st["rv"]["k"] != "use":
                        continue
                    q = M.op_place(st["rv"]["a"])
                    if q is None or q["l"] != R:
                        continue
                    dc = [e.get("downcast") for e in q["p"] if isinstance(e, dict) and "downcast" in e]
                    if dc and dc[0] in ("Err", "None"):
                        if "Type" in f.local_ty(l).split("::")[-1] or f.local_ty(l).endswith("garden_type::Type"):
                            taint.add(l)
                    elif dc and dc[0] in ("Ok", "Some"):
                        succ.add(l)
            # close both sets under moves
            ch = True
            while ch:
                ch = False
                for l, defs in f.defs.items():
                    for (b_, si, st) in defs:
                        if si == "term" or st.get("s") != "assign" or st["rv"]["k"] != "use":
                            continue
                        q = M.op_place(st["rv"]["a"])
                        if q is None or q["p"]:
                            continue
                        if q["l"] in succ and l not in succ:
                            succ.add(l)
                            ch = True
                        if q["l"] in taint and l not in taint and l not in succ and len(defs) == 1:
                            taint.add(l)
                            ch = True
            bad = None
            consumer = None
            # (a) merge locals: a local fed by the success payload and by something else
            for l in sorted(succ):
                defs = f.defs.get(l, [])
                if len(defs) < 2:
                    continue
                consumer = "match"
                for (b_, si, st) in defs:
                    if not f.dominates(bi, b_):
                        continue
                    if si == "term":
                        a0 = st["args"][0] if (M.callee_name(st) or "").endswith("::clone") and st["args"] else None
                        if a0 is not None and _rooted(f, a0, taint):
                            bad = st["span"]
                        continue
                    if st.get("s") != "assign":
                        continue
                    rv = st["rv"]
                    if rv["k"] == "use":
                        q = M.op_place(rv["a"])
                        if q is not None and q["l"] in succ:
                            continue
                        if _rooted(f, rv["a"], taint):
                            bad = st["span"]
            # (b) Result::unwrap_or(R, default) / Option::unwrap_or
            for b2, t2 in f.calls():
                n2 = M.callee_name(t2) or ""
                if not t2["args"]:
                    continue
                q = M.op_place(t2["args"][0])
                if q is None or q["l"] != R or q["p"]:
                    continue
                if n2.endswith("::unwrap_or") and len(t2["args"]) == 2:
                    consumer = "unwrap_or"
                    if _rooted(f, t2["args"][1], taint):
                        bad = t2["span"]
                elif n2.endswith(("::unwrap_or_default", "::ok", "::is_ok", "::is_some", "::is_none", "::is_err")):
                    consumer = n2.split("::")[-1]
                elif consumer is None:
                    consumer = "call:" + n2
            if bad is not None:
                res.bad("FAIL-TOP", key + " # fallback-from-inputs",
                        "when %s fails here the type reported instead is taken from the types being combined (the partial join in the "
                        "failure payload, or one input): it does not cover the elements that failed to unify" % cn.split("::")[-1], bad)
            elif consumer is None:
                res.ok("FAIL-TOP", key + ": result not merged with a fallback (failure leaves the construct)")
            else:
                res.ok("FAIL-TOP", key + ": failure fallback is independent of the combined types (%s)" % consumer)
    res.floor("FAIL-TOP", "consumers of unify/unify_all", n, 7)


def join_must_pass(P, res):
    """JOIN-MUST-PASS: once the types to be combined have been computed, every path to the end of the construct goes through
    the unify / unify_all call: no shortcut (an early `return Type::unit()` when one branch is Unit, say) bypasses the join."""
    n = 0
    for p_, f in sorted(P.funcs.items()):
        if p_.split("::{closure")[0] in UNIFIERS:
            continue
        rets = [bi for bi in f.reachable_blocks() if f.blocks[bi]["term"]["t"] == "return"]
        for bi, t in f.calls():
            cn = M.callee_name(t)
            if cn not in UNIFIERS:
                continue
            n += 1
            # where the inputs become available: the latest definition among the call's (de-referenced) arguments
            starts = []
            for a in t["args"]:
                r = f.root_of(a, through_named=False)
                if r[0] == "place":
                    for (b_, si, st) in f.defs.get(r[1]["l"], []):
                        if f.dominates(b_, bi):
                            starts.append(b_)
            key = "%s # %s@%s" % (p_, cn.split("::")[-1], D.arm_label(f, bi, enums={"Expression_"}) or "-")
            if not starts:
                res.ok("JOIN-MUST-PASS", key + ": inputs are parameters")
                continue
            # the latest: the one dominated by all the others
            start = [s_ for s_ in starts if all(f.dominates(o, s_) for o in starts)]
            start = start[0] if start else starts[-1]
            nxt = f.blocks[start]["term"].get("target") if f.blocks[start]["term"]["t"] == "call" else None
            begin = [nxt] if nxt is not None else f.succ[start]
            # other join calls of the same construct are fine too (two match sites in check_match)
            joins = [b2 for b2, t2 in f.calls() if M.callee_name(t2) in UNIFIERS]
            esc = D.reach_from(f, begin, avoid_blocks=joins) & set(rets)
            # leaving through a path on which the inputs are not both present (the `else` is missing, a `?`) is not a bypass:
            # only count returns reached without passing any enum switch edge that excludes the call
            if esc and not _only_excluded_arms(f, start, bi, esc):
                res.bad("JOIN-MUST-PASS", key + " # bypass",
                        "after the types to combine are known, %s can return without calling %s: the reported type on that path is not a join of "
                        "the combined types" % (p_.split("::")[-1], cn.split("::")[-1]), f.loc(t["span"]))
            else:
                res.ok("JOIN-MUST-PASS", key + ": every path from the inputs to the result passes the join")
    res.floor("JOIN-MUST-PASS", "join call sites", n, 7)


def _only_excluded_arms(f, start, call_bb, escaping_returns):
    """the escaping paths all leave through an enum-switch arm (taken after `start`) that does not contain the call, e.g. the
    `None` arm of `match else_block`; a bool test on the inputs is not such an arm."""
    for sw in D.enum_switches(f):
        if not f.dominates(start, sw["bb"]) or sw["bb"] == start:
            continue
        # the call sits in exactly one arm region of this switch
        arms = list(sw["by_target"].keys()) + ([sw["otherwise"]] if sw["otherwise"] not in sw["by_target"] else [])
        with_call = [a for a in arms if call_bb in D.edge_dominated(f, sw["bb"], a)]
        if len(with_call) == 1:
            others = set()
            for a in arms:
                if a != with_call[0]:
                    others |= D.reach_from(f, [a])
            rest = D.reach_from(f, [with_call[0]], avoid_blocks=[call_bb]) & set(escaping_returns)
            if not rest:
                return True
    return False


def no_pseudo_join(P, res, rule="NO-PSEUDO-JOIN"):
    """the type reported for a construct with several branches is a join of the branch types (unify / unify_all) or a type
    given from outside (the expected type) -- never one of the branch types picked by asking is_subtype: that is a join only
    when the branches are comparable (`Ok(1)` / `Err("x")` are not, and the `then` type would be reported for both)."""
    INF = ("check_block", "infer_block", "check_expr", "infer_expr", "check_expr_", "infer_expr_", "check_match", "infer_match")
    n = 0
    for p_, f in sorted(P.funcs.items()):
        if not p_.startswith("checks::type_checker::") or p_.split("::{closure")[0] in UNIFIERS:
            continue
        for sw in D.bool_switches(f):
            r = sw["root"]
            if r[0] != "call" or not (M.callee_name(r[2]) or "").endswith("garden_type::is_subtype"):
                continue
            srcs = []
            for a in r[2]["args"]:
                rr = f.root_of(a, through_named=True)
                if rr[0] == "call" and (M.callee_name(rr[2]) or "").split("::")[-1] in INF:
                    srcs.append(rr[2]["dest"]["l"])
            if len(srcs) != 2 or srcs[0] == srcs[1]:
                continue
            n += 1
            # inside the two branches of the test, is a branch type moved (or cloned) into the construct's result, rather than only
            # borrowed for a message?
            region = set()
            for e_ in (sw["true"], sw["false"]):
                if e_ is not None:
                    region |= D.edge_dominated(f, sw["bb"], e_)
            picked = False
            for b in region:
                for st in f.blocks[b]["stmts"]:
                    if st.get("s") == "assign" and st["rv"]["k"] == "use":
                        q = st["rv"]["a"].get("move") or st["rv"]["a"].get("copy")
                        if q is not None and not q["p"] and q["l"] in srcs:
                            picked = True
                t_ = f.blocks[b]["term"]
                if t_["t"] == "call" and (M.callee_name(t_) or "").endswith("::clone") and t_["args"]:
                    rr = f.root_of(t_["args"][0], through_named=True)
                    if rr[0] == "call" and rr[2]["dest"]["l"] in srcs and "Type" in f.local_ty(t_["dest"]["l"]):
                        picked = True
            key = "%s # is_subtype between two branch types # %s" % (p_, D.arm_label(f, sw["bb"], enums={"Expression_", "BinaryOperatorKind"}) or "-")
            if picked:
                res.bad(rule, key, "%s compares the types of two branches with is_subtype and returns one of them: for branches that are not comparable the "
                        "reported type does not cover the other branch" % p_.split("::")[-1], f.loc(r[2].get("span")))
            else:
                res.ok(rule, key + ": used for a diagnostic only, the result does not depend on it")
    res.extra["is_subtype_between_branch_types"] = n


def run(ctx, res):
    sh = ctx.shape
    no_pseudo_join(ctx.P, res)
    fn = S.find_fn(sh, FILE, "unify")
    params = [p["name"] for p in fn["params"]]
    if len(params) != 2:
        raise M.MissingAnchor("unify does not take two types")
    p1, p2 = params
    stmts = fn["body"]["stmts"]
    n_rows = 0
    seen_eq = False
    tail = None
    for i, s in enumerate(stmts):
        if s["k"] != "ExprStmt":
            res.bad("JOIN-ROWS", "checks::type_checker::unify # statement %s" % s["k"], "unify contains a statement outside the recognised row idiom (%s)" % s["k"], "%s:%d" % (FILE, S.line(s)))
            continue
        e = s["e"]
        if e["k"] == "If" and e["else"] is None:
            then = e["then"]["stmts"]
            ret = then[0]["e"] if len(then) == 1 and then[0]["k"] == "ExprStmt" and then[0]["e"]["k"] == "Return" else None
            x = some_arg(ret["e"]) if ret else None
            key = "checks::type_checker::unify # row@%d" % (n_rows + 1)
            n_rows += 1
            if x is None:
                if ret and is_path(ret["e"], "None"):
                    res.ok("JOIN-ROWS", key + " => None (no join claimed)")
                else:
                    res.bad("JOIN-ROWS", key + " # shape", "row is not `if <cond> { return Some(X) }`", "%s:%d" % (FILE, S.line(e)))
                continue
            cond = e["cond"]
            anys = any_tests(cond, params)
            bot = bottom_tests(cond, params)
            is_eq = cond["k"] == "Binary" and cond["op"] == "==" and {cond["l"].get("path"), cond["r"].get("path")} == {p1, p2}
            if is_path(x, "Type::Any"):
                res.ok("JOIN-ROWS", key + " => Some(Type::Any): top is an upper bound of anything")
                if anys is not None and anys != {p1, p2}:
                    res.note("Any row tests only %s" % sorted(anys))
            elif clone_of(x) in params:
                side = clone_of(x)
                other = p2 if side == p1 else p1
                if bot is not None and bot == other:
                    res.ok("JOIN-ROWS", key + " => Some(%s) when %s is bottom (NoValue/Error)" % (side, other))
                elif is_eq:
                    seen_eq = True
                    res.ok("JOIN-ROWS", key + " => Some(%s) when %s == %s" % (side, p1, p2))
                elif bot is not None and bot == side:
                    res.bad("JOIN-ROWS", key + " # returns-bottom-side",
                            "when %s is NoValue/Error unify returns %s itself instead of the other type: the result is not a supertype of %s" % (side, side, other),
                            "%s:%d" % (FILE, S.line(e)))
                else:
                    res.bad("JOIN-ROWS", key + " # unjustified",
                            "unify returns %s under a condition (%s) that does not make it an upper bound of %s" % (side, ctx.src_text(FILE, cond["sp"]), other),
                            "%s:%d" % (FILE, S.line(e)))
            else:
                res.bad("JOIN-ROWS", key + " # unknown-result", "unify returns `%s`, which is not Any, one of the arguments, or a componentwise join" % ctx.src_text(FILE, x["sp"]),
                        "%s:%d" % (FILE, S.line(e)))
        elif e["k"] == "Match" and i == len(stmts) - 1:
            tail = e
        else:
            res.bad("JOIN-ROWS", "checks::type_checker::unify # statement-expr %s" % e["k"], "unrecognised statement in unify", "%s:%d" % (FILE, S.line(e)))
    if not seen_eq:
        res.bad("JOIN-ROWS", "checks::type_checker::unify # no-equal-row", "no row `if %s == %s { return Some(..) }`: combining equal types must return that type" % (p1, p2), FILE)
    # ---- the match: only the UserDefined diagonal may produce Some
    if tail is None or tail["e"]["k"] != "Tuple":
        res.bad("JOIN-ROWS", "checks::type_checker::unify # no-match", "unify does not end in `match (%s, %s)`" % (p1, p2), FILE)
    else:
        for a in tail["arms"]:
            p = a["pat"]
            vs = (S.pat_variant(p["elems"][0]), S.pat_variant(p["elems"][1])) if p["k"] == "PTuple" and len(p["elems"]) == 2 else (S.pat_variant(p), None)
            somes = [n for n in S.walk(a["body"]) if n["k"] == "Call" and is_path(n["f"], "Some")]
            key = "checks::type_checker::unify # arm(%s, %s)" % vs
            if vs == ("UserDefined", "UserDefined"):
                b = S.pat_bindings(p)
                side = {n: (0 if pth[0] == "#0" else 1, pth[-1].split(".")[-1]) for n, pth in b.items() if len(pth) >= 2}
                body = a["body"]
                txt = ctx.src_text(FILE, body["sp"])
                # (i) early None unless names equal
                name0 = [n for n, (sd, fld) in side.items() if fld == "name" and sd == 0]
                name1 = [n for n, (sd, fld) in side.items() if fld == "name" and sd == 1]
                guard_ok = False
                for n in S.walk(body):
                    if n["k"] == "If" and n["else"] is None:
                        th = n["then"]["stmts"]
                        if len(th) == 1 and th[0]["k"] == "ExprStmt" and th[0]["e"]["k"] == "Return" and is_path(th[0]["e"]["e"], "None"):
                            for c in S.walk(n["cond"]):
                                if c["k"] == "Binary" and c["op"] == "!=":
                                    ids = S.idents_in(c)
                                    if name0 and name1 and name0[0] in ids and name1[0] in ids:
                                        guard_ok = True
                # (ii) result struct: name from a side, args from pushes of unify(arg_a, arg_b)?
                structs = [n for n in S.walk(body) if n["k"] == "Struct" and n["path"].endswith("UserDefined")]
                comp_ok = False
                if len(structs) == 1:
                    flds = {f["name"]: f["e"] for f in structs[0]["fields"]}
                    argsv = flds.get("args")
                    nm = flds.get("name")
                    nm_ok = nm is not None and bool(S.idents_in(nm) & set(name0 + name1))
                    if is_path(argsv) and nm_ok:
                        vec = argsv["path"]
                        for n in S.walk(body):
                            if n["k"] == "For" and n["iter"]["k"] == "MethodCall" and n["iter"]["method"] == "zip":
                                srcs = S.idents_in(n["iter"])
                                a0 = [x for x, (sd, fld) in side.items() if fld == "args" and sd == 0]
                                a1 = [x for x, (sd, fld) in side.items() if fld == "args" and sd == 1]
                                if not (a0 and a1 and a0[0] in srcs and a1[0] in srcs):
                                    continue
                                el = [q["name"] for q in n["pat"]["elems"]] if n["pat"]["k"] == "PTuple" else []
                                for c in S.walk(n["body"]):
                                    if c["k"] == "MethodCall" and c["method"] == "push" and is_path(c["recv"], vec) and len(c["args"]) == 1:
                                        arg = c["args"][0]
                                        if arg["k"] == "Try" and arg["e"]["k"] == "Call" and is_path(arg["e"]["f"], "unify"):
                                            ids = [x.get("path") for x in arg["e"]["args"]]
                                            if sorted(ids) == sorted(el):
                                                comp_ok = True
                    if is_path(argsv) and nm_ok and not comp_ok:
                        # iterator form: let <vec> = A.iter().zip(B).map(|(x, y)| unify(x, y)).collect::<Option<Vec<_>>>()?;
                        vec = argsv["path"]
                        a0 = [x for x, (sd, fld) in side.items() if fld == "args" and sd == 0]
                        a1 = [x for x, (sd, fld) in side.items() if fld == "args" and sd == 1]
                        for st in S.walk(body):
                            if st["k"] != "Let" or st.get("init") is None or st["pat"].get("name") != vec:
                                continue
                            init = st["init"]
                            if init["k"] != "Try":
                                continue
                            n = init["e"]
                            if not (n["k"] == "MethodCall" and n["method"] == "collect"):
                                continue
                            m = n["recv"]
                            if not (m["k"] == "MethodCall" and m["method"] == "map" and len(m["args"]) == 1 and m["args"][0]["k"] == "Closure"):
                                continue
                            z = m["recv"]
                            if not (z["k"] == "MethodCall" and z["method"] == "zip"):
                                continue
                            srcs = S.idents_in(z)
                            if not (a0 and a1 and a0[0] in srcs and a1[0] in srcs):
                                continue
                            c = m["args"][0]
                            el = [q["name"] for q in c["params"][0]["elems"]] if c["params"] and c["params"][0]["k"] == "PTuple" else []
                            b = c["body"]
                            if b["k"] == "Block":
                                b = S.tail_expr(b)
                            if b is not None and b["k"] == "Call" and is_path(b["f"], "unify"):
                                ids = [x.get("path") for x in b["args"]]
                                if sorted(ids) == sorted(el):
                                    comp_ok = True
                if guard_ok and comp_ok and len(somes) == 1:
                    res.ok("JOIN-ROWS", key + " => same-name UserDefined with componentwise unify(arg_1, arg_2)? (covariant args, C14)")
                    res.sample({"rule": "JOIN-ROWS", "arm": "UserDefined", "line": S.line(a)})
                else:
                    res.bad("JOIN-ROWS", key + " # shape",
                            "the UserDefined row is not `names equal else None; args = zip.map(unify)?` (name guard=%s, componentwise=%s, Some sites=%d)" % (guard_ok, comp_ok, len(somes)),
                            "%s:%d" % (FILE, S.line(a)))
            else:
                if somes:
                    res.bad("JOIN-ROWS", key + " # unexpected-some", "arm (%s, %s) of unify returns Some(..): no row of the subtype relation justifies a join there" % vs,
                            "%s:%d" % (FILE, S.line(a)))
                else:
                    res.ok("JOIN-ROWS", key + " => None")
    res.floor("JOIN-ROWS", "early-return rows of unify", n_rows, 4)

    # ---- FOLD
    fa = S.find_fn(sh, FILE, "unify_all")
    prm = fa["params"][0]["name"]
    st = fa["body"]["stmts"]
    acc = None
    ok_init = ok_loop = ok_ret = False
    for s in st:
        if s["k"] == "Let" and s["pat"]["k"] == "PIdent" and s["pat"]["mut"] and s["init"] is not None:
            if s["init"]["k"] == "Call" and is_path(s["init"]["f"], "Type::no_value"):
                acc = s["pat"]["name"]
                ok_init = True
        if s["k"] == "ExprStmt" and s["e"]["k"] == "For" and acc:
            fr = s["e"]
            if prm in S.idents_in(fr["iter"]) and not any(n["k"] == "MethodCall" and n["method"] in ("skip", "take", "rev", "filter", "step_by") for n in S.walk(fr["iter"])):
                elems = [q["name"] for q in fr["pat"]["elems"] if q["k"] == "PIdent"] if fr["pat"]["k"] == "PTuple" else []
                calls = [n for n in S.walk(fr["body"]) if n["k"] == "Call" and is_path(n["f"], "unify")]
                assigns = [n for n in S.walk(fr["body"]) if n["k"] == "Assign" and is_path(n["l"], acc)]
                if len(calls) == 1 and len(assigns) == 1:
                    ids0 = S.idents_in(calls[0]["args"][0])
                    ids1 = S.idents_in(calls[0]["args"][1])
                    if acc in ids0 and elems and elems[0] in ids1:
                        # the assigned value is the binding of the unify result
                        lets = [n for n in S.walk(fr["body"]) if n["k"] == "Let" and n["init"] is calls[0] or (n["k"] == "Let" and n.get("init") and n["init"].get("sp") == calls[0]["sp"])]
                        bound = dict(S.pat_bindings(lets[0]["pat"])) if lets else {}
                        # `match unify(..) { Some(x) => acc = x, None => return Err(..) }` and `if let Some(x) = unify(..)`
                        for n in S.walk(fr["body"]):
                            if n["k"] == "Match" and n["e"].get("sp") == calls[0]["sp"]:
                                for arm in n["arms"]:
                                    if S.pat_variant(arm["pat"]) == "Some":
                                        bound.update(S.pat_bindings(arm["pat"]))
                            if n["k"] == "LetCond" and (n.get("e") or {}).get("sp") == calls[0]["sp"]:
                                bound.update(S.pat_bindings(n["pat"]))
                        if is_path(assigns[0]["r"]) and assigns[0]["r"]["path"] in bound:
                            ok_loop = True
        if s["k"] == "ExprStmt" and not s["semi"]:
            e = s["e"]
            if e["k"] == "Call" and is_path(e["f"], "Ok") and is_path(e["args"][0], acc):
                ok_ret = True
    if ok_init and ok_loop and ok_ret:
        res.ok("FOLD", "unify_all: acc = Type::no_value(); for each element acc = unify(&acc, ty)?; Ok(acc)")
    else:
        res.bad("FOLD", "checks::type_checker::unify_all # shape",
                "unify_all is not the fold `acc = bottom; for each (ty, _): acc = unify(acc, ty) else Err; Ok(acc)` (init=%s, loop=%s, result=%s)" % (ok_init, ok_loop, ok_ret),
                "%s:%d" % (FILE, S.line(fa)))

    # ---- CALL-PRESENCE (MIR)
    P = ctx.P
    TC = "checks::type_checker::TypeCheckVisitor::<'_>::"
    U, UA = "checks::type_checker::unify", "checks::type_checker::unify_all"
    inf = P.require_fn(TC + "infer_expr_")
    E = P.edges()

    def arm_reaches(f, variant, targets):
        for kind, tgt, bi in E.get(f.path, []):
            if kind == "live":
                continue
            lab = D.arm_label(f, bi, enums={"Expression_"})
            if ("Expression_::" + variant) not in lab.split("/")[0:1] and ("Expression_::" + variant) not in lab:
                continue
            r = P.reachable([tgt], rta=False)
            if any(t in r for t in targets):
                return True
        return False
    need = {"ListLiteral": [UA], "DictLiteral": [UA], "If": [U, UA], "Try": [U, UA], "Match": [UA, U]}
    n_ok = 0
    for v, tg in sorted(need.items()):
        if arm_reaches(inf, v, tg):
            n_ok += 1
            res.ok("CALL-PRESENCE", "infer_expr_ arm Expression_::%s reaches %s" % (v, "/".join(t.split("::")[-1] for t in tg)))
        else:
            res.bad("CALL-PRESENCE", "checks::type_checker::infer_expr_ # %s" % v,
                    "type inference of %s no longer goes through unify/unify_all: the combined type is not computed by the join" % v, inf.loc())
    sites = sum(1 for p, f in P.funcs.items() for bi, t in f.calls() if M.callee_name(t) in (U, UA) and p not in (U, UA))
    res.floor("CALL-PRESENCE", "call sites of unify/unify_all outside themselves", sites, 7)
    fail_top(P if "P" in dir() else ctx.P, res)
    join_must_pass(ctx.P, res)
    res.extra["functions_analysed"] = 3
    # ---- JOIN-INPUT-COVER (MIR): the match rule joins the types of *all* arms: in check_match every iteration of
    # the loop over the cases records the arm's type in `case_tys` (no `continue` before the push), and the vector
    # that reaches unify_all is that one.
    from .. import loops as LP
    cm = None
    for pth, g in P.funcs.items():
        if pth.endswith("::check_match") and "type_checker" in pth and "{closure" not in pth:
            cm = g
    if cm is None:
        raise M.MissingAnchor("type_checker check_match")
    # the vector handed to unify_all (whatever it is called)
    vec_locals = set()
    for bi, t in cm.calls():
        if (M.callee_name(t) or "").endswith("unify_all") and t["args"]:
            r = cm.root_of(t["args"][0], through_named=False)
            for _ in range(4):
                if r[0] == "call" and r[2]["args"]:
                    r = cm.root_of(r[2]["args"][0], through_named=False)
                else:
                    break
            if r[0] == "place":
                vec_locals.add(r[1]["l"])
    pushes = []
    for bi, t in cm.calls():
        n = M.callee_name(t) or ""
        if n.endswith("::push") and t["args"]:
            r = cm.root_of(t["args"][0], through_named=False)
            if r[0] == "place" and r[1]["l"] in vec_locals:
                pushes.append(bi)
    res.floor("JOIN-INPUT-COVER", "case_tys.push sites in check_match", len(pushes), 1)
    best = None
    for h, body in LP.loops_of(cm).items():
        if pushes and all(pb in body for pb in pushes):
            if best is None or len(body) < len(best[1]):
                best = (h, body)
    if best is None:
        res.bad("JOIN-INPUT-COVER", "check_match # loop", "the pushes to case_tys are not inside one loop over the match cases", cm.loc())
    else:
        h, body = best
        backs = [b for b in body if h in cm.succ[b]]
        r = D.reach_from(cm, [h], avoid_blocks=pushes)
        # entering the header again without a push: walk from the header's in-body successors
        starts = [x for x in cm.succ[h] if x in body]
        r = set()
        for st in starts:
            r |= D.reach_from(cm, [st], avoid_blocks=pushes + [h])
        skipping = [b for b in backs if b in r and b != h]
        if skipping:
            res.bad("JOIN-INPUT-COVER", "check_match # arm-skipped",
                    "an iteration over the match cases can continue without recording the arm's type in case_tys: "
                    "that arm is left out of the join, so the inferred type of the match does not cover it",
                    cm.loc(cm.blocks[skipping[0]]["term"].get("span")))
        else:
            res.ok("JOIN-INPUT-COVER", "check_match: every case iteration pushes to case_tys before continuing (%d push site(s))" % len(pushes))
    res.explanation = (
        "Schema conformance of the join: each way `unify` can produce Some(X) is matched against the rows that C14's relation "
        "makes upper bounds (top; the other side of a bottom; either of two equal types; same-name user type with componentwise "
        "joins, valid because args are covariant); any other Some is rejected, as is a row returning the bottom side itself. "
        "unify_all must be the left fold from the bottom type. By induction every result is a supertype of every input and equal "
        "inputs return themselves. CALL-PRESENCE (MIR call graph) checks that the five combining constructs obtain their type "
        "through these functions. Hover output and how callers use the result are not decided.")
