"""C34 Only public definitions are visible through imports.

  GUARD-BEFORE-USE (run)   eval_namespace_access: every push_value is edge-dominated by the true edge of
                           exported_syms.contains(name); the false edge returns Err without pushing; every path from the
                           `values.get` hit to a return passes the test.
  GUARD-BEFORE-USE (check) infer_namespace_access: every path from the `values.get` hit passes the test and its false edge
                           pushes a Severity::Error diagnostic.
  IMPORT-FILTER            insert_imported_namespace (unqualified import): every insert into the importer's values is under the
                           test, directly or via a local Vec that is only filled under the test.
  EXPORT-BOOKKEEPING       load_toplevel_items_: Visibility::Public => exported_syms.insert, CurrentFile => remove, on every path
                           of the Fun arm; nobody else mutates exported_syms.
  FRAME-NAMESPACE          every call frame's namespace is that of the file defining the callee (FunInfo.pos / the test's name).
  CYCLE-GUARD              the recursive load is on the false edge of paths_seen.contains(path) and after paths_seen.insert(path).
"""
from .. import mir as M
from .. import dflow as D
from .. import evalloop as EL

NS = "namespaces::NamespaceInfo"


def returns(f):
    return [bi for bi in f.reachable_blocks() if f.blocks[bi]["term"]["t"] == "return"]


def get_hit_edge(f):
    """the Some edge of the switch on `values.get(..)`'s result."""
    out = []
    for bi, t in D.calls_named(f, "HashMap::<K, V, S, A>::get", "values"):
        dest = t["dest"]["l"]
        for sw in D.enum_switches(f):
            if sw["place"]["l"] == dest and not sw["place"]["p"]:
                for tgt, names in sw["by_target"].items():
                    if "Some" in names:
                        out.append((sw["bb"], tgt))
                if "Some" in sw["otherwise_variants"]:
                    out.append((sw["bb"], sw["otherwise"]))
    return out


def severity_error_push(f, region):
    """a Vec::push onto <x>.diagnostics inside region whose Diagnostic has severity Error."""
    for bi, t in D.calls_named(f, "Vec::<T, A>::push", "diagnostics", region=region):
        r = f.root_of(t["args"][1])
        if r[0] == "rv" and r[3]["rv"]["k"] == "agg" and r[3]["rv"].get("adt", "").endswith("Diagnostic"):
            rv = r[3]["rv"]
            for name, op in zip(rv.get("fields", []), rv["ops"]):
                if name == "severity":
                    rr = f.root_of(op)
                    if rr[0] == "rv" and rr[3]["rv"].get("variant") == "Error":
                        return bi
    return None


def run(ctx, res):
    P = ctx.P
    # ---------------- runtime guard
    f = P.require_fn("eval::eval_namespace_access")
    sws = D.call_switches(f, "::contains", "exported_syms")
    pushes = [bi for bi, t in f.calls() if (M.callee_name(t) or "").endswith("Env::push_value")]
    res.floor("GUARD-BEFORE-USE", "push_value sites in eval_namespace_access", len(pushes), 1)
    if len(sws) != 1:
        res.bad("GUARD-BEFORE-USE", "eval::eval_namespace_access # visibility-test",
                "expected exactly one `exported_syms.contains(name)` test, found %d" % len(sws), f.loc())
    else:
        sw = sws[0]
        dom = D.edge_dominated(f, sw["bb"], sw["true"])
        for pb in pushes:
            key = "eval::eval_namespace_access # push_value"
            if pb in dom:
                res.ok("GUARD-BEFORE-USE", key + " under exported_syms.contains == true")
            else:
                res.bad("GUARD-BEFORE-USE", key + " # unguarded",
                        "a namespace member is pushed as the result without passing the `exported_syms.contains` test (private items become reachable as ns::item)",
                        f.loc(f.blocks[pb]["term"]["span"]))
        fr = D.reach_from(f, [sw["false"]])
        def makes_exception(region):
            # built in place, or by a local helper that returns the EvalError (an `Err` is then built around it)
            if EL.builds_variant(f, region, "Exception") is not None:
                return True
            for b in region:
                t = f.blocks[b]["term"]
                n = M.callee_name(t) if t["t"] == "call" else None
                if n in P.funcs and P.funcs[n].locals[0]["ty"].endswith("EvalError") and \
                        EL.builds_variant(P.funcs[n], P.funcs[n].reachable_blocks(), "Exception") is not None and \
                        EL.builds_variant(f, region, "Err") is not None:
                    return True
            return False
        if any(pb in fr for pb in pushes) or not makes_exception(fr):
            res.bad("GUARD-BEFORE-USE", "eval::eval_namespace_access # false-edge",
                    "when the name is not exported the function does not return an exception before pushing a value", f.loc(sw["span"]))
        else:
            res.ok("GUARD-BEFORE-USE", "eval::eval_namespace_access: not-exported edge returns Err(Exception) without pushing")
        hits = get_hit_edge(f)
        res.floor("GUARD-BEFORE-USE", "values.get hit edges in eval_namespace_access", len(hits), 1)
        for (sb, tgt) in hits:
            r = D.reach_from(f, [tgt], avoid_blocks=[sw["bb"]])
            if any(b in r for b in returns(f)):
                res.bad("GUARD-BEFORE-USE", "eval::eval_namespace_access # bypass",
                        "after a successful `values.get(name)` a path returns without testing exported_syms", f.loc(sw["span"]))
            else:
                res.ok("GUARD-BEFORE-USE", "eval::eval_namespace_access: every path from the lookup hit passes the visibility test")
        res.sample({"rule": "GUARD-BEFORE-USE", "fn": f.path, "test_line": sw["span"]["line"], "push_sites": len(pushes)})

    # ---------------- check-time guard
    g = P.require_fn("checks::type_checker::TypeCheckVisitor::<'_>::infer_namespace_access")
    sws = D.call_switches(g, "::contains", "exported_syms")
    if len(sws) != 1:
        res.bad("GUARD-BEFORE-USE", g.path + " # visibility-test",
                "expected exactly one `exported_syms.contains(name)` test in the checker, found %d" % len(sws), g.loc())
    else:
        sw = sws[0]
        hits = get_hit_edge(g)
        res.floor("GUARD-BEFORE-USE", "values.get hit edges in infer_namespace_access", len(hits), 1)
        for (sb, tgt) in hits:
            r = D.reach_from(g, [tgt], avoid_blocks=[sw["bb"]])
            if any(b in r for b in returns(g)):
                res.bad("GUARD-BEFORE-USE", g.path + " # bypass",
                        "the checker can type `ns::item` without testing exported_syms", g.loc(sw["span"]))
            else:
                res.ok("GUARD-BEFORE-USE", "infer_namespace_access: every path from the lookup hit passes the visibility test")
        # false edge must push an Error diagnostic on every path: the push block must be unavoidable
        fdom = D.edge_dominated(g, sw["bb"], sw["false"])
        pb = severity_error_push(g, fdom)
        if pb is None:
            res.bad("GUARD-BEFORE-USE", g.path + " # no-error",
                    "using a non-exported item does not produce a Severity::Error diagnostic at check time", g.loc(sw["span"]))
        else:
            r = D.reach_from(g, [sw["false"]], avoid_blocks=[pb])
            if any(b in r for b in returns(g)):
                res.bad("GUARD-BEFORE-USE", g.path + " # error-skippable",
                        "on the not-exported edge some path returns without pushing the Error diagnostic", g.loc(sw["span"]))
            else:
                res.ok("GUARD-BEFORE-USE", "infer_namespace_access: not-exported edge always pushes a Severity::Error diagnostic")

    # ---------------- IMPORT-FILTER
    h = P.require_fn("eval::insert_imported_namespace")
    sws = D.call_switches(h, "::contains", "exported_syms")
    inserts = D.calls_named(h, "HashMap::<K, V, S, A>::insert", "values")
    # the unqualified branch: edge of the switch on the Option<&Symbol> parameter
    none_region = None
    for sw in D.enum_switches(h):
        if sw["place"]["l"] == 1:
            for tgt, names in sw["by_target"].items():
                if "None" in names:
                    none_region = D.edge_dominated(h, sw["bb"], tgt)
            if none_region is None and "None" in sw["otherwise_variants"]:
                none_region = D.edge_dominated(h, sw["bb"], sw["otherwise"])
    if none_region is None:
        res.bad("IMPORT-FILTER", h.path + " # no-unqualified-branch", "cannot find the branch for `import \"x\"` without `as`", h.loc())
    else:
        ins = [(bi, t) for bi, t in inserts if bi in none_region]
        res.floor("IMPORT-FILTER", "inserts into the importer's values (unqualified branch)", len(ins), 1)
        def filtered_collect(v):
            """local v is `<iter>.filter(|..| exported_syms.contains(..))[.map(..)].collect()`."""
            d = h.single_def(v)
            if d is None or d[1] != "term" or not (M.callee_name(d[2]) or "").endswith("::collect"):
                return False
            cur = d[2]
            for _ in range(6):
                if not cur["args"]:
                    return False
                r = h.root_of(cur["args"][0], through_named=True)
                if r[0] != "call":
                    return False
                cur = r[2]
                n = M.callee_name(cur) or ""
                if n.endswith("Iterator::filter") and len(cur["args"]) > 1:
                    cr = h.root_of(cur["args"][1], through_named=True)
                    cpath = None
                    if cr[0] == "rv" and cr[3]["rv"]["k"] == "agg" and cr[3]["rv"].get("ak") == "closure":
                        cpath = cr[3]["rv"]["def"]
                    elif cr[0] == "const" and "closure" in cr[1]:
                        cpath = cr[1]["closure"]
                    c = P.fn(cpath) if cpath else None
                    if c is None:
                        return False
                    cs = [(bi, t) for bi, t in D.calls_named(c, "::contains", None)]
                    cs = [(bi, t) for bi, t in cs if any("exported_syms" in str(c.field_path(c.root_of(a, through_named=True)[1]))
                                                       for a in t["args"][:1] if c.root_of(a, through_named=True)[0] == "place")]
                    # the closure's result is exactly the contains() result
                    return len(cs) == 1 and cs[0][1]["dest"]["l"] == 0 and not cs[0][1]["dest"]["p"]
                if not n.endswith(("Iterator::map", "Iterator::cloned", "Iterator::copied")):
                    return False
            return False

        if len(sws) != 1:
            # iterator form: the values inserted come from a Vec built by filter(exported_syms.contains).collect()
            ok_all = bool(ins)
            for bi, t in ins:
                src_vecs = set()
                for (head, a, body) in D.natural_loops(h):
                    if bi not in body:
                        continue
                    for lb in body:
                        tt = h.blocks[lb]["term"]
                        if tt["t"] == "call" and (M.callee_name(tt) or "").endswith("::next"):
                            it = h.root_of(tt["args"][0], through_named=True)
                            if it[0] == "call" and (M.callee_name(it[2]) or "").endswith("into_iter"):
                                v = h.root_of(it[2]["args"][0])
                                if v[0] == "place" and not v[1]["p"]:
                                    src_vecs.add(v[1]["l"])
                if not src_vecs or not all(filtered_collect(v) for v in src_vecs):
                    ok_all = False
            if ok_all and len(sws) == 0:
                res.ok("IMPORT-FILTER", h.path + " # insert from a Vec collected through filter(exported_syms.contains)")
            else:
                res.bad("IMPORT-FILTER", h.path + " # visibility-test", "expected one exported_syms.contains test, found %d" % len(sws), h.loc())
        else:
            sw = sws[0]
            dom = D.edge_dominated(h, sw["bb"], sw["true"])
            for bi, t in ins:
                key = h.path + " # insert"
                if bi in dom:
                    res.ok("IMPORT-FILTER", key + " directly under the visibility test")
                    continue
                # via a local Vec filled only under the test: the inserted key comes from iterating that Vec
                ok = False
                kr = h.root_of(t["args"][1], through_named=True)
                src_vecs = set()
                # find loops containing the insert and the Vec they iterate
                for (head, a, body) in D.natural_loops(h):
                    if bi not in body:
                        continue
                    for lb in body:
                        tt = h.blocks[lb]["term"]
                        if tt["t"] == "call" and (M.callee_name(tt) or "").endswith("::next"):
                            it = h.root_of(tt["args"][0], through_named=True)
                            if it[0] == "call" and (M.callee_name(it[2]) or "").endswith("into_iter"):
                                v = h.root_of(it[2]["args"][0])
                                if v[0] == "place" and not v[1]["p"]:
                                    src_vecs.add(v[1]["l"])
                for v in src_vecs:
                    vp = [pb for pb, pt in h.calls() if (M.callee_name(pt) or "").endswith("Vec::<T, A>::push")
                          and h.root_of(pt["args"][0])[0] == "place" and h.root_of(pt["args"][0])[1]["l"] == v]
                    d = h.single_def(v)
                    fresh = d is not None and d[1] == "term" and (M.callee_name(d[2]) or "").endswith("Vec::<T>::new")
                    if vp and fresh and all(pb in dom for pb in vp):
                        ok = True
                if ok:
                    res.ok("IMPORT-FILTER", key + " from a local Vec that is only filled under the visibility test")
                else:
                    res.bad("IMPORT-FILTER", key + " # unfiltered",
                            "an unqualified import copies a value into the importing namespace without the `exported_syms.contains` test",
                            h.loc(t["span"]))

    # ---------------- EXPORT-BOOKKEEPING
    L = P.require_fn("eval::load_toplevel_items_")
    vis = [sw for sw in D.enum_switches(L) if sw["ety"].endswith("parser::ast::Visibility")]
    muts = []
    for fn in P.funcs.values():
        for bi, t in fn.calls():
            n = M.callee_name(t) or ""
            if t.get("argtys") and t["argtys"][0].startswith("&mut std::collections::HashSet") and t["args"]:
                a = fn.root_of(t["args"][0], through_named=True)
                if a[0] == "place" and fn.field_path(a[1])[-1:] == ["exported_syms"]:
                    muts.append((fn.path, bi, n.split("::")[-1], t))
    for (p, bi, n, t) in muts:
        if p != L.path:
            res.bad("EXPORT-BOOKKEEPING", "%s # mutates exported_syms" % p,
                    "exported_syms is mutated (%s) outside load_toplevel_items_" % n, P.funcs[p].loc(t["span"]))
    if len(vis) != 1:
        res.bad("EXPORT-BOOKKEEPING", L.path + " # visibility-switch", "expected one match on Visibility, found %d" % len(vis), L.loc())
    else:
        sw = vis[0]
        edges = {}
        for tgt, names in sw["by_target"].items():
            for n in names:
                edges[n] = tgt
        for n in sw["otherwise_variants"]:
            edges[n] = sw["otherwise"]
        want = {"Public": "insert", "CurrentFile": "remove"}
        for variant, op in want.items():
            if variant not in edges:
                res.bad("EXPORT-BOOKKEEPING", L.path + " # " + variant, "no arm for Visibility::%s" % variant, L.loc())
                continue
            dom = D.edge_dominated(L, sw["bb"], edges[variant])
            ops = [n for (p, bi, n, t) in muts if p == L.path and bi in dom]
            if ops == [op]:
                res.ok("EXPORT-BOOKKEEPING", "Visibility::%s => exported_syms.%s" % (variant, op))
            else:
                res.bad("EXPORT-BOOKKEEPING", L.path + " # %s => %s" % (variant, ops),
                        "Visibility::%s must do exactly exported_syms.%s (found %s)" % (variant, op, ops), L.loc(f.blocks[0]["term"].get("span")))
        # every definition placed in values (in the Fun arm) reaches the visibility switch
        vins = [bi for bi, t in D.calls_named(L, "HashMap::<K, V, S, A>::insert", "values")]
        n_ok = 0
        for bi in vins:
            arm = D.arm_label(L, bi, enums={"ToplevelItem"})
            if "Fun" not in arm:
                continue
            # from here, every path to a loop head/return passes the visibility switch
            heads = [hd for (hd, a, body) in D.natural_loops(L) if bi in body]
            stops = set(heads) | set(returns(L))
            r = D.reach_from(L, [L.blocks[bi]["term"]["target"]], avoid_blocks=[sw["bb"]])
            if r & stops:
                res.bad("EXPORT-BOOKKEEPING", L.path + " # definition-without-visibility",
                        "a function is stored in the namespace and the item loop continues without recording its visibility",
                        L.loc(L.blocks[bi]["term"]["span"]))
            else:
                n_ok += 1
                res.ok("EXPORT-BOOKKEEPING", "values.insert in %s is always followed by the Visibility match" % arm)
        res.floor("EXPORT-BOOKKEEPING", "function definitions stored under ToplevelItem::Fun", n_ok, 1)

    # ---------------- CYCLE-GUARD
    rec = [(bi, t) for bi, t in L.calls() if M.callee_name(t) == L.path]
    res.floor("CYCLE-GUARD", "recursive load_toplevel_items_ calls", len(rec), 1)
    seen_sw = D.call_switches(L, "::contains", None)
    def is_seen_set(op):
        # the set of paths already being loaded: the HashSet<PathBuf> parameter of the loader
        r = L.root_of(op, through_named=True)
        return r[0] == "place" and r[1]["l"] <= L.argc and "HashSet<std::path::PathBuf" in L.local_ty(r[1]["l"])
    seen_sw = [s for s in seen_sw if is_seen_set(s["call"]["args"][0])]
    seen_ins = [bi for bi, t in L.calls() if (M.callee_name(t) or "").endswith("HashSet::<T, S, A>::insert")
                and is_seen_set(t["args"][0])]
    for bi, t in rec:
        ok = False
        for s in seen_sw:
            if bi in D.edge_dominated(L, s["bb"], s["false"]) and any(L.dominates(ib, bi) and ib in D.edge_dominated(L, s["bb"], s["false"]) for ib in seen_ins):
                # same path is tested and inserted
                a = L.root_of(s["call"]["args"][1], through_named=False)
                ok = True
        if ok:
            res.ok("CYCLE-GUARD", "recursive load is on the not-yet-seen edge, after paths_seen.insert")
            res.sample({"rule": "CYCLE-GUARD", "line": t["span"]["line"]})
        else:
            res.bad("CYCLE-GUARD", L.path + " # recursion",
                    "the recursive import load is not guarded by `paths_seen.contains(path)` false-edge + `paths_seen.insert(path)` (cyclic imports would loop)",
                    L.loc(t["span"]))
    # ---------------- IMPORT-BINDS: an import of a file that was already loaded (a second importer in a diamond, or a cycle) still
    # has to make that file's public definitions visible: on the already-seen edge, whenever the namespace exists, every
    # path goes through insert_imported_namespace (the filter that copies exported names only)
    inserts = [bi for bi, t in L.calls() if (M.callee_name(t) or "").endswith("insert_imported_namespace")]
    res.floor("IMPORT-BINDS", "insert_imported_namespace calls in the loader", len(inserts), 2)
    for s_ in seen_sw:
        treg = D.edge_dominated(L, s_["bb"], s_["true"]) if s_["true"] is not None else set()
        gets = [(bi, t) for bi, t in L.calls() if bi in treg and (M.callee_name(t) or "").endswith("Env::get_namespace")]
        for gb, gt in gets:
            some = None
            for esw in D.enum_switches(L):
                if esw["place"]["l"] == gt["dest"]["l"] and not esw["place"]["p"]:
                    for tgt, names in esw["by_target"].items():
                        if "Some" in names:
                            some = tgt
                    if some is None and "Some" in esw["otherwise_variants"]:
                        some = esw["otherwise"]
            if some is None:
                res.bad("IMPORT-BINDS", L.path + " # seen-edge # no Some edge", "cannot find the `Some(namespace)` edge of get_namespace on the already-seen path", L.loc(gt.get("span")))
                continue
            leave = {x for b in treg for x in L.succ[b] if x not in treg}
            esc = D.reach_from(L, [some], avoid_blocks=inserts) & leave
            if esc:
                res.bad("IMPORT-BINDS", L.path + " # seen-edge # bypass",
                        "an import of a file that is already loaded can skip insert_imported_namespace although the namespace exists: with two importers of one file "
                        "(a diamond) the second importer does not get the file's public definitions", L.loc(gt.get("span")))
            else:
                res.ok("IMPORT-BINDS", "already-seen import: every path from Some(namespace) passes insert_imported_namespace")
    # ---------------- FRAME-NAMESPACE: the body of a function, method, closure or test resolves bare names in the namespace
    # of the file that *defines* it. Every call frame's `namespace` is get_or_create_namespace(<path>) with <path> taken from
    # the callee's own definition (FunInfo.pos, or the test's name symbol), never from a position of the call site: otherwise a
    # library method called from another file sees that file's private definitions and loses its own.
    n_frames = 0
    for p_, g in sorted(P.funcs.items()):
        if not p_.startswith("eval::"):
            continue
        for b_ in g.blocks:
            for st in b_["stmts"]:
                if st.get("s") != "assign" or st["rv"]["k"] != "agg" or st["rv"].get("adt") != "env::StackFrame":
                    continue
                rv = st["rv"]
                n_frames += 1
                r = g.root_of(rv["ops"][rv["fields"].index("namespace")], through_named=True)
                chain = []
                for _ in range(8):
                    if r[0] != "call":
                        break
                    chain.append((M.callee_name(r[2]) or "?").split("::")[-1])
                    if not r[2]["args"]:
                        break
                    a_ = r[2]["args"][-1] if chain[-1] == "get_or_create_namespace" else r[2]["args"][0]
                    r = g.root_of(a_, through_named=True)
                fields = [(e.get("name"), e.get("adt")) for e in r[1]["p"] if isinstance(e, dict) and "name" in e] if r[0] == "place" else []
                key = "%s # frame namespace" % p_
                from_def = ("pos", "parser::ast::FunInfo") in fields or ("name_sym", "parser::ast::TestInfo") in fields
                if "get_or_create_namespace" in chain and from_def:
                    res.ok("FRAME-NAMESPACE", key + ": namespace of the defining file (%s)" % ".".join(n for n, _ in fields if n))
                else:
                    res.bad("FRAME-NAMESPACE", key + " # not from the definition",
                            "%s builds a call frame whose namespace does not come from the callee's own definition (%s): the callee's body would resolve "
                            "names in another file's namespace, reaching that file's private definitions and missing its own" % (
                                p_, ".".join(n for n, _ in fields if n) or "/".join(chain) or r[0]), g.loc(st["span"]))
    res.floor("FRAME-NAMESPACE", "call frames built by the evaluator", n_frames, 4)
    # ---------------- SEEN-ONLY-WHEN-LOADING: a path is marked as seen only on the way to loading it (on the not-yet-seen
    # edge of the test of that very path). A path marked earlier -- the entry file before its own items are loaded, say --
    # makes a cyclic import take the "already loaded" branch while the namespace is still empty, and an unqualified import
    # then copies nothing.
    for ib in seen_ins:
        t = L.blocks[ib]["term"]
        guarded = False
        for s_ in seen_sw:
            if s_["false"] is not None and ib in D.edge_dominated(L, s_["bb"], s_["false"]):
                k1 = L.root_of(s_["call"]["args"][1], through_named=True)
                k2 = L.root_of(t["args"][1], through_named=True)
                for _ in range(3):
                    if k2[0] == "call" and (M.callee_name(k2[2]) or "").endswith(("::clone", "::to_owned", "::to_path_buf")) and k2[2]["args"]:
                        k2 = L.root_of(k2[2]["args"][0], through_named=True)
                if k1[0] == "place" and k2[0] == "place" and k1[1]["l"] == k2[1]["l"]:
                    guarded = True
        if guarded:
            res.ok("CYCLE-GUARD", "paths_seen.insert(path) only on the not-yet-seen edge of the test of the same path")
        else:
            res.bad("CYCLE-GUARD", L.path + " # marks-unloaded-path-seen",
                    "a path is added to paths_seen without being the import that is about to be loaded: a file that imports it back takes the "
                    "already-loaded branch while its namespace is still empty, so its public definitions are not visible there", L.loc(t["span"]))
    # ---------------- CYCLE-KEY-NORMAL: the key tested in paths_seen must be a canonical path, otherwise a
    # cycle through `..` or `.` gets a fresh identity on every round and the loader recurses without bound.
    def leaf_calls(f, op, depth=0, seen=None):
        """calls that produce the value of operand op, looking through moves, clones, refs and multi-def joins."""
        seen = seen if seen is not None else set()
        out = []
        r = f.root_of(op, through_named=True)
        if r[0] == "call":
            n = M.callee_name(r[2]) or ""
            if n.endswith(("::clone", "::to_owned", "::to_path_buf", "::as_ref", "::deref", "::borrow")) and r[2]["args"] and depth < 8:
                inner = leaf_calls(f, r[2]["args"][0], depth + 1, seen)
                return inner if inner else [r[2]]
            return [r[2]]
        if r[0] == "place":
            l = r[1]["l"]
            if l in seen or depth > 8 or l <= f.argc:
                return [("arg-or-field", M.place_key(r[1]))] if l <= f.argc else []
            seen.add(l)
            for d in f.defs.get(l, []):
                if d[1] == "term":
                    out += leaf_calls(f, {"copy": {"l": l, "p": []}}, depth + 1, set()) if False else [d[2]]
                else:
                    rv = d[2]["rv"]
                    if rv["k"] == "use":
                        out += leaf_calls(f, rv["a"], depth + 1, seen)
                    elif rv["k"] == "ref":
                        out += leaf_calls(f, {"copy": rv["place"]}, depth + 1, seen)
            return out
        return out
    keys = []
    for sw_ in seen_sw:
        keys.append(sw_["call"]["args"][1])
    res.floor("CYCLE-KEY-NORMAL", "paths_seen.contains tests", len(keys), 1)
    for k in keys:
        leaves = leaf_calls(L, k)
        names = []
        bad_leaf = []
        for c in leaves:
            if isinstance(c, tuple):
                names.append(c[0] + ":" + c[1]); continue
            n = M.callee_name(c) or "?"
            short = n.split("::")[-1]
            names.append(short)
            if n.endswith("NormalizePath::normalize") or short == "normalize":
                continue
            if short == "join":
                # working_directory.join(<normalised relative path>)
                inner = leaf_calls(L, c["args"][1]) if len(c["args"]) > 1 else []
                if inner and all((not isinstance(i, tuple)) and (M.callee_name(i) or "").endswith("normalize") for i in inner):
                    continue
                bad_leaf.append("join(.., <not normalised>)")
                continue
            if short in ("to_owned", "clone", "to_path_buf"):
                # the built-in `__*.gdn` names are used verbatim: must be under the starts_with("__") test
                bi = [b for b, t in L.calls() if t is c]
                guarded = False
                for s2 in D.call_switches(L, "::starts_with", None):
                    if bi and s2["true"] is not None and bi[0] in D.edge_dominated(L, s2["bb"], s2["true"]):
                        guarded = True
                if guarded:
                    continue
                bad_leaf.append(short + " outside the `__` built-in branch")
                continue
            bad_leaf.append(short)
        if leaves and not bad_leaf:
            res.ok("CYCLE-KEY-NORMAL", "cycle key derives from %s" % sorted(set(names)))
        else:
            res.bad("CYCLE-KEY-NORMAL", L.path + " # cycle-key # %s" % sorted(set(bad_leaf or ["no-provenance"])),
                    "the path tested in `paths_seen` is not canonical (derives from %s): a cyclic import through `..`/`.` "
                    "gets a new identity each round and loading never terminates" % sorted(set(names)), L.loc())
    res.extra["functions_analysed"] = 5
    res.explanation = (
        "Visibility of imported definitions, decided on MIR CFGs: the two places that hand out a member of an imported namespace "
        "(run time: eval_namespace_access; check time: infer_namespace_access) are shown to pass the exported_syms test on every "
        "path from the lookup hit, with the value push edge-dominated by the test's true edge and the false edge raising the "
        "error; unqualified imports copy only tested members; exported_syms is maintained only by load_toplevel_items_ with "
        "Public=>insert / CurrentFile=>remove on every path that stores a definition; the recursive load is behind the "
        "paths_seen test, whose key is shown to come from normalize() (CYCLE-KEY-NORMAL), so cyclic imports terminate. Re-exports through chains and type visibility are not decided.")
