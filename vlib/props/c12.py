"""C12 Printed values read back as equal values (lexical clauses).

  ESCAPE-TABLE  values::escape_string_literal (char -> escape text) and parser::unescape_string (escape -> char) are
                inverse row by row; `"` and `\\` are escaped; every escape is backslash + one character.
  STRING-TOKEN  (E3, exact) let E be the regular language escape_string_literal produces (built from the extracted
                table). For every s in E and every continuation, the leftmost-first match of STRING_RE starting at s
                ends exactly at |s|: decided on the product of E's DFA with STRING_RE's DFA (same engine family as the
                `regex` crate), with a witness string when it fails.
  FLOAT-TEXT / INT-TEXT  the text printed for finite floats (`{}` plus `.0` when there is no `.`) and for ints is inside
                FLOAT_RE / INTEGER_RE as a whole token (DFA inclusion), and the float arm appends `.0`.
  TUPLE-SINGLETON / PRINT-ORDER (MIR) a one-element tuple prints with its trailing comma; List, Tuple and Struct arms of
                Value::display print in stored order (no sort / reverse), because equality compares them positionally.
  UNIT-MIX      (MIR dataflow, vlib/units.py) in the parser and the value printer no index into a sequence of chars derives
                from a byte offset (str::find, len, Match::end) and no str slice bound derives from a count of characters:
                the reader would otherwise decode a different string as soon as a multi-byte character precedes an escape.
  REGEX-COMPILE every lexer regex constant compiles (so the `.unwrap()` in lazy_static cannot fire).
Compound values, structs, dict ordering and parse -> equal value are not decided.
"""
import os, re, subprocess
from .. import shape as S
from .. import mir as M
from ..core import VERIF

VAL = "src/values.rs"
PAR = "src/parser.rs"
LEX = "src/parser/lex.rs"


def grex(queries):
    exe = os.path.join(VERIF, "tools", "grex", "target", "release", "grex")
    if not os.path.exists(exe):
        raise SystemExit("grex not built (run ./setup.sh)")
    inp = "\n".join("\t".join(q) for q in queries) + "\n"
    r = subprocess.run([exe], input=inp, capture_output=True, text=True)
    lines = r.stdout.strip("\n").split("\n")
    if len(lines) != len(queries):
        raise SystemExit("grex returned %d lines for %d queries: %s" % (len(lines), len(queries), r.stderr))
    return lines


def lexer_regexes(sh):
    out = {}
    for n in S.walk(S.file_items(sh, LEX)):
        if n["k"] == "Macro" and n.get("statics"):
            for st in n["statics"]:
                lits = [x["v"] for x in S.walk(st["init"]) if x["k"] == "LitStr"]
                if lits:
                    out[st["name"]] = lits[0]
    return out


def rx_escape(ch):
    return re.escape(ch).replace("\n", "\\n").replace("\t", "\\t")



def print_context_free(P, res, rule="PRINT-CONTEXT-FREE"):
    """what a display arm writes around a child must not depend on the child's *printed text*: a branch on
    `child_text.starts_with(..)` / `ends_with` / `contains` / `== ".."` makes two different values print alike
    (`Some((1, 2))` and a two-argument variant), so the text no longer reads back as the value."""
    from .. import dflow as D
    fns = [(q, c) for q, c in P.funcs.items() if q.startswith("values::") and ("display" in q.split("::")[-1] or "display" in q)]
    n = 0
    PRED = ("::starts_with", "::ends_with", "::contains", "::find", "::rfind", "PartialEq for str>::eq", "PartialEq<str> for std::string::String>::eq",
            "::strip_prefix", "::strip_suffix", "::is_empty", "::len")
    for q, g in sorted(fns):
        shown = set()      # locals holding the printed text of a child
        for bi, t in g.calls():
            nm = M.callee_name(t) or ""
            if nm.startswith("values::") and "display" in nm.split("::")[-1] and "String" in g.local_ty(t["dest"]["l"]):
                shown.add(t["dest"]["l"])
        if not shown:
            continue
        n += 1
        for sw in D.bool_switches(g):
            r = sw["root"]
            if r[0] != "call" or not (M.callee_name(r[2]) or "").endswith(PRED) or not r[2]["args"]:
                continue
            rr = g.root_of(r[2]["args"][0], through_named=True)
            for _ in range(3):
                if rr[0] == "call" and (M.callee_name(rr[2]) or "").endswith(("::deref", "::as_str", "::as_ref", "::borrow")) and rr[2]["args"]:
                    rr = g.root_of(rr[2]["args"][0], through_named=True)
            src = rr[2]["dest"]["l"] if rr[0] == "call" else (rr[1]["l"] if rr[0] == "place" else None)
            if src in shown:
                res.bad(rule, "%s # branches on a child's printed text # %s" % (q, (M.callee_name(r[2]) or "").split("::")[-1]),
                        "%s decides what to write by testing the printed text of a child value (%s): different values get the same text and the output no longer "
                        "reads back as the value" % (q, (M.callee_name(r[2]) or "").split("::")[-1]), g.loc(r[2].get("span")))
    res.floor(rule, "display functions that print children", n, 1)
    res.ok(rule, "%d display function(s): no branch on the printed text of a child" % n)


def print_shape(P, res):
    """TUPLE-SINGLETON and PRINT-ORDER (MIR, values::Value::display):
    a one-element tuple is printed with a trailing comma (`(1,)`; without it the reader sees a parenthesised expression), and
    the arms of the ordered containers (List, Tuple, Struct fields) print their elements in stored order: `==` compares
    struct fields positionally, so a re-ordered print reads back as a different value."""
    from .. import dflow as D
    f = P.funcs.get("values::Value::display")
    if f is None:
        raise M.MissingAnchor("values::Value::display not found")
    arms = {}
    for sw in D.enum_switches(f):
        if D.short_ty(sw["ety"]) == "Value_":
            for tgt, names in sw["by_target"].items():
                for nm in names:
                    arms[nm] = D.edge_dominated(f, sw["bb"], tgt)
    for need in ("List", "Tuple", "Struct"):
        if need not in arms:
            raise M.MissingAnchor("Value::display has no arm for Value_::%s" % need)
    group = [f] + [c for q, c in P.funcs.items() if q.startswith("values::Value::display::{closure")]
    # TUPLE-SINGLETON
    ok = False
    for sw in D.bool_switches(f):
        r = sw["root"]
        if sw["bb"] not in arms["Tuple"] or r[0] != "rv" or r[3]["rv"]["k"] != "binop" or r[3]["rv"]["op"] not in ("Eq", "Ne"):
            continue
        consts = [M.op_const(r[3]["rv"][k_]) for k_ in ("a", "b")]
        if not any(c is not None and c.get("v") == 1 for c in consts):
            continue
        edge = sw["true"] if r[3]["rv"]["op"] == "Eq" else sw["false"]
        if edge is None:
            continue
        region = D.edge_dominated(f, sw["bb"], edge)
        for bi, t in f.calls():
            if bi in region and (M.callee_name(t) or "").endswith(("String::push", "String::push_str")) and len(t["args"]) == 2:
                c = f.root_of(t["args"][1])
                if c[0] == "const" and (c[1].get("v") == 44 or "," in str(c[1].get("s", ""))):
                    ok = True
    if ok:
        res.ok("TUPLE-SINGLETON", "Value::display: a tuple of length 1 gets a trailing comma")
    else:
        res.bad("TUPLE-SINGLETON", "values::Value::display # Tuple # no trailing comma",
                "the Tuple arm of Value::display does not add a comma when the tuple has exactly one element: `(1,)` prints as `(1)`, which reads back as the "
                "bare element", f.loc())
    # PRINT-ORDER
    REORDER = ("::sort", "::sort_by", "::sort_by_key", "::sort_unstable", "::sort_unstable_by", "::sort_unstable_by_key", "::reverse",
               "Iterator::rev", "::sorted", "::dedup", "::swap", "::rotate_left", "::rotate_right")
    for v in ("List", "Tuple", "Struct"):
        bad = [(bi, M.callee_name(t)) for bi, t in f.calls() if bi in arms[v] and (M.callee_name(t) or "").endswith(REORDER)]
        if bad:
            res.bad("PRINT-ORDER", "values::Value::display # %s # reorders" % v,
                    "the %s arm of Value::display re-orders what it prints (%s): equality compares %s positionally, so the printed text reads back as a "
                    "different value" % (v, bad[0][1].split("::")[-1], "struct fields" if v == "Struct" else "elements"), f.loc(f.blocks[bad[0][0]]["term"].get("span")))
        else:
            res.ok("PRINT-ORDER", "Value::display: the %s arm prints in stored order" % v)


def number_tokens_parse(sh, res, rule="NUMBER-PARSE"):
    """shared with C01: the `.parse().unwrap()` of parse_float / parse_integer is safe only for ASCII number tokens."""
    rxs = lexer_regexes(sh)
    for need in ("FLOAT_RE", "INTEGER_RE"):
        if need not in rxs:
            raise M.MissingAnchor("lexer regex %s not found in lazy_static!" % need)
    # NUMBER-TOKENS-PARSE: everything the lexer calls a number is something std's parser accepts once `_` is removed:
    # L(FLOAT_RE) and L(INTEGER_RE) are inside the ASCII grammars `-?[0-9][0-9_]*.[0-9][0-9_]*` / `-?[0-9][0-9_]*`.
    # (`\d` instead of `[0-9]` lets Unicode digits through, and `"٣.٥".parse::<f64>().unwrap()` panics in parse_float.)
    def strip_anchor(r_):
        return r_[1:] if r_.startswith("^") else r_
    rev = grex([("include", strip_anchor(rxs["FLOAT_RE"]), r"^-?[0-9][0-9_]*\.[0-9][0-9_]*"),
                ("include", strip_anchor(rxs["INTEGER_RE"]), r"^-?[0-9][0-9_]*")])
    for nm_, line_ in zip(("FLOAT_RE", "INTEGER_RE"), rev):
        if line_.startswith("ok"):
            res.ok(rule, "every %s token is an ASCII number that std's parser accepts after `_` is removed (%s)" % (nm_, line_[3:]))
        else:
            res.bad(rule, "parser::lex::%s # token outside the parsable grammar" % nm_,
                    "%s matches text that is not an ASCII number (%s): the parser's `.parse().unwrap()` on such a token panics" % (nm_, line_[5:]), LEX)


def run(ctx, res):
    print_shape(ctx.P, res)
    print_context_free(ctx.P, res)
    from .. import units as U
    U.check(ctx.P, res, "UNIT-MIX", ("parser::", "values::"), 10)
    sh = ctx.shape
    # ---- tables
    esc = S.find_fn(sh, VAL, "escape_string_literal")
    esc_rows = {}
    default_passthrough = False
    for m in S.matches_in(esc["body"]):
        for a in m["arms"]:
            p = a["pat"]
            outs = [n["v"] for n in S.walk(a["body"]) if n["k"] == "LitStr"]
            if p["k"] == "PLit" and p["lit"]["k"] == "LitChar" and len(outs) == 1:
                esc_rows[p["lit"]["v"]] = outs[0]
            elif p["k"] == "PWild" or p["k"] == "PIdent":
                default_passthrough = any(n["k"] == "MethodCall" and n["method"] == "push" for n in S.walk(a["body"]))
    une = S.find_fn(sh, PAR, "unescape_string")
    une_rows = {}
    for m in S.matches_in(une["body"]):
        for a in m["arms"]:
            p = a["pat"]
            if S.pat_variant(p) == "Some" and p["k"] == "PTupleStruct" and p["elems"] and p["elems"][0]["k"] == "PLit":
                e = p["elems"][0]["lit"]["v"]
                outs = [n["v"] for n in S.walk(a["body"]) if n["k"] == "LitChar"]
                if len(outs) == 1:
                    une_rows[e] = outs[0]
    res.floor("ESCAPE-TABLE", "rows of escape_string_literal", len(esc_rows), 3)
    res.floor("ESCAPE-TABLE", "rows of unescape_string", len(une_rows), 4)
    if not default_passthrough:
        res.bad("ESCAPE-TABLE", "values::escape_string_literal # default", "no pass-through arm for ordinary characters", VAL)
    for must in ('"', "\\"):
        if must in esc_rows:
            res.ok("ESCAPE-TABLE", "escape covers %r" % must)
        else:
            res.bad("ESCAPE-TABLE", "values::escape_string_literal # missing %r" % must,
                    "escape_string_literal does not escape %r: the printed literal cannot be read back" % must, "%s:%d" % (VAL, S.line(esc)))
    for c, text in sorted(esc_rows.items()):
        key = "escape %r -> %r" % (c, text)
        if len(text) != 2 or text[0] != "\\":
            res.bad("ESCAPE-TABLE", key + " # shape", "escape text %r is not a backslash followed by one character" % text, "%s:%d" % (VAL, S.line(esc)))
            continue
        back = une_rows.get(text[1])
        if back == c:
            res.ok("ESCAPE-TABLE", key + " ; unescape \\%s -> %r" % (text[1], back))
            res.sample({"rule": "ESCAPE-TABLE", "char": c, "escape": text, "unescape": back})
        else:
            res.bad("ESCAPE-TABLE", key + " # not-inverse",
                    "escape_string_literal writes %r for %r but unescape_string maps \\%s to %r" % (text, c, text[1], back),
                    "%s:%d" % (PAR, S.line(une)))
    # two different chars must not share an escape
    inv = {}
    for c, t in esc_rows.items():
        if t in inv:
            res.bad("ESCAPE-TABLE", "escape collision %r" % t, "%r and %r are both printed as %r" % (inv[t], c, t), VAL)
        inv[t] = c

    # ---- regexes
    rxs = lexer_regexes(sh)
    for need in ("STRING_RE", "FLOAT_RE", "INTEGER_RE", "SYMBOL_RE"):
        if need not in rxs:
            raise M.MissingAnchor("lexer regex %s not found in lazy_static!" % need)
    dom = "".join(sorted(esc_rows))
    cls = "[^" + "".join(rx_escape(c) for c in dom) + "]"
    alts = [rx_escape(t) for t in sorted(esc_rows.values())] + [cls]
    E = '"(?:' + "|".join(alts) + ')*"'
    P_float = r"-?[0-9]+\.[0-9]+"
    P_int = r"-?[0-9]+"
    qs = [("compile", rxs[n]) for n in sorted(rxs)]
    qs += [("token", E, rxs["STRING_RE"]), ("include", P_float, rxs["FLOAT_RE"]), ("include", P_int, rxs["INTEGER_RE"])]
    out = grex(qs)
    names = sorted(rxs)
    for n, line in zip(names, out[:len(names)]):
        if line.startswith("ok"):
            res.ok("REGEX-COMPILE", "%s = %s" % (n, rxs[n]))
        else:
            res.bad("REGEX-COMPILE", "parser::lex::%s # does-not-compile" % n, "lexer regex %s does not compile: %s (the lazy_static unwrap panics on first use)" % (n, line), LEX)
    number_tokens_parse(sh, res)
    tok, fl, it = out[len(names):]
    if tok.startswith("ok"):
        res.ok("STRING-TOKEN", "every printed string literal is exactly one STRING_RE token (%s)" % tok[3:])
        res.sample({"rule": "STRING-TOKEN", "E": E, "STRING_RE": rxs["STRING_RE"], "result": tok})
    else:
        res.bad("STRING-TOKEN", "parser::lex::STRING_RE # token-boundary",
                "a string literal printed by escape_string_literal is not read back as one token by STRING_RE: %s" % tok[5:], LEX,
                {"E": E, "STRING_RE": rxs["STRING_RE"]})
    if fl.startswith("ok"):
        res.ok("FLOAT-TEXT", "printed finite floats (-?digits.digits) are whole FLOAT_RE tokens (%s)" % fl[3:])
    else:
        res.bad("FLOAT-TEXT", "parser::lex::FLOAT_RE # inclusion", "a printed float is not lexed as one float token: %s" % fl[5:], LEX)
    if it.startswith("ok"):
        res.ok("INT-TEXT", "printed ints (-?digits) are whole INTEGER_RE tokens (%s)" % it[3:])
    else:
        res.bad("INT-TEXT", "parser::lex::INTEGER_RE # inclusion", "a printed int is not lexed as one integer token: %s" % it[5:], LEX)
    # the float arm appends .0 when there is no '.'
    disp = None
    for n in S.walk(S.file_items(sh, VAL)):
        if n["k"] == "Arm" and S.pat_variant(n["pat"]) == "Float":
            body = n["body"]
            strs = [x["v"] for x in S.walk(body) if x["k"] == "LitStr"]
            if ".0" in strs and "." in strs and any(x["k"] == "MethodCall" and x["method"] == "contains" for x in S.walk(body)):
                disp = n
    if disp is not None:
        res.ok("FLOAT-TEXT", "Value::display: Float arm appends `.0` when the text has no `.`")
    else:
        res.bad("FLOAT-TEXT", "values::Value::display # Float arm", "the Float display arm no longer guarantees a `.` in the printed text (1.0 would print as 1 and read back as an Int)", VAL)
    # float is tried before int in the lexer
    lb = S.find_fn(sh, LEX, "lex_between")
    order = []
    for n in S.walk(lb["body"]):
        if n["k"] == "MethodCall" and n["method"] == "find" and n["recv"]["k"] == "Path" and n["recv"]["path"] in rxs:
            order.append((S.line(n), n["recv"]["path"]))
    order = [x[1] for x in sorted(order)]
    if "FLOAT_RE" in order and "INTEGER_RE" in order and order.index("FLOAT_RE") < order.index("INTEGER_RE"):
        res.ok("FLOAT-TEXT", "lex_between tries FLOAT_RE before INTEGER_RE")
    else:
        res.bad("FLOAT-TEXT", "parser::lex::lex_between # order", "FLOAT_RE is not tried before INTEGER_RE (1.5 would lex as 1 . 5)", LEX)
    # ---- NUMBER-PARSE (MIR): the reader obtains an Int/Float literal's value from std's own parser for that type,
    # applied to the token text with `_` removed, and the printer formats the number with std's Display: the two are
    # inverse by std's contract. A hand-written digit loop on either side is outside this argument and fails closed.
    P = ctx.P
    for fn, ty, variant in (("parser::parse_integer", "i64", "IntLiteral"), ("parser::parse_float", "f64", "FloatLiteral")):
        f = P.require_fn(fn)
        parses = [(bi, t) for bi, t in f.calls() if (M.callee_name(t) or "").endswith("str>::parse")
                  and (t["callee"].get("args") or "").strip("[]") == ty]
        key = "%s # value-from-std-parse" % fn
        if len(parses) != 1:
            res.bad("NUMBER-PARSE", key, "%s does not obtain the literal's value from `str::parse::<%s>` (found %d such calls): "
                    "the printed form of every %s is only known to read back through std's own parser" % (fn, ty, len(parses), ty), f.loc())
            continue
        pb, pt = parses[0]
        dest = pt["dest"]["l"]
        # the text parsed is token.text with '_' replaced
        src = f.root_of(pt["args"][0], through_named=True)
        from_replace = False
        for _ in range(4):
            if src[0] == "call":
                n = M.callee_name(src[2]) or ""
                if n.endswith("str>::replace"):
                    from_replace = True
                    break
                if src[2]["args"]:
                    src = f.root_of(src[2]["args"][0], through_named=True)
                    continue
            break
        flows = False
        for b in f.blocks:
            for st in b["stmts"]:
                if st["s"] == "assign" and st["rv"]["k"] == "agg" and st["rv"].get("variant") == variant:
                    r = f.root_of(st["rv"]["ops"][0], through_named=True)
                    for _ in range(4):
                        if r[0] == "call" and (M.callee_name(r[2]) or "").endswith(("::into", "::unwrap", "::expect", "::from")) and r[2]["args"]:
                            r = f.root_of(r[2]["args"][0], through_named=True)
                        else:
                            break
                    if r[0] == "place" and r[1]["l"] == dest and any(isinstance(e, dict) and e.get("downcast") == "Ok" for e in r[1]["p"]):
                        flows = True
                    if r[0] == "call" and r[2] is pt:
                        flows = True
        if flows and from_replace:
            res.ok("NUMBER-PARSE", "%s: %s payload is the Ok value of str::parse::<%s>(text.replace('_', \"\"))" % (fn, variant, ty))
        else:
            res.bad("NUMBER-PARSE", key, "%s: the %s payload is not the Ok value of str::parse::<%s> on the `_`-stripped token text "
                    "(flows=%s, stripped=%s)" % (fn, variant, ty, flows, from_replace), f.loc(pt.get("fn_span")))
    dsp = P.require_fn("values::Value::display")
    disp_tys = set()
    for bi, t in dsp.calls():
        n = M.callee_name(t) or ""
        if n.endswith("Argument::<'_>::new_display"):
            a = t["callee"].get("args") or ""
            for ty in ("i64", "f64"):
                if a.rstrip("]").endswith(" " + ty) or a.rstrip("]").endswith("&'{erased} " + ty):
                    disp_tys.add(ty)
        if n.endswith(("new_debug", "new_lower_exp", "new_upper_exp")):
            a = t["callee"].get("args") or ""
            if a.rstrip("]").endswith("i64") or a.rstrip("]").endswith("f64"):
                res.bad("NUMBER-PARSE", "values::Value::display # non-Display number format",
                        "Value::display formats a number with %s: Debug/exponent output is not Garden literal syntax" % n.split("::")[-1], dsp.loc(t.get("fn_span")))
    for ty in ("i64", "f64"):
        if ty in disp_tys:
            res.ok("NUMBER-PARSE", "Value::display formats %s with std Display" % ty)
        else:
            res.bad("NUMBER-PARSE", "values::Value::display # %s not printed with Display" % ty,
                    "Value::display does not format %s values with std's `{}` Display" % ty, dsp.loc())
    res.extra.update({"escape_table": esc_rows, "unescape_table": une_rows, "E": E, "regexes": rxs, "functions_analysed": 7})
    res.explanation = (
        "Lexical clauses only. The escape and unescape tables are read from the two match statements and compared row by row. "
        "STRING-TOKEN builds the exact regular language of printed string literals from that table and decides, on the product "
        "of its DFA with STRING_RE's leftmost-first DFA (regex-automata, the engine family the lexer uses), that for every printed "
        "literal and every following text the token ends exactly at the closing quote; when it does not hold the check prints a "
        "witness literal and continuation. FLOAT/INT inclusion is decided the same way against Rust's `{}` output shape "
        "(no exponent notation for finite floats). Nothing is sampled. Structs, dict ordering and value equality after parsing "
        "are not decided.")
    res.assumptions += ["Rust's Display for finite f64 prints -?digits(.digits)? without an exponent", "regex-automata's dense DFA implements the `regex` crate's leftmost-first semantics"]
