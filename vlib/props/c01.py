"""C01 Front end never crashes on any source text.

  PANIC-INV        every panic-capable MIR site (Assert terminators, unwrap/expect/panic!/unreachable!/assert!,
                   indexing, slicing, RefCell borrows, the panicking-API table) reachable from the lexer, parser,
                   static checks and formatter entry points is discharged by a rule (D-USIZE, D-ARITY, D-LEN, D-PEEK,
                   D-CONSTRE, D-SUBGUARD, D-DISPATCH, D-BORROW, D-FRAME ...) or is a reviewed residue row whose named
                   guards still exist; anything else is a violation printed with one call path from a root.
  PARSE-PROGRESS   each `assert!(tokens.idx > start_idx)` of the parser is protected by a sibling idiom:
                   G1 explicit idx test, G2 invalid/placeholder test on the sub-parser's result, G3 unconditional
                   pop of a peeked token with no un-consuming callee in between.
  RECURSION-PROGRESS in every cycle of token-taking parser functions at least one call is made only after a token has
                   certainly been consumed (`tokens.idx > start`, a pop under a successful peek, a callee that starts by
                   consuming the token just peeked) or is a reviewed edge (tables/parse_recursion.json) whose recorded
                   guard still holds. `==` / `!=` against the start index prove nothing: after the end-of-file unpop the
                   index can be smaller than the start.
  PAIRED-CALLS     the scope stacks of the unused-variable check and of the type checker's local bindings: every function that
                   opens a scope closes it exactly once on every path (the reviewed `expect`s on those stacks rely on it).
  POP-UNPOP        every `unpop()` is paired with a `pop()` of the same call that returned a token.
"""
from .. import panicinv as PI, parseprog as PP, mir as M, dflow as D

LAYERS = ["lexparse", "checks", "format", "cli_check"]


def run(ctx, res):
    P = ctx.P
    reach, inv = PI.run(ctx, res, LAYERS, floor_fns=410, floor_sites=200)
    # ---- PARSE-PROGRESS
    ps = PP.sites(P, reach)
    res.floor("PARSE-PROGRESS", "forward-progress assertions in the parser", len(ps), 11)
    for f, s in ps:
        idiom, why = PP.classify(P, f, s)
        key = "%s # progress-assert" % f.path
        if idiom:
            res.ok("PARSE-PROGRESS", "%s: %s %s" % (f.path, idiom, why))
            res.sample("%s protected by %s" % (f.path, idiom))
        else:
            res.bad("PARSE-PROGRESS", key, "forward-progress assertion in `%s`: %s" % (f.path, why), s.loc())
    PP.loop_guards(P, reach, res)
    PP.pop_unpop(P, reach, res)
    PI.paired_calls(P, res)
    # the reviewed `.parse().unwrap()` rows of parse_float / parse_integer rely on number tokens being ASCII numbers
    from . import c12 as _c12
    _c12.number_tokens_parse(ctx.shape, res, rule="NUMBER-TOKENS")
    import json as _json, os as _os
    from ..core import VERIF as _V
    PP.recursion_progress(P, reach, res, _json.load(open(_os.path.join(_V, "tables", "parse_recursion.json"))))
    # KEYWORD-GUARD: parse_symbol leaves a misplaced keyword unconsumed, so a sub-parser that starts with
    # parse_symbol and then recurses into parse_expression must not be entered on a keyword: the dispatch to
    # parse_struct_literal has to be behind a KEYWORDS.contains test (otherwise `else{` recurses forever).
    n_sl = 0
    for p in sorted(reach):
        g = P.funcs[p]
        for bi, t in g.calls():
            if M.callee_name(t) == "parser::parse_struct_literal":
                n_sl += 1
                if PI.guarded_by_call(g, bi, "::contains"):
                    res.ok("KEYWORD-GUARD", "%s: parse_struct_literal is entered only when the name is not a keyword" % p)
                else:
                    res.bad("KEYWORD-GUARD", "%s # struct-literal-on-keyword" % p,
                            "`%s` dispatches to parse_struct_literal without excluding keywords: for `else{` parse_symbol "
                            "consumes nothing and the struct-literal field loop calls parse_expression on the same token "
                            "again (unbounded recursion, stack overflow)" % p, g.loc(t.get("fn_span")))
    res.floor("KEYWORD-GUARD", "calls of parse_struct_literal", n_sl, 1)
    if ctx.tier == "thorough":
        from .. import loops as LP
        LP.run(ctx, res, reach, defect_for=("syntax-depth",))
        stale = PI.stale_rows(ctx, LAYERS)
        for k in stale[:40]:
            res.note("stale residue row (matches no site in this layer): %s" % k)
        res.extra.setdefault("thorough", {})["stale_residue_rows_in_layer"] = len(stale)
    res.explanation = (
        "Decides the *no-panic* reading of C01 statically: the universe is every panic-capable operation in the MIR of "
        "the functions reachable (resolved calls + function references + closures + RTA-filtered class-hierarchy "
        "fallback) from parse_toplevel_items / parse_toplevel_items_from_span / parse_inline_expr_from_str / lex / "
        "lex_between / check_toplevel_items(_in_env) / format / syntax_check::check (the `garden check [--fix]` path, "
        "diagnostics rendering included). Each site is discharged by a dominance/dataflow rule or by a reviewed row of "
        "tables/residue.json (exact, line-free key; the callee names, caller guards and guard fingerprints a row relies "
        "on are re-checked). For termination of the parser: PARSE-PROGRESS classifies every forward-progress assertion "
        "(G1 explicit index test = discharged, G2 invalid-result test, G3 unconditional peeked pop), LOOP-GUARD requires "
        "every token loop that can reach parse_symbol to leave on an iteration without progress, POP-UNPOP pairs every "
        "unpop with a pop of the same function except the two reviewed ones in parse_symbol, KEYWORD-GUARD keeps keywords "
        "out of the struct-literal recursion. Thorough tier adds the NATIVE-LOOPS and RECURSION inventories. Not decided: "
        "termination in general (no must-consume analysis of the recursive descent), stack depth on deeply nested input "
        "(known finding, thorough tier), panics inside dependencies outside the panicking-API table, allocation failure.")
    res.assumptions += [
        "D-USIZE: unsigned add/mul of in-memory lengths/offsets does not overflow (needs > 2^63 bytes of input)",
        "reviewed residue rows are human arguments; each names the guard calls it relies on and those are re-checked",
        "dependency code is represented by the panicking-API table, not analysed"]
