"""C04 Integer and float operators follow the documented arithmetic (structural clauses).

  INT-ARITH   (MIR) in functions reachable from eval::eval no `Assert` of kind Overflow/OverflowNeg/DivisionByZero/
              RemainderByZero exists on a Garden Int (i64) operand, and no panicking integer API (pow, abs, rem_euclid,
              div_euclid ..) is called, except rows of the reviewed interval table. Garden integers must go through
              wrapping_* / checked_*.
  OP-TABLE    (syntax) each arm of eval_int_binop / eval_float_binop uses the documented operation on (lhs, rhs) in that order.
  ZERO-GUARD  Divide, Modulo and DivideFloat are preceded by `rhs == 0 => Err(Exception)`; Exponent by `rhs < 0 => Err`.
  ERROR-RESTORE every error exit of the arithmetic helpers hands back exactly the operands it popped, in push order (C07's
              RESTORE-SEQ restricted to eval_int_binop / eval_float_binop / eval_assign_update).
  UPDATE-ORDER x += e reads x before evaluating e, as x = x + e does (today it does not: known finding).
  SIBLING     x += e / x -= e use the same operation as + / -.
  OPERAND-ORDER the second value popped is the left operand; eval_expr schedules rhs before lhs (LIFO) so lhs is evaluated first.
"""
import json, os
from .. import shape as S
from .. import mir as M
from .. import dflow as D
from .. import panics as PN
from ..core import VERIF

EVAL = "src/eval.rs"

# kind -> accepted operation description
INT_OPS = {
    "Add": ("method", "wrapping_add"), "Subtract": ("method", "wrapping_sub"), "Multiply": ("method", "wrapping_mul"),
    "Divide": ("method", "checked_div"), "Modulo": ("method", "wrapping_rem_euclid"), "Exponent": ("method", "checked_pow"),
    "BitwiseAnd": ("binary", "&"), "BitwiseOr": ("binary", "|"),
    "LessThan": ("binary", "<"), "GreaterThan": ("binary", ">"),
    "LessThanOrEqual": ("binary", "<="), "GreaterThanOrEqual": ("binary", ">="),
}
FLOAT_OPS = {"AddFloat": "+", "SubtractFloat": "-", "MultiplyFloat": "*", "DivideFloat": "/"}
WHY = {
    "Divide": "`/` must raise an exception for an unrepresentable quotient (i64::MIN / -1): checked_div; wrapping_div or `/` do not",
    "Modulo": "`%` is the Euclidean remainder, always representable when the divisor is non-zero: wrapping_rem_euclid behind a zero guard; "
              "checked_rem_euclid misreports i64::MIN % -1 as an error, `%`/rem_euclid panic or truncate",
}


def popped_operands(fn):
    """names bound to the Int payload of the 1st and 2nd popped values: returns (first_num, second_num, first_val, second_val)."""
    pops = []
    for s in fn["body"]["stmts"]:
        if s["k"] == "Let" and s["pat"]["k"] == "PIdent" and s["init"] is not None:
            if any(n["k"] == "MethodCall" and n["method"] == "pop_value" for n in S.walk(s["init"])):
                pops.append(s["pat"]["name"])
    nums = {}
    for s in fn["body"]["stmts"]:
        if s["k"] == "Let" and s["init"] is not None and s["init"]["k"] == "Match":
            scr = S.idents_in(s["init"]["e"])
            if s["pat"]["k"] == "PIdent":
                for v in pops:
                    if v in scr:
                        nums[v] = s["pat"]["name"]
    return pops, nums


def early_err_guards(arm_body):
    """conditions of `if <cond> { return Err(..) }` statements directly in the arm block."""
    out = []
    if arm_body["k"] != "Block":
        return out
    for s in arm_body["stmts"]:
        if s["k"] == "ExprStmt" and s["e"]["k"] == "If" and s["e"]["else"] is None:
            th = s["e"]["then"]["stmts"]
            if th and th[-1]["k"] == "ExprStmt" and th[-1]["e"]["k"] == "Return":
                r = th[-1]["e"]["e"]
                if r is not None and r["k"] == "Call" and r["f"].get("path") == "Err":
                    out.append(s["e"]["cond"])
    return out


def cond_is(cond, left, op, lit):
    if cond["k"] == "Binary" and cond["op"] == op and cond["l"].get("path") == left:
        r = cond["r"]
        if r["k"] == "LitInt" and r["v"] == lit:
            return True
        if r["k"] == "LitFloat" and r["v"] in (lit, lit + ".0"):
            return True
    return False


def dup_order(P, res):
    """DUP-ORDER: an arm of eval_expr that pops operands and pushes (clones of) them back must push them in the order they
    lay on the stack -- the reverse of the pop order, repeated: `assert(a < b)` duplicates both operands, and pushing
    one pair swapped makes the comparison run as `b < a`."""
    f = P.require_fn("eval::eval_expr")

    def popped(op):
        """the pop_value call block an operand derives from (through expect/unwrap/clone), or None."""
        r = f.root_of(op, through_named=True)
        for _ in range(6):
            if r[0] != "call":
                return None
            n = M.callee_name(r[2]) or ""
            if n == "env::Env::pop_value":
                return r[1]
            if n.endswith(("::expect", "::unwrap", "::clone", "Rc::<T>::clone")) and r[2]["args"]:
                r = f.root_of(r[2]["args"][0], through_named=True)
                continue
            return None
        return None
    pushes = []
    for bi, t in f.calls():
        if M.callee_name(t) == "env::Env::push_value" and len(t["args"]) > 1:
            src = popped(t["args"][1])
            if src is not None:
                pushes.append((bi, src))
    groups = {}
    for bi, src in pushes:
        arm = D.arm_label(f, bi, enums={"Expression_", "ExpressionState"})
        groups.setdefault(arm, []).append((bi, src))
    n = 0
    for arm, ps in sorted(groups.items()):
        pops = sorted({src for _, src in ps}, key=lambda b: f.rpo.index(b))
        if len(pops) < 2:
            continue
        n += 1
        ps.sort(key=lambda x: f.rpo.index(x[0]))
        chain = all(f.dominates(a[0], b[0]) for a, b in zip(ps, ps[1:])) and all(f.dominates(a, b) for a, b in zip(pops, pops[1:]))
        key = "eval::eval_expr # %s # re-push order" % arm
        if not chain:
            res.ok("DUP-ORDER", key + ": pushes on different paths (not a straight-line duplication)")
            continue
        want = list(reversed(pops))
        seq = [src for _, src in ps]
        okseq = len(seq) % len(want) == 0 and all(seq[i] == want[i % len(want)] for i in range(len(seq)))
        if okseq:
            res.ok("DUP-ORDER", key + ": %d popped operands pushed back %d time(s) in stack order" % (len(pops), len(seq) // len(want)))
        else:
            names = {b: "pop#%d" % (i + 1) for i, b in enumerate(pops)}
            res.bad("DUP-ORDER", key, "the %s arm pops %d operands and pushes them back as [%s]; stack order would be [%s] repeated: the operator applied next sees its "
                    "operands exchanged" % (arm, len(pops), ", ".join(names[x] for x in seq), ", ".join(names[x] for x in want)), f.loc(f.blocks[ps[0][0]]["term"].get("span")))
    res.floor("DUP-ORDER", "arms of eval_expr that pop several operands and push them back", n, 1)


def run(ctx, res):
    P = ctx.P
    sh = ctx.shape
    dup_order(P, res)
    # ---- INT-ARITH (MIR)
    table = json.load(open(os.path.join(VERIF, "tables", "c04_int_residue.json")))["rows"]
    reach = P.reachable(["eval::eval"], rta=False)
    used = set()
    n_sites = 0
    for p in sorted(reach):
        f = P.funcs[p]
        for s in PN.sites_of(f):
            is_int = False
            if s.kind.startswith("assert:Overflow") and s.detail in ("i64", "i32", "i128", "isize"):
                is_int = True
            if s.kind in ("assert:DivisionByZero", "assert:RemainderByZero", "assert:OverflowNeg") and s.detail in ("i64", "i32", "i128", "isize"):
                is_int = True
            if s.kind == "call:int::panicky":
                is_int = True
            if not is_int:
                continue
            n_sites += 1
            arm = D.arm_label(f, s.bb, enums={"BuiltInFunctionKind", "BuiltInMethodKind", "BinaryOperatorKind", "AssignUpdateKind"})
            key = "%s # %s # %s %s" % (p, arm or "-", s.kind, s.detail)
            row = table.get(key)
            if row:
                # the comparison the interval argument relies on must still guard the site (name-free fingerprint)
                from .. import panicinv as _PI
                _PI._PROGRAM = P
                if _PI._guards_match(row, 1, _PI.guard_fingerprint(f, s.bb)):
                    used.add(key)
                    res.ok("INT-ARITH", key + " (interval argument: %s)" % row["why"][:70], "residue")
                    continue
                res.bad("INT-ARITH", key + " # guard-gone",
                        "signed arithmetic accepted only under %s, which no longer guards it in %s (now: %s)" % (
                            row["guards"], p, _PI.guard_fingerprint(f, s.bb)), s.loc())
                continue
            res.bad("INT-ARITH", key,
                    "unchecked signed integer arithmetic reachable from eval::eval: `%s` on %s panics in debug builds instead of wrapping or raising a Garden exception" % (s.kind.split(":")[1], s.detail),
                    s.loc(), {"function": p, "arm": arm})
    res.ok("INT-ARITH", "%d signed-arithmetic assert/panicking-int sites found reachable from eval::eval (all must be in the interval table)" % n_sites)
    res.extra["functions_analysed"] = len(reach)

    # ---- OP-TABLE / ZERO-GUARD / OPERAND-ORDER (syntax)
    fn = S.find_fn(sh, EVAL, "eval_int_binop")
    pops, nums = popped_operands(fn)
    if len(pops) != 2 or any(v not in nums for v in pops):
        res.bad("OPERAND-ORDER", "eval::eval_int_binop # pops", "cannot identify the two popped operands and their Int payloads", "%s:%d" % (EVAL, S.line(fn)))
        return
    rhs_n, lhs_n = nums[pops[0]], nums[pops[1]]     # first popped is the right operand
    kind_match = None
    for m in S.matches_in(fn["body"]):
        ks = [S.pat_variant(a["pat"]) for a in m["arms"]]
        if "Add" in ks and "Divide" in ks:
            kind_match = m
    if kind_match is None:
        raise M.MissingAnchor("eval_int_binop: no match over the integer operator kinds")
    covered = set()
    for a in kind_match["arms"]:
        k = S.pat_variant(a["pat"])
        if k not in INT_OPS:
            continue
        covered.add(k)
        kindof, opn = INT_OPS[k]
        key = "eval::eval_int_binop # %s" % k
        body = a["body"]
        found = []
        for n in S.walk(body):
            if n["k"] == "MethodCall" and n["recv"].get("path") in (lhs_n, rhs_n) and n["args"] and n["args"][0]["k"] in ("Path", "Cast"):
                argn = n["args"][0].get("path") or (n["args"][0]["e"].get("path") if n["args"][0]["k"] == "Cast" else None)
                found.append(("method", n["method"], n["recv"]["path"], argn))
            if n["k"] == "Binary" and n["l"].get("path") in (lhs_n, rhs_n) and n["r"].get("path") in (lhs_n, rhs_n):
                found.append(("binary", n["op"], n["l"]["path"], n["r"]["path"]))
        ops = [x for x in found if not (x[0] == "binary" and x[1] in ("==", "!=") and False)]
        main = [x for x in ops if (x[0], x[1]) == (kindof, opn)]
        others = [x for x in ops if (x[0], x[1]) != (kindof, opn)]
        if len(main) != 1 or others:
            got = ", ".join("%s %s(%s,%s)" % x for x in ops) or "nothing recognisable"
            res.bad("OP-TABLE", key + " # op",
                    "BinaryOperatorKind::%s must be computed as %s(%s, %s); found: %s. %s" % (k, opn, lhs_n, rhs_n, got, WHY.get(k, "")),
                    "%s:%d" % (EVAL, S.line(a)))
        elif (main[0][2], main[0][3]) != (lhs_n, rhs_n):
            res.bad("OP-TABLE", key + " # operand-order", "%s is applied to (%s, %s) instead of (%s, %s)" % (opn, main[0][2], main[0][3], lhs_n, rhs_n),
                    "%s:%d" % (EVAL, S.line(a)))
        else:
            res.ok("OP-TABLE", key + " = %s(%s, %s)" % (opn, lhs_n, rhs_n))
            res.sample({"rule": "OP-TABLE", "kind": k, "op": opn, "line": S.line(a)})
        guards = early_err_guards(body)
        if k in ("Divide", "Modulo"):
            if any(cond_is(c, rhs_n, "==", "0") for c in guards):
                res.ok("ZERO-GUARD", key + ": `%s == 0` => Err before the operation" % rhs_n)
            else:
                res.bad("ZERO-GUARD", key + " # zero-guard", "%s by zero is not turned into a Garden exception (`if %s == 0 { return Err(..) }` missing)" % (k, rhs_n),
                        "%s:%d" % (EVAL, S.line(a)))
        if k == "Exponent":
            if any(cond_is(c, rhs_n, "<", "0") for c in guards):
                res.ok("ZERO-GUARD", key + ": negative exponent => Err")
            else:
                res.bad("ZERO-GUARD", key + " # negative-exponent", "a negative exponent is not rejected before checked_pow", "%s:%d" % (EVAL, S.line(a)))
        if k in ("Divide", "Exponent"):
            # the checked op's None must lead to Err
            nones = [m for m in S.matches_in(body) if any(S.pat_variant(x["pat"]) == "None" for x in m["arms"])]
            okn = False
            for m in nones:
                for x in m["arms"]:
                    if S.pat_variant(x["pat"]) == "None" and any(n["k"] == "Return" for n in S.walk(x["body"])):
                        okn = True
            if okn:
                res.ok("ZERO-GUARD", key + ": unrepresentable result (None) => Err")
            else:
                res.bad("ZERO-GUARD", key + " # none-arm", "the None result of %s is not turned into an exception" % opn, "%s:%d" % (EVAL, S.line(a)))
    for k in INT_OPS:
        if k not in covered:
            res.bad("OP-TABLE", "eval::eval_int_binop # %s missing" % k, "no arm for %s in eval_int_binop" % k, EVAL)
    # floats
    ff = S.find_fn(sh, EVAL, "eval_float_binop")
    fmatch = None
    for m in S.matches_in(ff["body"]):
        ks = [S.pat_variant(a["pat"]) for a in m["arms"]]
        if "AddFloat" in ks:
            fmatch = m
    if fmatch is None:
        raise M.MissingAnchor("eval_float_binop: no match over float kinds")
    for a in fmatch["arms"]:
        k = S.pat_variant(a["pat"])
        if k not in FLOAT_OPS:
            continue
        bins = [n for n in S.walk(a["body"]) if n["k"] == "Binary" and n["op"] in ("+", "-", "*", "/", "%") and n["l"]["k"] == "Path" and n["r"]["k"] == "Path"]
        key = "eval::eval_float_binop # %s" % k
        if len(bins) == 1 and bins[0]["op"] == FLOAT_OPS[k] and "lhs" in bins[0]["l"]["path"] and "rhs" in bins[0]["r"]["path"]:
            res.ok("OP-TABLE", key + " = %s %s %s" % (bins[0]["l"]["path"], bins[0]["op"], bins[0]["r"]["path"]))
        else:
            res.bad("OP-TABLE", key + " # op", "%s must be `lhs %s rhs` on f64" % (k, FLOAT_OPS[k]), "%s:%d" % (EVAL, S.line(a)))
        if k == "DivideFloat":
            gs = early_err_guards(a["body"])
            if any(c["k"] == "Binary" and c["op"] == "==" and c["r"]["k"] == "LitFloat" and float(c["r"]["v"]) == 0.0 for c in gs):
                res.ok("ZERO-GUARD", key + ": rhs == 0.0 => Err")
            else:
                res.bad("ZERO-GUARD", key + " # zero-guard", "float division by zero is not turned into an exception", "%s:%d" % (EVAL, S.line(a)))
    # ---- OPERAND-ORDER in eval_expr
    ev = S.find_fn(sh, EVAL, "eval_expr")
    n_ok = 0
    for m in S.matches_in(ev["body"]):
        for a in m["arms"]:
            if S.pat_variant(a["pat"]) != "BinaryOperator":
                continue
            p = a["pat"]
            if p["k"] != "PTupleStruct" or len(p["elems"]) != 3:
                continue
            l = p["elems"][0].get("name")
            r = p["elems"][2].get("name")
            pushes = []
            for n in S.walk(a["body"]):
                if n["k"] == "MethodCall" and n["method"] == "push_expr_to_eval" and len(n["args"]) == 2:
                    st = ctx.src_text(EVAL, n["args"][0]["sp"])
                    if "NotEvaluated" in st:
                        pushes.append(S.idents_in(n["args"][1]))
            key = "eval::eval_expr # BinaryOperator@%d" % 0
            if len(pushes) == 2 and r in pushes[0] and l in pushes[1]:
                n_ok += 1
            else:
                res.bad("OPERAND-ORDER", "eval::eval_expr # BinaryOperator arm line-free#%d" % n_ok,
                        "a binary-operator arm does not schedule rhs then lhs (so that lhs is evaluated first and popped second)", "%s:%d" % (EVAL, S.line(a)))
        if n_ok:
            break
    res.floor("OPERAND-ORDER", "binary-operator arms scheduling rhs then lhs", n_ok, 5)
    res.ok("OPERAND-ORDER", "eval_int_binop: first pop is `%s` (right operand), second pop is `%s` (left operand)" % (pops[0], pops[1]))
    # ---- ERROR-RESTORE (shared with C07's RESTORE-SEQ): an arithmetic error hands back the operands it popped in order,
    # so re-running the step raises the same exception instead of evaluating `0 / a`
    from . import c07
    sites, _inh, _hlp, _sh = c07.restore_sites(ctx)
    ar = [x for x in sites if x["fn"] in ("eval_int_binop", "eval_float_binop", "eval_assign_update")]
    cnt = {}
    for x in ar:
        k0 = (x["fn"], x["arm"])
        cnt[k0] = cnt.get(k0, 0) + 1
        key = "eval::%s # %s # %d # %s" % (x["fn"], x["arm"], cnt[k0], c07.show(x["restored"]))
        if x["ok"]:
            res.ok("ERROR-RESTORE", key)
        else:
            res.bad("ERROR-RESTORE", key, "%s [%s] hands back %s after popping %s: when the step is re-run the operands are swapped or lost, so the "
                    "documented exception is not raised again (expected %s)" % (x["fn"], x["arm"], c07.show(x["restored"]), c07.show(x["popped"]), c07.show(x["expected"])),
                    "%s:%d" % (EVAL, x["line"]))
    res.floor("ERROR-RESTORE", "error exits of the arithmetic helpers", len(ar), 8)
    # ---- SIBLING
    au = S.find_fn(sh, EVAL, "eval_assign_update")
    sib = {"Add": INT_OPS["Add"][1], "Subtract": INT_OPS["Subtract"][1]}
    for m in S.matches_in(au["body"]):
        for a in m["arms"]:
            k = S.pat_variant(a["pat"])
            if k in sib:
                calls = [n for n in S.walk(a["body"]) if n["k"] == "MethodCall"]
                bins = [n for n in S.walk(a["body"]) if n["k"] == "Binary"]
                key = "eval::eval_assign_update # %s" % k
                # receiver = the variable's current value, argument = the popped right-hand side (by data flow from pop_value)
                from .c03 import _taint
                seeds_ = set()
                for n_ in S.walk(au["body"]):
                    if n_["k"] == "Let" and n_.get("init") is not None and any(x["k"] == "MethodCall" and x["method"] == "pop_value" for x in S.walk(n_["init"])):
                        seeds_ |= set(S.pat_bindings(n_["pat"]))
                popped_ = _taint(au["body"], seeds_) if seeds_ else set()
                if len(calls) == 1 and calls[0]["method"] == sib[k] and not bins and calls[0]["args"] and \
                        (S.idents_in(calls[0]["args"][0]) & popped_) and not (S.idents_in(calls[0]["recv"]) & popped_):
                    res.ok("SIBLING", key + " uses %s(var, rhs) like BinaryOperatorKind::%s" % (sib[k], k))
                else:
                    res.bad("SIBLING", key + " # differs",
                            "AssignUpdateKind::%s does not use %s(variable, rhs) as BinaryOperatorKind::%s does: `x %s= e` can differ from `x = x %s e`" % (k, sib[k], k, "+" if k == "Add" else "-", "+" if k == "Add" else "-"),
                            "%s:%d" % (EVAL, S.line(a)))
    # SIBLING (store): `x += e` must write the variable through the same binding operation as `x = e` (the innermost
    # binding of the name), and read it through the same lookup
    P_ = ctx.P
    ea, eu = P_.require_fn("eval::eval_assign"), P_.require_fn("eval::eval_assign_update")

    def binding_ops(g):
        out = set()
        for _, t_ in g.calls():
            n_ = M.callee_name(t_) or ""
            if n_.startswith("eval::Bindings::") or n_.endswith(("Env::set_with_file_scope", "Bindings::set_existing")):
                out.add(n_.split("::")[-1])
        return out
    wa, wu = binding_ops(ea), binding_ops(eu)
    writers = {"set_existing"}
    if (wa & writers) and (wa & writers) == (wu & writers) and not ((wu - wa) - {"get", "has"}):
        res.ok("SIBLING", "eval_assign_update stores through %s, like eval_assign" % sorted(wu & writers))
    else:
        res.bad("SIBLING", "eval::eval_assign_update # store differs",
                "`x += e` does not store the variable the way `x = e` does (eval_assign uses %s, eval_assign_update uses %s): with a shadowed name the two "
                "forms update different bindings" % (sorted(wa), sorted(wu)), eu.loc())
    # UPDATE-ORDER: `x = x + e` reads x before it evaluates e (the left operand is evaluated first); `x += e` agrees only if it
    # reads x before e runs too. Today the variable is read in the step that runs after e has been evaluated.
    reads_late = any((M.callee_name(t_) or "") in ("eval::get_var",) or (M.callee_name(t_) or "").endswith("Bindings::get") for _, t_ in eu.calls())
    arm_reads_first = False
    evx = P_.require_fn("eval::eval_expr")
    for bi_, t_ in evx.calls():
        n_ = M.callee_name(t_) or ""
        if (n_ == "eval::get_var" or n_.endswith("Bindings::get")) and "AssignUpdate" in D.arm_label(evx, bi_, enums={"Expression_"}):
            arm_reads_first = True
    if reads_late and not arm_reads_first:
        res.bad("UPDATE-ORDER", "eval::eval_assign_update # reads the variable after its right-hand side",
                "`x += e` reads x only after e has been evaluated, `x = x + e` reads it before: when e assigns x the two differ "
                "(`x += if True { x = 10 5 } else { 0 }` gives 15 from x = 1, the long form gives 6)", eu.loc())
    else:
        res.ok("UPDATE-ORDER", "the variable of `x += e` is read before e is evaluated")
    stale = [k for k in table if k not in used]
    for k in stale:
        res.note("stale interval-table row (site no longer present): %s" % k)
    res.explanation = (
        "Structural clauses of the documented arithmetic. INT-ARITH enumerates, on MIR compiled with overflow checks, every "
        "overflow/division assert on a signed integer and every panicking integer API in the %d functions reachable from "
        "eval::eval; Garden Ints must go through wrapping_*/checked_* so the set must be empty apart from reviewed rows with an "
        "interval argument whose guard text is re-checked. OP-TABLE reads each operator arm and requires the documented Rust "
        "operation applied to (lhs, rhs) in that order; ZERO-GUARD requires the zero/negative guards and that None results raise; "
        "SIBLING ties += / -= to + / -. Numerical results themselves (that wrapping_add is two's complement, that f64 + is IEEE) "
        "are taken from Rust and not computed." % len(reach))
