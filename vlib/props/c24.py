"""C24 Sandboxed code cannot touch files, processes or stdin.

Rules (all on E1's MIR facts of the current tree):
  EFFECT-GUARD   every effectful std call reachable from eval::eval is dominated by the *false*
                 edge of a switch on Env.enforce_sandbox in its own function, or sits in a helper
                 all of whose call sites (transitively) are so dominated; the true edge of each
                 such switch reaches no effect and builds EvalError::ForbiddenInSandbox.
  CONFIG-DOM     in each sandbox entry point the store enforce_sandbox = true dominates every
                 call that can reach eval::eval.
  WHO-MAY-WRITE  enforce_sandbox is written only by the two entry points.
  NO-REENTRY     nothing reachable from eval::eval calls eval::eval again (so the Env seen by the
                 built-ins is the one configured by the entry point).
"""
import re
from .. import mir as M
from .. import dflow as D
from .. import sandbox as S

EFFECT_RE = re.compile(
    r"^std::(fs|process|net)::|^<std::(fs|process|net)::"
    r"|^std::io::(stdin|Stdin|StdinLock)\b|^std::io::Stdin::|^<std::io::(Stdin|StdinLock)"
    r"|^std::path::Path::(exists|try_exists|is_file|is_dir|is_symlink|metadata|symlink_metadata|read_dir|read_link|canonicalize)$"
    r"|^std::env::(set_current_dir|set_var|remove_var)$"
    r"|^std::os::")
# effect calls that only *inspect* a handle already obtained through a guarded call are still listed;
# the ones below create no effect by themselves and are never reachable without their opener.
PURE_ACCESSORS = re.compile(
    r"^std::fs::(Metadata|FileType|DirEntry|Permissions)::|^std::process::(ExitStatus|Output)::"
    r"|^<std::fs::ReadDir as |^std::process::Command::(new|arg|args|env|current_dir)$|^std::process::id$"
    r"|^std::fs::OpenOptions::(new|append|create|write|read|truncate|create_new)$")

ENTRY_POINTS = ["sandboxed_playground::run_sandboxed_playground", "test_runner::run_sandboxed_tests_in_file"]
ENV_ADT = "env::Env"


def entry_points(P):
    """functions that store `true` into Env.enforce_sandbox."""
    out = {}
    for f in P.funcs.values():
        for bi, b in enumerate(f.blocks):
            for si, s in enumerate(b["stmts"]):
                if s["s"] != "assign":
                    continue
                pp = s["place"]["p"]
                if pp and isinstance(pp[-1], dict) and pp[-1].get("name") == "enforce_sandbox" and pp[-1].get("adt") == ENV_ADT:
                    c = M.op_const(s["rv"].get("a")) if s["rv"]["k"] == "use" else None
                    val = c.get("v") if c else None
                    out.setdefault(f.path, []).append((bi, si, val, s["span"]))
    return out


def is_effect(name):
    return bool(name and EFFECT_RE.search(name))


SHAPE_ALLOW = {"eval::read_src # - # std::fs::read", "eval::read_src # - # std::fs::metadata"}


def builds_only_refusal(g):
    """helper g constructs EvalError::ForbiddenInSandbox and no other EvalError variant, and performs no effect call."""
    variants = set()
    for b in g.blocks:
        for s in b["stmts"]:
            if s["s"] == "assign" and s["rv"]["k"] == "agg" and str(s["rv"].get("adt", "")).endswith("EvalError"):
                variants.add(s["rv"].get("variant"))
    if variants != {"ForbiddenInSandbox"}:
        return False
    for bi, t in g.calls():
        if is_effect(M.callee_name(t) or ""):
            return False
    return True


def run(ctx, res):
    import json, os
    from ..core import VERIF
    allow = json.load(open(os.path.join(VERIF, "tables", "c24_allow.json")))["allow"]
    P = ctx.P
    ev = P.require_fn("eval::eval")
    reach = P.reachable(["eval::eval"], rta=False)
    res.extra["functions_analysed"] = len(reach)

    # ---- EFFECT-GUARD ------------------------------------------------------------------
    E = P.edges()
    sites, effn, direct = S.classify(P, reach, is_effect)
    n_direct = len(sites)
    openers = sum(1 for x in sites if not PURE_ACCESSORS.search(x["callee"]))
    guards = S.guards
    n_guarded = 0
    for x in sites:
        key, n, t = x["key"], x["callee"], x["term"]
        if x["status"] == "guarded":
            n_guarded += 1
            res.ok("EFFECT-GUARD", key, "guarded")
            res.sample({"site": key, "line": t["span"]["line"], "guard_switch_bb": x["guard"][0]})
        elif x["status"] == "chain-guarded":
            res.ok("EFFECT-GUARD", key, "all call chains from eval::eval are guarded")
        elif key in allow:
            if key in SHAPE_ALLOW:
                okg, whyg = S.snippet_import_guard(P)
                if not okg:
                    res.bad("EFFECT-GUARD", key + " # allow-shape", "allowlisted effect `%s` relies on the conditional refusal in check_snippet, "
                            "which no longer has its shape: %s" % (key, whyg), "%s:%d" % (t["span"]["file"], t["span"]["line"]))
                    continue
            if key == "eval::read_src # - # std::fs::read" and not S.read_src_regular_guard(P)[0]:
                # the load-time import read is outside "the filesystem API" only for program *files*: an import of /dev/stdin or a
                # FIFO is the sandboxed program reading standard input
                res.bad("EFFECT-GUARD", key + " # non-regular files", "the import read is allow-listed only while read_src refuses everything but regular "
                        "files; without that test `import \"/dev/stdin\" as x` lets a sandboxed program read standard input: %s" % S.read_src_regular_guard(P)[1],
                        "%s:%d" % (t["span"]["file"], t["span"]["line"]))
                continue
            res.ok("EFFECT-GUARD", key, "allowlisted: " + allow[key][:60])
            res.note("allowlisted unguarded effect: %s -- %s" % (key, allow[key]))
        elif PURE_ACCESSORS.search(n):
            res.ok("EFFECT-GUARD", key, "accessor (opener reported separately)")
        else:
            res.bad("EFFECT-GUARD", key,
                    "effectful call %s is reachable from eval::eval without being dominated by the false edge of a "
                    "switch on Env.enforce_sandbox (path: %s)" % (n, " -> ".join(x["chain"])),
                    "%s:%d" % (t["span"]["file"], t["span"]["line"]), {"chain": x["chain"], "arm": x["arm"]})
    # true-edge obligations for every guard in reachable functions
    n_guards = 0
    for p in sorted(reach):
        f = P.funcs[p]
        for (sb, ft, tt) in guards(f):
            n_guards += 1
            arm = D.arm_label(f, sb, enums={"BuiltInFunctionKind", "BuiltInMethodKind"})
            key = "%s # %s # guard" % (p, arm or "-")
            tre = D.reach_from(f, [tt])
            # (a) no effect reachable from the true edge
            eff_after = [(bi, n) for (bi, n, t) in direct.get(p, []) if bi in tre and not PURE_ACCESSORS.search(n)]
            eff_after += [(bi, tgt) for kind, tgt, bi in E.get(p, []) if kind != "live" and tgt in effn and bi in tre]
            # (b) the true edge builds ForbiddenInSandbox and returns without rejoining the false region
            builds = False
            for bi in tre:
                for s in f.blocks[bi]["stmts"]:
                    if s["s"] == "assign" and s["rv"]["k"] == "agg" and s["rv"].get("variant") == "ForbiddenInSandbox":
                        builds = True
                # or through a local helper that builds the refusal (and nothing else of EvalError)
                tb = f.blocks[bi]["term"]
                if tb["t"] == "call":
                    g = P.funcs.get(M.callee_name(tb) or "")
                    if g is not None and g.path != p and builds_only_refusal(g):
                        builds = True
            rejoin = ft in tre
            if p == "eval::check_snippet" and S.snippet_import_guard(P)[0]:
                res.ok("EFFECT-GUARD", key, "conditional refusal: " + S.snippet_import_guard(P)[1])
            elif eff_after:
                res.bad("EFFECT-GUARD", key + " # effect-on-true-edge",
                        "an effectful call (%s) is reachable on the sandboxed (true) edge of the enforce_sandbox test" % eff_after[0][1],
                        f.loc(f.blocks[sb]["term"]["span"]))
            elif not builds or rejoin:
                res.bad("EFFECT-GUARD", key + " # no-refusal",
                        "the sandboxed (true) edge of the enforce_sandbox test does not end in EvalError::ForbiddenInSandbox "
                        "(builds=%s, rejoins unguarded code=%s)" % (builds, rejoin),
                        f.loc(f.blocks[sb]["term"]["span"]))
            else:
                res.ok("EFFECT-GUARD", key, "true edge refuses")
    # ---- REFUSE-FIRST: in a guarded built-in arm the refusal must not depend on anything else. Every path from
    # the arm's entry to a return of the dispatcher passes through the enforce_sandbox test (so a call in a
    # position whose value is unused, or with odd arguments, is refused all the same).
    n_first = 0
    for p in sorted(reach):
        f = P.funcs[p]
        gs = guards(f)
        if not gs:
            continue
        rets = set(f.exits())
        for sw in D.enum_switches(f):
            if D.short_ty(sw["ety"]) not in S.ARM_ENUMS:
                continue
            targets = dict(sw["by_target"])
            for tgt, names in targets.items():
                region = D.edge_dominated(f, sw["bb"], tgt)
                arm_guards = [g for g in gs if g[0] in region or g[0] == tgt]
                if not arm_guards:
                    continue
                n_first += 1
                leak = D.reach_from(f, [tgt], avoid_blocks=[g[0] for g in arm_guards]) & rets
                key = "%s # %s # refuse-first" % (p, "|".join(names))
                if leak:
                    res.bad("REFUSE-FIRST", key,
                            "the built-in %s can return without consulting Env.enforce_sandbox on some path (its sandbox "
                            "refusal depends on another condition, e.g. whether the value is used)" % "|".join(names),
                            f.loc(f.blocks[arm_guards[0][0]]["term"]["span"]))
                else:
                    res.ok("REFUSE-FIRST", key)
    res.floor("REFUSE-FIRST", "guarded built-in arms", n_first, 12)
    res.floor("EFFECT-GUARD", "effect call sites reachable from eval", n_direct, 20)
    res.floor("EFFECT-GUARD", "enforce_sandbox guards", n_guards, 12)

    # ---- CONFIG-DOM / WHO-MAY-WRITE ------------------------------------------------------
    reaches_eval = set()
    # reverse reachability to eval::eval
    rev = {}
    for p, es in E.items():
        for kind, tgt, bi in es:
            if kind != "live":
                rev.setdefault(tgt, set()).add(p)
    st = ["eval::eval"]
    reaches_eval.add("eval::eval")
    while st:
        x = st.pop()
        for q in rev.get(x, ()):
            if q not in reaches_eval:
                reaches_eval.add(q)
                st.append(q)
    writers = entry_points(P)
    true_writers = {p for p, ws in writers.items() if any(v is True for (_, _, v, _) in ws)}
    res.floor("CONFIG-DOM", "sandbox entry points (functions storing enforce_sandbox = true)", len(true_writers), 2)
    for p, ws in sorted(writers.items()):
        f = P.funcs[p]
        for (bi, si, val, sp) in ws:
            if val is not True:
                res.bad("WHO-MAY-WRITE", "%s # writes enforce_sandbox=%s" % (p, val),
                        "Env.enforce_sandbox is assigned a value other than the constant true", f.loc(sp))
        if p in reach:
            res.bad("WHO-MAY-WRITE", "%s # writer reachable from eval" % p,
                    "a function reachable from eval::eval writes Env.enforce_sandbox", f.loc())
        trues = [(bi, si) for (bi, si, v, _) in ws if v is True]
        if not trues:
            continue
        for kind, tgt, cb in E.get(p, []):
            if kind == "live" or tgt not in reaches_eval:
                continue
            ok = any(f.dominates(bi, cb) for (bi, si) in trues)
            key = "%s # call %s" % (p, tgt)
            if ok:
                res.ok("CONFIG-DOM", key)
            else:
                res.bad("CONFIG-DOM", key,
                        "call to %s (which can reach eval::eval) is not dominated by the store enforce_sandbox = true" % tgt,
                        f.loc(f.blocks[cb]["term"]["span"]))
    # callers of the sandbox entry points: the two CLI commands
    for p in sorted(true_writers):
        res.sample({"entry_point": p, "callers": sorted(rev.get(p, []))})

    # ---- NO-REENTRY --------------------------------------------------------------------
    callers_in_reach = sorted(q for q in rev.get("eval::eval", ()) if q in reach)
    if callers_in_reach:
        for q in callers_in_reach:
            res.bad("NO-REENTRY", "%s # calls eval::eval" % q,
                    "eval::eval is re-entered from %s, which is itself reachable from eval::eval; the nested "
                    "evaluation may run under a differently configured Env" % q, P.funcs[q].loc())
    else:
        res.ok("NO-REENTRY", "no function reachable from eval::eval calls eval::eval")

    res.extra.update({"effect_call_sites": n_direct, "effect_openers": openers, "guarded_sites": n_guarded,
                      "guards": n_guards, "roots": ["eval::eval"], "entry_points": sorted(true_writers)})
    res.explanation = (
        "Decides the sandbox property structurally on the MIR of the current tree. EFFECT-GUARD: %d calls into the "
        "effect table (std::fs, std::process, std::net, stdin, Path metadata probes, set_current_dir) are reachable from "
        "eval::eval (%d functions walked, class-hierarchy call graph); each must be edge-dominated by the false edge of "
        "a switch on Env.enforce_sandbox, in its own function or along every call chain; each of the %d guards must refuse "
        "(build EvalError::ForbiddenInSandbox, reach no effect) on its true edge. CONFIG-DOM/WHO-MAY-WRITE: the store "
        "enforce_sandbox=true dominates every call that can reach eval in both entry points and nobody else writes the "
        "field. NO-REENTRY: eval is not re-entered from built-ins. This is a proof about code shape over all paths, not a "
        "run of any program; effects inside dependency crates that are not in the table are not seen."
        % (n_direct, len(reach), n_guards))
    res.assumptions += [
        "effects are performed only through the std APIs in the effect table (std::fs, std::process, std::net, std::io::stdin, Path probes, env::set_current_dir)",
        "the MIR call graph (resolved calls + function references + class-hierarchy fallback for unresolved trait calls) over-approximates real calls",
        "import loading (read_src) performed while checking a snippet is listed separately, see DESIGN.md",
    ]
