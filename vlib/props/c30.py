"""C30 nREPL delivers one final `done` per request, after all its output (ordering clauses).

  ORDER       in eval_code_in_namespace, on every path after eval_toplevel_exprs_then_stop:
              drop(flush_stop_tx) < flusher.join() < flush(stdout) < flush(stderr) < any `done` message
              construction (dominance chain); no direct Sender::send after the eval in that function.
  DONE-ONCE   every path through each request handler (eval_code_in_namespace, handle_eval, handle_load_file,
              handle_completions, handle_lookup, dispatch_to_session, and each op arm of handle_message)
              produces exactly one message with status `done` (interval count of `bstr("done")` blocks
              plus summaries of callees, min = max = 1).
  LAST        in each handler the block that builds `done` is followed by no other response push/send
              (`done` is the last message of the returned vector).
  IN-ORDER    session_worker sends the handler's vector front to back, one request at a time.
  FLUSHER     the flusher thread only sends output messages (no status key) and exits on stop.
  ISOLATION   each session worker constructs its own Env (Env::new inside session_worker, outside the loop).
"""
from .. import mir as M
from .. import dflow as D

MOD = "nrepl::"


def done_blocks(f):
    out = []
    for bi, t in f.calls():
        n = M.callee_name(t) or ""
        if n.endswith("nrepl::bstr") and t["args"]:
            c = f.root_of(t["args"][0])
            if c[0] == "const" and c[1].get("s") == "done":
                out.append(bi)
    return out


def returns(f):
    return [bi for bi in f.reachable_blocks() if f.blocks[bi]["term"]["t"] == "return"]


def done_summary(P, path, memo, stack=()):
    """(lo, hi) number of `done` messages produced on any path through function `path`
    (own constructions + calls into nrepl functions that produce done messages)."""
    if path in memo:
        return memo[path]
    if path in stack:
        return (0, 0)
    f = P.funcs[path]
    w = {}
    for bi in done_blocks(f):
        w[bi] = (1, 1)
    for bi, t in f.calls():
        n = M.callee_name(t) or ""
        if n.startswith(MOD) and n in P.funcs and n != path and not n.endswith("::bstr"):
            s = done_summary(P, n, memo, stack + (path,))
            if s != (0, 0):
                a = w.get(bi, (0, 0))
                w[bi] = (a[0] + s[0], a[1] + s[1])
    rng = D.event_ranges(f, w)
    lo, hi = None, None
    for rb in returns(f):
        if rb in rng:
            lo = rng[rb][0] if lo is None else min(lo, rng[rb][0])
            hi = rng[rb][1] if hi is None else max(hi, rng[rb][1])
    memo[path] = (lo or 0, hi or 0)
    return memo[path]


def done_events(P, f, memo, skip=()):
    """block -> (lo, hi) `done` messages produced there: own constructions plus calls of nrepl helpers that build them."""
    w = {bi: (1, 1) for bi in done_blocks(f)}
    for bi, t in f.calls():
        n = M.callee_name(t) or ""
        if n.startswith(MOD) and n in P.funcs and n != f.path and not n.endswith("::bstr") and not n.startswith(tuple(skip)):
            s_ = done_summary(P, n, memo, (f.path,))
            if s_ != (0, 0):
                a = w.get(bi, (0, 0))
                w[bi] = (a[0] + s_[0], a[1] + s_[1])
    return w


def returned_locals(g):
    out = {0}
    for b in g.blocks:
        for st in b["stmts"]:
            if st["s"] == "assign" and st["place"]["l"] == 0 and not st["place"]["p"] and st["rv"]["k"] == "use":
                q = M.op_place(st["rv"]["a"])
                if q is not None and not q["p"]:
                    out.add(q["l"])
    return out


def fresh_id(P, res, rule="ISOLATION"):
    """FRESH-ID (shared with C31): session ids come from a counter that only grows."""
    ns = P.require_fn("nrepl::Connection::new_session")
    # FRESH-ID: two live sessions must never share an id (the second insert would replace the first session's entry
    # and both clients would talk to one Env). The id must come from a counter that only grows, not from the
    # current number of sessions.
    ins = [(bi, t) for bi, t in ns.calls() if (M.callee_name(t) or "").endswith("HashMap::<K, V, S, A>::insert")
           and ns.root_of(t["args"][0], through_named=True)[0] == "place"
           and ns.field_path(ns.root_of(t["args"][0], through_named=True)[1])[-1:] == ["sessions"]]
    res.floor(rule, "sessions.insert in new_session", len(ins), 1)
    for bi, t in ins:
        k = ns.root_of(t["args"][1], through_named=True)
        for _ in range(3):
            if k[0] == "call" and (M.callee_name(k[2]) or "").endswith(("::clone", "::to_owned", "::to_string")) and k[2]["args"]:
                k = ns.root_of(k[2]["args"][0], through_named=True)
            else:
                break
        gen = P.funcs.get(M.callee_name(k[2]) or "") if k[0] == "call" else None
        okid = False
        why = "the key is not produced by a local id generator"
        if gen is not None:
            incs = [st for b in gen.blocks for st in b["stmts"] if st["s"] == "assign" and st["rv"]["k"] == "binop"
                    and st["rv"]["op"] in ("AddWithOverflow", "Add") and (M.op_const(st["rv"]["b"]) or {}).get("v") == 1]
            mut_counter = any(a.startswith("&mut u") for a in (k[2].get("argtys") or []))
            uses_len = any((M.callee_name(tt) or "").endswith("::len") for _, tt in gen.calls())
            okid = bool(incs) and mut_counter and not uses_len
            why = "increments=%d, takes &mut counter=%s, derives from len()=%s" % (len(incs), mut_counter, uses_len)
        if gen is None:
            # inline form: `self.next_id += 1; let id = format!(.., self.next_id)` in new_session itself
            kk = k
            for _ in range(3):
                if kk[0] == "call" and (M.callee_name(kk[2]) or "").endswith("must_use") and kk[2]["args"]:
                    kk = ns.root_of(kk[2]["args"][0], through_named=True)
            if kk[0] == "call" and (M.callee_name(kk[2]) or "").endswith("fmt::format"):
                fb = kk[1]
                stores = []
                for bi2, b2 in enumerate(ns.blocks):
                    for st in b2["stmts"]:
                        if st["s"] == "assign" and st["place"]["p"] and ns.field_path(st["place"]) and st["rv"]["k"] == "use":
                            q = M.op_place(st["rv"]["a"])
                            d0 = ns.single_def(q["l"]) if q is not None else None
                            if d0 and d0[1] != "term" and d0[2]["rv"]["k"] == "binop" and d0[2]["rv"]["op"] in ("AddWithOverflow", "Add") \
                                    and (M.op_const(d0[2]["rv"]["b"]) or {}).get("v") == 1:
                                src_ = M.op_place(d0[2]["rv"]["a"])
                                if src_ is not None and ns.field_path(src_) == ns.field_path(st["place"]) and ns.dominates(bi2, fb):
                                    stores.append(ns.field_path(st["place"])[-1])
                uses_len = any((M.callee_name(tt) or "").endswith("::len") for b3, tt in ns.calls() if ns.dominates(b3, fb))
                okid = bool(stores) and not uses_len
                why = "inline: counter field incremented before formatting the id=%s, derives from len()=%s" % (stores, uses_len)
        if okid:
            res.ok(rule, "new_session: the session id comes from a monotonically incremented counter (FRESH-ID)")
        else:
            res.bad(rule, "nrepl::Connection::new_session # id-not-fresh",
                    "the session id is not drawn from a counter that only grows (%s): after a session is closed a new "
                    "session can reuse a live session's id and replace it" % why, ns.loc(t.get("fn_span")))



def run(ctx, res):
    P = ctx.P
    f = P.require_fn("nrepl::eval_code_in_namespace")
    # ---- ORDER ---------------------------------------------------------------------
    def one(suffix, pred=None):
        c = [(bi, t) for bi, t in f.calls() if (M.callee_name(t) or "").endswith(suffix) and (pred is None or pred(t))]
        return c
    ev = one("eval::eval_toplevel_exprs_then_stop")
    if len(ev) != 1:
        raise M.MissingAnchor("nrepl::eval_code_in_namespace: expected one call of eval_toplevel_exprs_then_stop, found %d" % len(ev))
    E = ev[0][0]
    after = D.reach_from(f, [f.blocks[E]["term"]["target"]])
    drops = one("std::mem::drop", lambda t: t["argtys"] and t["argtys"][0].startswith("std::sync::mpsc::Sender<()>"))
    joins = one("JoinHandle::<T>::join")
    flushes = one("nrepl::flush_output_buffer")

    def key_of(t):
        """the message key the flush is made for: b"out" / b"err" (second argument, a byte-string constant)."""
        r = f.root_of(t["args"][1], through_named=True)
        c = None
        if r[0] == "const":
            c = r[1].get("s") or r[1].get("text")
        elif r[0] == "place":
            dd = [d for d in f.defs.get(r[1]["l"], []) if d[1] != "term" and d[2]["rv"]["k"] == "use"]
            if dd:
                c0 = M.op_const(dd[0][2]["rv"]["a"])
                if c0:
                    c = c0.get("s") or c0.get("text")
        return str(c).strip('b"') if c else None
    fl_out = [bi for bi, t in flushes if bi in after and key_of(t) == "out"]
    fl_err = [bi for bi, t in flushes if bi in after and key_of(t) == "err"]
    chain = [("drop(flush_stop_tx)", [b for b, _ in drops if b in after]), ("flusher.join()", [b for b, _ in joins if b in after]),
             ("flush(stdout)", fl_out), ("flush(stderr)", fl_err)]
    prev_name, prev_bb = "eval_toplevel_exprs_then_stop", E
    ok_chain = True
    for name, bbs in chain:
        if len(bbs) != 1:
            res.bad("ORDER", "nrepl::eval_code_in_namespace # %s # count=%d" % (name, len(bbs)),
                    "expected exactly one %s after the eval, found %d" % (name, len(bbs)), f.loc())
            ok_chain = False
            break
        b = bbs[0]
        if not f.dominates(prev_bb, b):
            res.bad("ORDER", "nrepl::eval_code_in_namespace # %s before %s" % (prev_name, name),
                    "%s does not precede %s on every path (output could arrive after `done`, or the flusher could still be sending)" % (prev_name, name),
                    f.loc(f.blocks[b]["term"]["span"]))
            ok_chain = False
            break
        res.ok("ORDER", "%s  <  %s" % (prev_name, name))
        prev_name, prev_bb = name, b
    dn = [b for b in done_blocks(f) if b in after]
    res.floor("ORDER", "`done` constructions after the eval", len(dn), 2)
    if ok_chain:
        for b in dn:
            if f.dominates(prev_bb, b):
                res.ok("ORDER", "flush(stderr)  <  done@bb%d" % b)
            else:
                res.bad("ORDER", "nrepl::eval_code_in_namespace # done-before-final-drain",
                        "a `done` message is built on a path that has not passed the final stdout/stderr drain",
                        f.loc(f.blocks[b]["term"]["span"]))
    sends = [bi for bi, t in f.calls() if (M.callee_name(t) or "").endswith("Sender::<T>::send") and bi in after]
    if sends:
        res.bad("ORDER", "nrepl::eval_code_in_namespace # direct-send-after-eval",
                "a message is sent directly on response_tx after the eval (ordering relative to the returned `done` is no longer fixed by the worker loop)",
                f.loc(f.blocks[sends[0]]["term"]["span"]))
    else:
        res.ok("ORDER", "no direct Sender::send after the eval in eval_code_in_namespace")
    res.sample({"rule": "ORDER", "chain": [prev for prev, _ in chain], "done_sites_after_eval": len(dn)})

    # ---- DONE-ONCE -----------------------------------------------------------------
    memo = {}
    # the handlers are whatever session_worker calls to get a vector of responses (so inlining or splitting one of them
    # changes the list, not the rule), plus eval_code_in_namespace which the eval-like handlers share
    wk = P.require_fn("nrepl::session_worker")
    handlers = ["nrepl::eval_code_in_namespace"]
    for bi, t in wk.calls():
        n = M.callee_name(t) or ""
        if n.startswith(MOD) and n in P.funcs and "Vec<" in P.funcs[n].locals[0]["ty"] and n not in handlers:
            handlers.append(n)
    res.floor("DONE-ONCE", "response-producing handlers called by session_worker", len(handlers), 4)
    for h in handlers:
        P.require_fn(h)
        s = done_summary(P, h, memo)
        if s == (1, 1):
            res.ok("DONE-ONCE", "%s: every path produces exactly one `done`" % h)
        else:
            res.bad("DONE-ONCE", "%s # done-count %s" % (h, s),
                    "%s produces between %d and %s `done` messages depending on the path (must be exactly 1)" % (h, s[0], "%d+" % s[1] if s[1] >= 3 else s[1]),
                    P.funcs[h].loc())
    # dispatch_to_session: exactly one of {send done-error, enqueue request}
    d = P.require_fn("nrepl::dispatch_to_session")
    w = done_events(P, d, memo)
    enq = []
    for sw in D.call_switches(d, "::is_err"):
        r = d.root_of(sw["call"]["args"][0])
        if r[0] == "call" and (M.callee_name(r[2]) or "").endswith("Sender::<T>::send"):
            enq.append(sw["false"])
    for b in enq:
        w[b] = (1, 1)
    rng = D.event_ranges(d, w)
    rr = [rng[b] for b in returns(d) if b in rng]
    if enq and rr and all(x == (1, 1) for x in rr):
        res.ok("DONE-ONCE", "dispatch_to_session: every path either enqueues the request or answers `done` itself, never both/neither")
    else:
        res.bad("DONE-ONCE", "nrepl::dispatch_to_session # paths %s" % rr,
                "dispatch_to_session has a path that neither enqueues the request nor answers, or does both", d.loc())
    # handle_message: per path exactly one of {own done, dispatch_to_session}
    hm = P.require_fn("nrepl::handle_message")
    w = done_events(P, hm, memo, skip=("nrepl::dispatch_to_session",))
    ndisp = 0
    for bi, t in hm.calls():
        if (M.callee_name(t) or "").startswith("nrepl::dispatch_to_session"):
            w[bi] = (1, 1)
            ndisp += 1
    rng = D.event_ranges(hm, w)
    rr = sorted({rng[b] for b in returns(hm) if b in rng})
    res.floor("DONE-ONCE", "op arms of handle_message answering or dispatching", len(w), 12)
    if rr == [(1, 1)]:
        res.ok("DONE-ONCE", "handle_message: every path answers `done` once or dispatches once (%d done sites, %d dispatches)" % (len(w) - ndisp, ndisp))
    else:
        res.bad("DONE-ONCE", "nrepl::handle_message # paths %s" % rr,
                "some path through handle_message produces %s done/dispatch events (must be exactly 1): a request would get no `done` or two" % rr, hm.loc())
    # each own-done in handle_message is sent: the done block is followed by conn.send on every path
    snd = [bi for bi, t in hm.calls() if (M.callee_name(t) or "").endswith("Connection::send")]
    def sends_own_done(gname):
        """a helper that builds the `done` message and sends it itself on every path."""
        g_ = P.funcs.get(gname)
        if g_ is None:
            return False
        snd_ = [bi for bi, t in g_.calls() if (M.callee_name(t) or "").endswith("Connection::send")]
        dn_ = done_blocks(g_)
        return bool(snd_) and bool(dn_) and not any(x in D.reach_from(g_, [b_], avoid_blocks=snd_) for b_ in dn_ for x in returns(g_))
    for b in sorted(done_events(P, hm, memo, skip=("nrepl::dispatch_to_session",))):
        if b in snd:
            continue
        tb_ = hm.blocks[b]["term"]
        if tb_["t"] == "call" and sends_own_done(M.callee_name(tb_) or ""):
            continue
        r = D.reach_from(hm, [b], avoid_blocks=snd)
        if any(x in r for x in returns(hm)):
            res.bad("DONE-ONCE", "nrepl::handle_message # done-not-sent", "a `done` message is built but a path returns without conn.send",
                    hm.loc(hm.blocks[b]["term"]["span"]))
    res.ok("DONE-ONCE", "handle_message: every built `done` reaches conn.send")

    # ---- LAST --------------------------------------------------------------------
    for h in ["nrepl::eval_code_in_namespace", "nrepl::handle_completions", "nrepl::handle_lookup"]:
        g = P.funcs[h]
        pushes = []
        for bi, t in g.calls():
            n = M.callee_name(t) or ""
            if (n.endswith("Vec::<T, A>::push") or n.endswith("::extend")) and t["args"]:
                r = g.root_of(t["args"][0])
                # the vector of responses the handler returns (the local moved into the return place)
                if r[0] == "place" and r[1]["l"] in returned_locals(g):
                    pushes.append(bi)
        bad = False
        for b in done_blocks(g):
            # the push that carries this done: first push reachable from b; after it, no further push
            r1 = D.reach_from(g, [b])
            mine = [p for p in pushes if p in r1 and g.dominates(b, p)]
            if not mine:
                continue
            first = min(mine, key=lambda p: g.rpo.index(p))
            later = D.reach_from(g, g.succ[first])
            extra = [p for p in pushes if p in later]
            if extra:
                bad = True
                res.bad("LAST", "%s # push-after-done" % h, "a response is appended to the returned vector after the `done` message",
                        g.loc(g.blocks[extra[0]]["term"]["span"]))
        if not bad:
            res.ok("LAST", "%s: nothing is appended to `responses` after the `done` message" % h)

    # ---- WORKER-LOOP (shared with C09): a request that was accepted into the session's queue is answered -- the worker leaves
    # its loop only when the channel is closed
    from . import c09 as _c09
    _c09.worker_loop_exits(P, res, "nrepl::session_worker")
    # ---- IN-ORDER / ISOLATION ----------------------------------------------------------------
    sw = P.require_fn("nrepl::session_worker")
    recvs = [bi for bi, t in sw.calls() if (M.callee_name(t) or "").endswith("Receiver::<T>::recv")
             or ("mpsc::Iter<" in (M.callee_name(t) or "") and (M.callee_name(t) or "").endswith("Iterator>::next"))]      # `for req in rx.iter()` dequeues with Iter::next
    sends = [bi for bi, t in sw.calls() if (M.callee_name(t) or "").endswith("Sender::<T>::send")]
    revs = [bi for bi, t in sw.calls() if (M.callee_name(t) or "").endswith("Iterator::rev")]
    loops = D.natural_loops(sw)
    if len(recvs) == 1 and len(sends) == 1 and not revs:
        outer = [body for (h, a, body) in loops if recvs[0] in body]
        inner = [body for (h, a, body) in loops if sends[0] in body and recvs[0] not in body]
        if outer and inner:
            res.ok("IN-ORDER", "session_worker: one recv per outer iteration; responses sent in an inner loop, front to back")
        else:
            res.bad("IN-ORDER", "nrepl::session_worker # loop-shape", "recv/send are not in the expected outer/inner loops", sw.loc())
    else:
        res.bad("IN-ORDER", "nrepl::session_worker # recv=%d send=%d rev=%d" % (len(recvs), len(sends), len(revs)),
                "session_worker must dequeue one request at a time and send its responses in vector order", sw.loc())
    news = [bi for bi, t in sw.calls() if M.callee_name(t) == "env::Env::new"]
    in_loop = any(b in body for b in news for (h, a, body) in loops)
    takes_env = any("env::Env" in (sw.locals[i]["ty"]) for i in range(1, sw.argc + 1))
    if len(news) == 1 and not in_loop and not takes_env:
        res.ok("ISOLATION", "session_worker constructs its own Env once, before its request loop; no Env is passed in")
    else:
        res.bad("ISOLATION", "nrepl::session_worker # env", "each session worker must construct exactly one private Env (found %d, in loop=%s, passed in=%s)" % (len(news), in_loop, takes_env), sw.loc())
    ns = P.require_fn("nrepl::Connection::new_session")
    spawned = [e for e in P.edges().get(ns.path, []) if e[0] == "closure"]
    ok_sp = False
    for kind, tgt, bi in spawned:
        c = P.fn(tgt)
        if c and any(M.callee_name(t) == "nrepl::session_worker" for _, t in c.calls()):
            ok_sp = True
    if ok_sp:
        res.ok("ISOLATION", "new_session spawns a dedicated session_worker thread per session")
    else:
        res.bad("ISOLATION", "nrepl::Connection::new_session # spawn", "new_session does not spawn a session_worker per session", ns.loc())
    fresh_id(P, res)
    from . import c31 as _c31
    _c31.reader_never_blocks(P, res)
    # ---- FLUSHER -------------------------------------------------------------------
    fl = [p for p in P.funcs if p.startswith("nrepl::spawn_output_flusher::{closure")]
    for p in fl:
        c = P.funcs[p]
        if done_blocks(c):
            res.bad("FLUSHER", p + " # done", "the output flusher thread builds a `done` message", c.loc())
        callees = {M.callee_name(t) for _, t in c.calls()}
        if not any((x or "").endswith("recv_timeout") for x in callees):
            res.bad("FLUSHER", p + " # no-stop", "the flusher loop does not wait on its stop channel", c.loc())
    fob = P.require_fn("nrepl::flush_output_buffer")
    if done_blocks(fob):
        res.bad("FLUSHER", "nrepl::flush_output_buffer # done", "flush_output_buffer builds a `done` message", fob.loc())
    # ATOMIC-TAKE: the evaluator appends to the shared buffer concurrently with the flusher. The text sent must be
    # removed from the buffer in the same critical section in which it is read: one lock per call, content obtained
    # by mem::take / replace / drain / split_off under that lock (not clone-now, clear-later).
    locks = [bi for bi, t in fob.calls() if (M.callee_name(t) or "").endswith("Mutex::<T>::lock")]
    rng = D.path_event_range(fob, 0, set(returns(fob)), set(locks))
    takers = [bi for bi, t in fob.calls() if (M.callee_name(t) or "").endswith(("mem::take", "mem::replace", "::drain", "::split_off", "mem::swap"))]
    clears = [bi for bi, t in fob.calls() if (M.callee_name(t) or "").endswith(("::clear", "::truncate"))]
    if rng is not None and rng[1] == 1 and takers and not clears:
        res.ok("FLUSHER", "flush_output_buffer: one lock per call and the captured text is taken out under it (ATOMIC-TAKE)")
    else:
        res.bad("FLUSHER", "nrepl::flush_output_buffer # non-atomic-take",
                "flush_output_buffer does not remove the captured text in the critical section that reads it (locks per path=%s, "
                "take/drain calls=%d, clear calls=%d): output written between the read and the clear is lost" % (rng, len(takers), len(clears)),
                fob.loc())
    res.ok("FLUSHER", "flusher closures (%d) and flush_output_buffer build no status message; flusher waits on the stop channel" % len(fl))
    # ---- FRAME-EVERY-BYTE: the reader finds the end of a bencode value by trying to decode the bytes read so far after
    # *every* byte. An attempt made only for some bytes (say, only after an `e`) never completes a top-level byte string, which
    # then swallows the requests that follow it on the connection: they get no `done`.
    rm = [g for q, g in P.funcs.items() if q == "nrepl::read_message" or q.startswith("nrepl::read_message::<")]
    if not rm:
        raise M.MissingAnchor("nrepl::read_message")
    for g in rm:
        pushes_ = [bi for bi, t in g.calls() if (M.callee_name(t) or "").endswith("Vec::<T, A>::push")]
        parses_ = [bi for bi, t in g.calls() if "from_bytes" in (M.callee_name(t) or "")]
        reads_ = [bi for bi, t in g.calls() if (M.callee_name(t) or "").endswith(("::read", "::read_exact"))]
        res.floor("FRAME-EVERY-BYTE", "decode attempts in read_message", len(parses_), 1)
        bad_ = False
        for pb in pushes_:
            tgt = g.blocks[pb]["term"]["target"]
            if tgt is None:
                continue
            r_ = D.reach_from(g, [tgt], avoid_blocks=parses_)
            if any(rb in r_ for rb in reads_):
                bad_ = True
        if bad_ or not pushes_:
            res.bad("FRAME-EVERY-BYTE", "nrepl::read_message # conditional decode",
                    "after a byte is appended to the buffer, read_message can go on to read the next byte without trying to decode the buffer: a value "
                    "whose last byte does not trigger the attempt is never recognised and absorbs the requests that follow it", g.loc())
        else:
            res.ok("FRAME-EVERY-BYTE", "read_message tries to decode after every byte it appends")
    # ---- ID-ECHO: "the last message with that id" needs every response to carry the request's id as it was sent
    # (bencode ids may be integers or byte strings). base_response must copy the raw `id` value of the request.
    br = P.require_fn("nrepl::base_response")
    okid = False
    why = "no insert under the key `id`"
    for bi, t in br.calls():
        if not (M.callee_name(t) or "").endswith("HashMap::<K, V, S, A>::insert") or len(t["args"]) < 3:
            continue
        k = br.root_of(t["args"][1], through_named=True)
        kc = None
        if k[0] == "call" and k[2]["args"]:
            kr = br.root_of(k[2]["args"][0], through_named=True)
            if kr[0] == "const":
                kc = kr[1].get("s") or kr[1].get("text", "")
            elif kr[0] == "place":
                # `b"id".to_vec()`: a reference to a byte-string constant held in a temporary
                dd = [d for d in br.defs.get(kr[1]["l"], []) if d[1] != "term" and d[2]["rv"]["k"] == "use"]
                if dd:
                    c0 = M.op_const(dd[0][2]["rv"]["a"])
                    if c0:
                        kc = c0.get("s") or c0.get("text", "")
        if kc is None or str(kc).strip('b"') != "id":
            continue
        v = br.root_of(t["args"][2], through_named=True)
        if v[0] == "call" and (M.callee_name(v[2]) or "").endswith("Clone>::clone") and v[2]["args"]:
            src = br.root_of(v[2]["args"][0], through_named=True)
            # the Some payload of dict_get(request, "id")
            if src[0] == "place":
                dd = [d for d in br.defs.get(src[1]["l"], []) if d[1] == "term"]
                if dd and (M.callee_name(dd[0][2]) or "") == "nrepl::dict_get" and len(dd[0][2]["args"]) > 1:
                    c = br.root_of(dd[0][2]["args"][1])
                    if c[0] == "const" and c[1].get("s") == "id" and dd[0][2]["args"] and M.op_place(dd[0][2]["args"][0]) is not None:
                        okid = True
            why = "the value stored under `id` is not a clone of dict_get(request, \"id\")"
        else:
            why = "the value stored under `id` is rebuilt (%s) instead of cloned from the request" % ((M.callee_name(v[2]) or "?").split("::")[-1] if v[0] == "call" else v[0])
    if okid:
        res.ok("ID-ECHO", "base_response copies the request's raw `id` value into every response")
    else:
        res.bad("ID-ECHO", "nrepl::base_response # id-not-echoed", "responses do not carry the request's id as sent (%s): a request whose id is "
                "not a non-empty UTF-8 string gets its messages, `done` included, without an id" % why, br.loc())
    users = [g.path for g in P.funcs.values() if g.path.startswith("nrepl::") for _, t in g.calls() if M.callee_name(t) == "nrepl::base_response"]
    res.floor("ID-ECHO", "callers of base_response", len(users), 1)
    # ---- PANIC-INV over the nREPL threads: a worker that dies mid-request never sends its `done`
    from .. import panicinv as PI
    PI.run(ctx, res, ["nrepl"], floor_fns=540, floor_sites=350)
    res.floor("FLUSHER", "flusher closures", len(fl), 1)

    res.extra["functions_analysed"] = len(memo) + 6
    res.explanation = (
        "Ordering clauses decided on MIR: a dominance chain eval < drop(stop sender) < join(flusher) < drain stdout < drain stderr < "
        "every construction of a `done` message reachable after the eval (so the flusher has exited and all output is on the "
        "channel before `done` is pushed); an interval dataflow (min,max over all CFG paths, loops by fixpoint) shows each handler "
        "and each op arm yields exactly one `done`, counting callee summaries; `done` is the last element of each returned vector; "
        "the worker sends vectors front to back, one request at a time; flusher code cannot emit a status. What is NOT decided: "
        "interleavings of the flusher with the worker beyond join-before-final-drain, and TCP-level ordering.")
    res.assumptions += ["mpsc channels are FIFO per sender and the single writer thread writes messages in channel order",
                        "a worker that panics mid-request loses its `done` (panic-freedom of the worker is checked under PANIC-INV, not here)"]
