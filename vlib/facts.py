"""Fact loading: runs E1 (gfacts, MIR) and E2 (gshape, syntax) over the *current*
working tree of the repository and caches the result keyed by a hash of the
sources, so every check decides the tree as it is now."""
import hashlib, json, os, subprocess, sys, time

VERIF = os.path.dirname(os.path.dirname(os.path.abspath(__file__)))
REPO = os.environ.get("VERIF_REPO", "/repo")
CACHE = os.path.join(VERIF, ".cache")


def tree_hash(repo=REPO):
    h = hashlib.sha256()
    paths = []
    for root, dirs, files in os.walk(os.path.join(repo, "src")):
        dirs.sort()
        for f in sorted(files):
            paths.append(os.path.join(root, f))
    for f in ("Cargo.toml", "Cargo.lock", "build.rs"):
        p = os.path.join(repo, f)
        if os.path.exists(p):
            paths.append(p)
    for p in paths:
        h.update(os.path.relpath(p, repo).encode())
        h.update(b"\0")
        with open(p, "rb") as fh:
            h.update(fh.read())
        h.update(b"\0")
    # the extractor binaries are part of the key
    for t in ("gfacts", "gshape"):
        b = os.path.join(VERIF, "tools", t, "target", "release", t)
        if os.path.exists(b):
            st = os.stat(b)
            h.update(("%s:%d:%d" % (t, st.st_size, int(st.st_mtime))).encode())
    return h.hexdigest()[:24]


def rust_sources(repo=REPO):
    out = []
    for root, dirs, files in os.walk(os.path.join(repo, "src")):
        dirs.sort()
        for f in sorted(files):
            if f.endswith(".rs"):
                out.append(os.path.join(root, f))
    return out


def ensure(repo=REPO, quiet=False):
    """Returns (facts_path, shape_path, hash, extraction_seconds)."""
    os.makedirs(CACHE, exist_ok=True)
    hh = tree_hash(repo)
    d = os.path.join(CACHE, "facts-" + hh)
    facts = os.path.join(d, "facts.json")
    shape = os.path.join(d, "shape.json")
    t0 = time.time()
    if not (os.path.exists(facts) and os.path.exists(shape)):
        # take a lock so parallel checks do not extract twice
        import fcntl
        lock = open(os.path.join(CACHE, "extract.lock"), "w")
        fcntl.flock(lock, fcntl.LOCK_EX)
        try:
            if not (os.path.exists(facts) and os.path.exists(shape)):
                os.makedirs(d, exist_ok=True)
                if not quiet:
                    print("[facts] extracting MIR + syntax facts for tree %s" % hh, file=sys.stderr)
                tmpf = facts + ".new"
                r = subprocess.run([os.path.join(VERIF, "tools", "run_gfacts.sh"), repo, tmpf,
                                    os.path.join(CACHE, "target")], capture_output=True, text=True)
                if r.returncode != 0 or not os.path.exists(tmpf):
                    sys.stderr.write(r.stdout + r.stderr)
                    raise SystemExit("[facts] E1 extraction failed (does the tree compile?)")
                gs = os.path.join(VERIF, "tools", "gshape", "target", "release", "gshape")
                tmps = shape + ".new"
                r = subprocess.run([gs, tmps, repo] + rust_sources(repo), capture_output=True, text=True)
                if r.returncode != 0:
                    sys.stderr.write(r.stdout + r.stderr)
                    raise SystemExit("[facts] E2 extraction failed")
                os.rename(tmps, shape)
                os.rename(tmpf, facts)
                # keep only the 16 most recent fact sets
                sets = sorted((x for x in os.listdir(CACHE) if x.startswith("facts-")),
                              key=lambda x: os.path.getmtime(os.path.join(CACHE, x)))
                for old in sets[:-16]:
                    import shutil
                    # never remove a set another running check may be about to read (used within the last 20 minutes)
                    if time.time() - os.path.getmtime(os.path.join(CACHE, old)) > 1200:
                        shutil.rmtree(os.path.join(CACHE, old), ignore_errors=True)
        finally:
            fcntl.flock(lock, fcntl.LOCK_UN)
            lock.close()
    return facts, shape, hh, time.time() - t0


_loaded = {}


def load(repo=REPO):
    """Returns (mir_doc, shape_doc, hash, extraction_seconds)."""
    for attempt in range(3):
        facts, shape, hh, secs = ensure(repo)
        if hh in _loaded:
            break
        try:
            os.utime(os.path.dirname(facts))
            with open(facts) as fh:
                mir = json.load(fh)
            with open(shape) as fh:
                sh = json.load(fh)
            _loaded[hh] = (mir, sh)
            break
        except (FileNotFoundError, json.JSONDecodeError):
            # the set was pruned by a concurrent run between ensure() and open(): extract again
            if attempt == 2:
                raise
    mir, sh = _loaded[hh]
    return mir, sh, hh, secs
