"""NATIVE-LOOPS and RECURSION inventories (thorough tier)."""
import json, os
from . import mir as M, dflow as D
from .core import VERIF


def loops_of(f):
    byh = {}
    for h, a, body in D.natural_loops(f):
        byh.setdefault(h, set()).update(body)
    return byh


def iterator_driven(f, h, body):
    """some exit edge of the loop is taken on the None result of an Iterator::next() called in the loop."""
    for b in body:
        t = f.blocks[b]["term"]
        if t["t"] != "switch":
            continue
        if all(s in body for s in f.succ[b]):
            continue
        r = f.root_of(t["discr"])
        if r[0] == "rv" and r[3]["rv"]["k"] == "discr":
            l = r[3]["rv"]["place"]["l"]
            for d in f.defs.get(l, []):
                if d[1] == "term" and d[0] in body:
                    n = M.callee_name(d[2]) or ""
                    if n.endswith(("::next", "::next_back")) and "Iterator" in n or n.endswith("::next") and ("Iter" in n or "iter" in n or "Chars" in n or "Lines" in n or "Split" in n):
                        ty = (d[2].get("argtys") or [""])[0]
                        # an integer range (or an endless adaptor) is a counter, not a finite collection: its bound is
                        # whatever the program computed, so such loops are reviewed like hand-written ones
                        if any(x in ty for x in ("ops::Range", "ops::range::Range", "iter::Repeat", "iter::StepBy", "iter::Successors", "iter::Cycle", "iter::FromFn")):
                            return None
                        return n
    return None


def inventory(P, reach):
    out = []
    for p in sorted(reach):
        f = P.funcs[p]
        for h, body in loops_of(f).items():
            it = iterator_driven(f, h, body)
            out.append((f, h, body, it))
    return out


def sccs(P, reach):
    """non-trivial strongly connected components of the call graph restricted to `reach` (Tarjan, iterative)."""
    E = P.edges()
    adj = {p: sorted({t for k, t, b in E.get(p, []) if k != "live" and t in reach}) for p in reach}
    index = {}
    low = {}
    onst = set()
    st = []
    res = []
    idx = [0]
    for root in sorted(reach):
        if root in index:
            continue
        work = [(root, iter(adj[root]))]
        index[root] = low[root] = idx[0]; idx[0] += 1
        st.append(root); onst.add(root)
        while work:
            v, it = work[-1]
            adv = False
            for w in it:
                if w not in index:
                    index[w] = low[w] = idx[0]; idx[0] += 1
                    st.append(w); onst.add(w)
                    work.append((w, iter(adj[w])))
                    adv = True
                    break
                elif w in onst:
                    low[v] = min(low[v], index[w])
            if adv:
                continue
            work.pop()
            if work:
                u = work[-1][0]
                low[u] = min(low[u], low[v])
            if low[v] == index[v]:
                comp = []
                while True:
                    w = st.pop(); onst.discard(w); comp.append(w)
                    if w == v:
                        break
                if len(comp) > 1 or v in adj[v]:
                    res.append(sorted(comp))
    return res


def run(ctx, res, reach, label_suffix="", defect_for=()):
    """NATIVE-LOOPS and RECURSION over the given reachable set (thorough tier)."""
    P = ctx.P
    LT = json.load(open(os.path.join(VERIF, "tables", "loops.json")))["loops"]
    RT = json.load(open(os.path.join(VERIF, "tables", "recursion.json")))
    inv = inventory(P, reach)
    n_it = sum(1 for x in inv if x[3])
    per = {}
    for f, h, body, it in inv:
        if not it:
            per.setdefault(f.path, []).append((f, h))
    for fn, ls in sorted(per.items()):
        row = LT.get(fn)
        if row and len(ls) <= row["count"]:
            res.ok("NATIVE-LOOPS", "%s: %d reviewed non-iterator loop(s)" % (fn, len(ls)), "residue")
        else:
            f, h = ls[-1]
            res.bad("NATIVE-LOOPS", "%s # loops=%d" % (fn, len(ls)),
                    "`%s` has %d loop(s) that are not driven by an iterator over a finite collection, %s reviewed: "
                    "a native loop inside one interpreter step is outside the tick budget and must have its own bound" % (
                        fn, len(ls), row["count"] if row else "none"), f.loc(f.blocks[h]["term"].get("span")))
    res.ok("NATIVE-LOOPS", "iterator-driven loops=%d (terminate with their finite collection)" % n_it)
    res.floor("NATIVE-LOOPS", "natural loops in the reachable functions", len(inv), 100)
    anchors = RT["anchors"]
    defect = RT.get("defect_classes", {})
    cs = sccs(P, reach)
    by_class = {}
    for c in cs:
        hit = [a for a in anchors if a in c]
        if hit:
            k = anchors[hit[0]]["class"]
            by_class.setdefault(k, []).append(hit[0])
            if k not in defect or k not in defect_for:
                res.ok("RECURSION", "%s (+%d): %s" % (hit[0], len(c) - 1, k), "residue")
        else:
            res.bad("RECURSION", "recursion # " + c[0],
                    "native recursion through %s is not in the reviewed inventory: its depth needs a bound "
                    "(a recursion per nested element of user data overflows the stack)" % ", ".join(c[:4]), P.funcs[c[0]].loc())
    for k in sorted(by_class):
        if k in defect and k in defect_for:
            res.bad("RECURSION", "recursion # " + k,
                    "%s (%d recursive component(s): %s)" % (defect[k], len(by_class[k]), ", ".join(sorted(by_class[k])[:5])),
                    P.funcs[sorted(by_class[k])[0]].loc())
    res.floor("RECURSION", "recursive components in the reachable functions", len(cs), 5)
    res.extra.setdefault("thorough", {})["loops%s" % label_suffix] = {
        "loops": len(inv), "iterator_driven": n_it, "reviewed_functions": len(per), "recursive_components": len(cs)}
