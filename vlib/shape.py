"""Helpers over the gshape (syn) JSON syntax tree."""
from .mir import MissingAnchor


def walk(n):
    """yield every dict node (pre-order)."""
    if isinstance(n, dict):
        if "k" in n:
            yield n
        for v in n.values():
            if isinstance(v, (dict, list)):
                yield from walk(v)
    elif isinstance(n, list):
        for v in n:
            yield from walk(v)


def file_items(shape, rel):
    for f in shape:
        if f["file"] == rel:
            return f["items"]
    raise MissingAnchor("source file %s not found" % rel)


def _fns_in(items, out, impl=None, test=False):
    for it in items:
        k = it.get("k")
        if k == "Fn":
            out.append((impl, it, test or it.get("test", False)))
        elif k == "Impl":
            _fns_in(it["items"], out, impl=it, test=test or it.get("test", False))
        elif k == "Mod" and it.get("items"):
            _fns_in(it["items"], out, impl=impl, test=test or it.get("test", False))
        elif k == "Trait":
            _fns_in(it["items"], out, impl=it, test=test)


def find_fn(shape, rel, name, impl_self=None, impl_trait=None):
    out = []
    _fns_in(file_items(shape, rel), out)
    cands = []
    for impl, fn, test in out:
        if test or fn["name"] != name:
            continue
        if impl_self is not None and (impl is None or impl.get("self_ty") != impl_self):
            continue
        if impl_trait is not None and (impl is None or impl.get("trait") != impl_trait):
            continue
        cands.append(fn)
    if not cands:
        # the function may have been moved to another file: accept it when exactly one definition exists crate-wide
        for f_ in shape:
            if f_["file"] == rel:
                continue
            out2 = []
            _fns_in(f_["items"], out2)
            for impl, fn, test in out2:
                if test or fn["name"] != name:
                    continue
                if impl_self is not None and (impl is None or impl.get("self_ty") != impl_self):
                    continue
                if impl_trait is not None and (impl is None or impl.get("trait") != impl_trait):
                    continue
                cands.append(fn)
    if len(cands) != 1:
        raise MissingAnchor("function `%s` in %s%s: expected 1 definition, found %d" % (
            name, rel, " (impl %s for %s)" % (impl_trait, impl_self) if impl_self else "", len(cands)))
    return cands[0]


def find_enum(shape, rel, name):
    for n in walk(file_items(shape, rel)):
        if n["k"] == "Enum" and n["name"] == name:
            return n
    raise MissingAnchor("enum %s not found in %s" % (name, rel))


def find_struct(shape, rel, name):
    for n in walk(file_items(shape, rel)):
        if n["k"] == "StructDef" and n["name"] == name:
            return n
    raise MissingAnchor("struct %s not found in %s" % (name, rel))


def matches_in(node):
    return [n for n in walk(node) if n["k"] == "Match"]


def tail_expr(block):
    """the value expression of a block (last statement without semicolon), or None."""
    if block.get("k") != "Block":
        return block
    st = block["stmts"]
    if st and st[-1]["k"] == "ExprStmt" and not st[-1]["semi"]:
        e = st[-1]["e"]
        if e.get("k") == "Block":
            return tail_expr(e)
        return e
    return None


def idents_in(node):
    """names of all single-segment Path expressions and identifiers used in an expression."""
    out = set()
    for n in walk(node):
        if n["k"] == "Path" and "::" not in n["path"]:
            out.add(n["path"])
    return out


def pat_bindings(p, out=None):
    """{binding name: access path} for a pattern; access path is a list of field names/indices."""
    if out is None:
        out = {}

    def go(p, path):
        k = p["k"]
        if k == "PIdent":
            out[p["name"]] = list(path)
            if p.get("sub"):
                go(p["sub"], path)
        elif k == "PTupleStruct":
            for i, e in enumerate(p["elems"]):
                go(e, path + ["%s.%d" % (p["path"].split("::")[-1], i)])
        elif k == "PStruct":
            for f in p["fields"]:
                go(f["pat"], path + ["%s.%s" % (p["path"].split("::")[-1], f["name"])])
        elif k == "PTuple":
            for i, e in enumerate(p["elems"]):
                go(e, path + ["#%d" % i])
        elif k in ("PRef", "PType"):
            go(p["pat"], path)
        elif k == "POr":
            for c in p["cases"]:
                go(c, path)
        elif k == "PSlice":
            for i, e in enumerate(p["elems"]):
                go(e, path + ["[%d]" % i])
    go(p, [])
    return out


def pat_variant(p):
    """variant name (last path segment) of an enum pattern, '_' for wildcard/binding, None otherwise."""
    k = p["k"]
    if k in ("PTupleStruct", "PStruct", "PPath"):
        return p["path"].split("::")[-1]
    if k == "PWild":
        return "_"
    if k == "PIdent":
        if p.get("sub"):
            return pat_variant(p["sub"])
        # a capitalised bare identifier in pattern position is a unit variant / constant (`None`)
        return p["name"] if p["name"][:1].isupper() else "_"
    if k in ("PRef", "PType"):
        return pat_variant(p["pat"])
    return None


def line(n):
    return n["sp"][0]
