"""Program model over the gfacts JSON: functions, CFGs, dominators, call graph."""
import re
from collections import defaultdict, deque


_PROMOTED = re.compile(r"promoted\[(\d+)\]")


def place_key(p):
    """Hashable, printable form of a place."""
    parts = ["_%d" % p["l"]]
    for e in p["p"]:
        if e == "deref":
            parts.append("*")
        elif isinstance(e, str):
            parts.append(e)
        elif "name" in e:
            parts.append("." + e["name"])
        elif "index" in e:
            parts.append("[_%d]" % e["index"])
        elif "cindex" in e:
            parts.append("[%s%d]" % ("-" if e["from_end"] else "", e["cindex"]))
        elif "subslice" in e:
            parts.append("[%d..%s%d]" % (e["subslice"], "-" if e["from_end"] else "", e["to"]))
        elif "downcast" in e:
            parts.append("as " + e["downcast"])
    return " ".join(parts)


def op_place(op):
    if isinstance(op, dict):
        return op.get("copy") or op.get("move")
    return None


def op_const(op):
    if isinstance(op, dict) and "const" in op:
        return op["const"]
    return None


def is_bare_local(p):
    return p is not None and not p["p"]


class Func:
    def __init__(self, j):
        self.j = j
        self.path = j["path"]
        self.kind = j["kind"]
        self.span = j["span"]
        self.blocks = j["blocks"]
        self.locals = j["locals"]
        self.argc = j["argc"]
        self.closure_of = j.get("closure_of")
        self.closure_parent = j.get("closure_parent")
        self.impl_trait = j.get("impl_trait")
        self.impl_self = j.get("impl_self")
        self.default_of_trait = j.get("default_of_trait")
        self.name = j.get("name")
        self.n = len(self.blocks)
        self._succ = None
        self._pred = None
        self._idom = None
        self._ipdom = None
        self._defs = None
        self._rpo = None

    # -- names
    def local_name(self, l):
        return self.locals[l].get("name")

    def local_ty(self, l):
        return self.locals[l]["ty"]

    def loc(self, span=None):
        s = span or self.span
        return "%s:%d" % (s["file"], s["line"])

    # -- CFG (normal edges only; unwind edges and cleanup blocks are ignored)
    def term_succ(self, t):
        k = t["t"]
        if k == "goto":
            return [t["target"]]
        if k == "switch":
            return [b for _, b in t["targets"]] + [t["otherwise"]]
        if k in ("drop", "assert"):
            return [t["target"]]
        if k == "call":
            return [t["target"]] if t["target"] is not None else []
        return []

    @property
    def succ(self):
        if self._succ is None:
            self._succ = []
            for b in self.blocks:
                if b["cleanup"]:
                    self._succ.append([])
                else:
                    s = []
                    for x in self.term_succ(b["term"]):
                        if x not in s:
                            s.append(x)
                    self._succ.append(s)
        return self._succ

    @property
    def pred(self):
        if self._pred is None:
            self._pred = [[] for _ in range(self.n)]
            for a, ss in enumerate(self.succ):
                for b in ss:
                    self._pred[b].append(a)
        return self._pred

    @property
    def rpo(self):
        if self._rpo is None:
            seen = [False] * self.n
            order = []
            stack = [(0, iter(self.succ[0]))]
            seen[0] = True
            while stack:
                node, it = stack[-1]
                adv = False
                for s in it:
                    if not seen[s]:
                        seen[s] = True
                        stack.append((s, iter(self.succ[s])))
                        adv = True
                        break
                if not adv:
                    order.append(node)
                    stack.pop()
            order.reverse()
            self._rpo = order
        return self._rpo

    def reachable_blocks(self):
        return set(self.rpo)

    @staticmethod
    def _dominators(n, entry_list, succ, pred):
        """Cooper-Harvey-Kennedy. entry_list: roots (a virtual root is added when >1)."""
        # build order
        VROOT = n
        succ2 = [list(s) for s in succ] + [list(entry_list)]
        pred2 = [list(p) for p in pred] + [[]]
        for e in entry_list:
            pred2[e] = pred2[e] + [VROOT]
        seen = [False] * (n + 1)
        order = []
        stack = [(VROOT, iter(succ2[VROOT]))]
        seen[VROOT] = True
        while stack:
            node, it = stack[-1]
            adv = False
            for s in it:
                if not seen[s]:
                    seen[s] = True
                    stack.append((s, iter(succ2[s])))
                    adv = True
                    break
            if not adv:
                order.append(node)
                stack.pop()
        order.reverse()
        num = {b: i for i, b in enumerate(order)}
        idom = {VROOT: VROOT}

        def inter(a, b):
            while a != b:
                while num[a] > num[b]:
                    a = idom[a]
                while num[b] > num[a]:
                    b = idom[b]
            return a

        changed = True
        while changed:
            changed = False
            for b in order[1:]:
                new = None
                for p in pred2[b]:
                    if p in idom:
                        new = p if new is None else inter(p, new)
                if new is not None and idom.get(b) != new:
                    idom[b] = new
                    changed = True
        return idom, VROOT

    @property
    def idom(self):
        if self._idom is None:
            self._idom, self._vroot = self._dominators(self.n, [0], self.succ, self.pred)
        return self._idom

    def dominates(self, a, b):
        """block a dominates block b (reflexive)."""
        idom = self.idom
        if b not in idom:
            return False
        while True:
            if a == b:
                return True
            nb = idom[b]
            if nb == b or nb == self._vroot:
                return a == nb
            b = nb

    def exits(self):
        """blocks ending the function normally (return) -- diverging blocks are not exits."""
        r = self.reachable_blocks()
        return [i for i in r if self.blocks[i]["term"]["t"] == "return"]

    def dead_ends(self):
        r = self.reachable_blocks()
        return [i for i in r if not self.succ[i] and self.blocks[i]["term"]["t"] != "return"]

    @property
    def ipdom(self):
        if self._ipdom is None:
            roots = self.exits() + self.dead_ends()
            self._ipdom, self._pvroot = self._dominators(self.n, roots, self.pred, self.succ)
        return self._ipdom

    def postdominates(self, a, b):
        ip = self.ipdom
        if b not in ip:
            return False
        while True:
            if a == b:
                return True
            nb = ip[b]
            if nb == b or nb == self._pvroot:
                return False
            b = nb

    # -- definitions of locals
    @property
    def defs(self):
        """local -> list of (bb, stmt_index or 'term', rvalue-or-call)"""
        if self._defs is None:
            d = defaultdict(list)
            for bi, b in enumerate(self.blocks):
                for si, s in enumerate(b["stmts"]):
                    if s["s"] == "assign":
                        d[s["place"]["l"]].append((bi, si, s))
                t = b["term"]
                if t["t"] == "call":
                    d[t["dest"]["l"]].append((bi, "term", t))
            self._defs = d
        return self._defs

    def single_def(self, l):
        """The only whole-local definition of l, or None."""
        ds = [x for x in self.defs.get(l, []) if (x[1] == "term" and not x[2]["dest"]["p"]) or
              (x[1] != "term" and not x[2]["place"]["p"])]
        alld = self.defs.get(l, [])
        if len(ds) == 1 and len(alld) == 1:
            return ds[0]
        return None

    SEE_THROUGH = ("::deref", "::deref_mut", "::as_ref", "::as_mut", "::borrow", "::as_str", "::as_slice",
                   "::as_path", "::as_mut_slice")

    def root_of(self, op, depth=24, through_named=False, through_deref_calls=True):
        """Resolve an operand through single-definition temporaries, composing projections.
        `_4 = &(*_3); _3 = &((*_5).1); _5 = copy (*_2)`  resolves _4 to the place (*_2).1.
        Smart-pointer accessor calls (Deref::deref, as_ref, ...) are looked through when the
        result is only dereferenced. Stops at arguments, at named locals (unless through_named),
        at constants, calls and non-trivial rvalues.
        Returns ('place', place) | ('const', c) | ('call', bb, term) | ('rv', bb, si, stmt) | ('unknown', op)."""
        c = op_const(op)
        if c is not None:
            return ("const", c)
        p = op_place(op)
        if p is None:
            return ("unknown", op)
        cur = {"l": p["l"], "p": list(p["p"])}
        for _ in range(depth):
            l = cur["l"]
            if l <= self.argc or (self.local_name(l) and not through_named):
                return ("place", cur)
            d = self.single_def(l)
            if d is None:
                return ("place", cur)
            bi, si, st = d
            if si == "term":
                n = callee_name(st) or ""
                if through_deref_calls and st["args"] and n.endswith(self.SEE_THROUGH) and cur["p"] and cur["p"][0] == "deref":
                    a = st["args"][0]
                    ap = op_place(a)
                    if ap is None:
                        return ("call", bi, st)
                    # the accessor returns a reference into its argument's referent
                    cur = {"l": ap["l"], "p": list(ap["p"]) + cur["p"]}
                    continue
                if cur["p"]:
                    return ("place", cur)
                return ("call", bi, st)
            rv = st["rv"]
            if rv["k"] == "use":
                c = op_const(rv["a"])
                if c is not None:
                    # a reference to a promoted constant: look its literal up
                    m = _PROMOTED.search(c.get("text", "")) if "text" in c else None
                    if m is not None:
                        lits = self.j.get("promoted", [])
                        i = int(m.group(1))
                        if i < len(lits) and len(lits[i]) == 1 and all(e == "deref" for e in cur["p"]):
                            return ("const", lits[i][0])
                    if cur["p"] and not ("s" in c and all(e == "deref" for e in cur["p"])):
                        return ("place", cur)
                    return ("const", c)
                q = op_place(rv["a"])
                if q is None:
                    return ("place", cur)
                cur = {"l": q["l"], "p": list(q["p"]) + cur["p"]}
                continue
            if rv["k"] == "ref" or rv["k"] == "rawptr":
                q = rv["place"]
                if cur["p"] and cur["p"][0] == "deref":
                    cur = {"l": q["l"], "p": list(q["p"]) + cur["p"][1:]}
                elif not cur["p"]:
                    # the reference value itself: reference-insensitive, stands for the place
                    cur = {"l": q["l"], "p": list(q["p"])}
                else:
                    return ("place", cur)
                continue
            if rv["k"] == "cast" and (rv["ck"].startswith("PointerCoercion") or rv["ck"] == "Transmute"):
                q = op_place(rv["a"])
                if q is None:
                    return ("place", cur)
                cur = {"l": q["l"], "p": list(q["p"]) + cur["p"]}
                continue
            if cur["p"]:
                return ("place", cur)
            return ("rv", bi, si, st)
        return ("place", cur)

    def field_path(self, place):
        """names of the named fields along a place (derefs/downcasts skipped)."""
        return [e.get("name") for e in place["p"] if isinstance(e, dict) and "name" in e]

    def calls(self):
        for bi, b in enumerate(self.blocks):
            t = b["term"]
            if t["t"] == "call":
                yield bi, t


def callee_name(t):
    """Best path for a call terminator: resolved if known, else declared path."""
    c = t.get("callee")
    if not c:
        return None
    return c.get("resolved") or c["path"]


_GENERIC = re.compile(r"::<[^<>]*(?:<[^<>]*(?:<[^<>]*>[^<>]*)*>[^<>]*)*>")


def strip_generics(path):
    prev = None
    while prev != path:
        prev = path
        path = _GENERIC.sub("", path)
    return path


class Program:
    def __init__(self, doc):
        self.doc = doc
        self.funcs = {}
        for j in doc["functions"]:
            f = Func(j)
            self.funcs[f.path] = f
        self.adts = {a["path"]: a for a in doc["adts"]}
        self.impls = doc["impls"]
        # trait method implementations: (trait, method) -> [func paths]
        self.trait_impls = defaultdict(list)
        for f in self.funcs.values():
            if f.impl_trait and f.name:
                self.trait_impls[(f.impl_trait, f.name)].append(f.path)
            if f.default_of_trait and f.name:
                self.trait_impls[(f.default_of_trait, f.name)].append(f.path)
        self._edges = None

    def fn(self, path):
        return self.funcs.get(path)

    def require_fn(self, path):
        f = self.funcs.get(path)
        if f is None:
            raise MissingAnchor("function `%s` not found in the analysed crate" % path)
        return f

    # -- call graph
    def _fn_consts(self, x, out):
        """collect FnDef / closure constants inside an operand/rvalue json."""
        if isinstance(x, dict):
            c = x.get("const")
            if isinstance(c, dict):
                if "fn" in c:
                    out.append(("fn", c["fn"]))
                elif "closure" in c:
                    out.append(("closure", c["closure"]))
            if x.get("k") == "agg" and x.get("ak") == "closure":
                out.append(("closure", x["def"]))
            for v in x.values():
                if isinstance(v, (dict, list)):
                    self._fn_consts(v, out)
        elif isinstance(x, list):
            for v in x:
                self._fn_consts(v, out)

    def edges(self):
        """path -> list of (kind, target_path, bb) with kind in call|ref|closure|cha."""
        if self._edges is not None:
            return self._edges
        E = {}
        for f in self.funcs.values():
            es = []
            for bi, b in enumerate(f.blocks):
                for s in b["stmts"]:
                    if s["s"] == "assign":
                        out = []
                        self._fn_consts(s["rv"], out)
                        for kind, v in out:
                            if kind == "closure":
                                es.append(("closure", v, bi))
                            else:
                                self._callee_edges(v, "ref", bi, es)
                t = b["term"]
                if t["t"] == "call":
                    if "callee" in t:
                        self._callee_edges(t["callee"], "call", bi, es)
                    out = []
                    self._fn_consts(t["args"], out)
                    for kind, v in out:
                        if kind == "closure":
                            es.append(("closure", v, bi))
                        else:
                            self._callee_edges(v, "ref", bi, es)
            E[f.path] = es
        self._edges = E
        return E

    def _callee_edges(self, c, kind, bi, es):
        if c.get("trait") and c.get("self_ty"):
            es.append(("live", (c["trait"], c["self_ty"].lstrip("&").replace("mut ", "")), bi))
        r = c.get("resolved")
        if r and c.get("kind") != "virtual":
            if r in self.funcs:
                es.append((kind, r, bi))
            return
        # unresolved (generic Self) or virtual: class-hierarchy fallback over local impls
        tr, m = c.get("trait"), c.get("method")
        if tr and m:
            for tp in self.trait_impls.get((tr, m), []):
                es.append(("cha", tp, bi))
        elif c["path"] in self.funcs:
            es.append((kind, c["path"], bi))

    def reachable(self, roots, rta=True, stop=()):
        """Functions reachable from roots. With rta=True a class-hierarchy edge into an
        `impl Trait for T` method is followed only if some function already reachable makes a
        resolved call/reference into an impl of that trait for T (or T's impl is the caller's)."""
        E = self.edges()
        seen = {}
        live_impls = set()
        pending_cha = []
        dq = deque()
        for r in roots:
            if r in self.funcs and r not in seen:
                seen[r] = None
                dq.append(r)

        def note_impl(p):
            f = self.funcs[p]
            if f.impl_trait:
                k = (f.impl_trait, f.impl_self)
                if k not in live_impls:
                    live_impls.add(k)
                    return True
            return False

        for r in list(seen):
            note_impl(r)
        while dq:
            cur = dq.popleft()
            if cur in stop:
                continue
            for kind, tgt, bi in E.get(cur, []):
                if kind == "live":
                    if tgt not in live_impls:
                        live_impls.add(tgt)
                        still = []
                        for (c2, t2) in pending_cha:
                            tf = self.funcs[t2]
                            if (tf.impl_trait, tf.impl_self) in live_impls and t2 not in seen:
                                seen[t2] = c2
                                dq.append(t2)
                            elif t2 not in seen:
                                still.append((c2, t2))
                        pending_cha = still
                    continue
                if tgt in seen:
                    continue
                if kind == "cha" and rta:
                    tf = self.funcs[tgt]
                    if tf.impl_trait and (tf.impl_trait, tf.impl_self) not in live_impls:
                        pending_cha.append((cur, tgt))
                        continue
                seen[tgt] = cur
                dq.append(tgt)
                if note_impl(tgt):
                    # re-examine pending CHA edges
                    still = []
                    for (c2, t2) in pending_cha:
                        tf = self.funcs[t2]
                        if (tf.impl_trait, tf.impl_self) in live_impls and t2 not in seen:
                            seen[t2] = c2
                            dq.append(t2)
                            note_impl(t2)
                        elif t2 not in seen:
                            still.append((c2, t2))
                    pending_cha = still
        return seen

    def call_path(self, seen, target):
        """one call path root -> target from a `reachable` result."""
        p = [target]
        while seen.get(p[-1]) is not None:
            p.append(seen[p[-1]])
            if len(p) > 200:
                break
        p.reverse()
        return p


class MissingAnchor(Exception):
    pass
