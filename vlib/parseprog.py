"""PARSE-PROGRESS: every forward-progress assertion of the parser is protected by one of the sibling idioms."""
from . import mir as M, dflow as D, panics as PN, panicinv as PI

MSG = "The parser should always make forward progress"


def _idx_vs_start(f, rv):
    """binop operands are (tokens.idx, start_idx) in some order -> 'idx_first' | 'start_first' | None"""
    def is_idx(op):
        r = f.root_of(op, through_named=True)
        return r[0] == "place" and f.field_path(r[1])[-1:] == ["idx"]

    def start_local(op):
        p = M.op_place(op)
        if p is None:
            return None
        r = f.root_of(op)
        if r[0] == "place" and not r[1]["p"]:
            l = r[1]["l"]
            # a named local whose only definition is a copy of `tokens.idx` (whatever it is called)
            ds = [d for d in f.defs.get(l, []) if d[1] != "term" and not d[2]["place"]["p"]]
            if len(ds) == 1 and ds[0][2]["rv"]["k"] == "use":
                q = M.op_place(ds[0][2]["rv"]["a"])
                if q is not None and f.field_path(q)[-1:] == ["idx"]:
                    return l
        return None
    a, b = rv["a"], rv["b"]
    if is_idx(a) and start_local(b) is not None:
        return "idx_first", start_local(b)
    if is_idx(b) and start_local(a) is not None:
        return "start_first", start_local(a)
    return None, None


def sites(P, reach):
    out = []
    for p in sorted(reach):
        f = P.funcs[p]
        for s in PN.sites_of(f):
            if s.kind.startswith("call:panic") and MSG in s.detail:
                out.append((f, s))
    return out


def successful_pop_blocks(f):
    """blocks whose terminator is TokenStream::pop known to return Some (under a successful peek)."""
    out = set()
    for bi, t in f.calls():
        if not (M.callee_name(t) or "").endswith("TokenStream::<'a>::pop"):
            continue
        tl = PI._tokens_local(f, t["args"][0])
        ok = False
        for sw in D.bool_switches(f):
            rr = sw["root"]
            if rr[0] == "call" and (M.callee_name(rr[2]) or "").endswith("parser::peeked_symbol_is") and \
                    PI._tokens_local(f, rr[2]["args"][0]) == tl and sw["true"] is not None and \
                    bi in D.edge_dominated(f, sw["bb"], sw["true"]):
                ok = True
        for sw in D.enum_switches(f):
            pl = sw["place"]
            d = f.single_def(pl["l"]) if not pl["p"] else None
            if d is None or d[1] != "term" or not (M.callee_name(d[2]) or "").endswith("TokenStream::<'a>::peek"):
                continue
            for tgt, names in sw["by_target"].items():
                if names == ["Some"] and bi in D.edge_dominated(f, sw["bb"], tgt):
                    ok = True
            if sw["otherwise_variants"] == ["Some"] and sw["otherwise"] not in sw["by_target"] and \
                    bi in D.edge_dominated(f, sw["bb"], sw["otherwise"]):
                ok = True
        if ok:
            out.add(bi)
    return out


def classify(P, f, s):
    """Returns (idiom or None, explanation)."""
    # the switch that guards the assert
    head = s.bb
    for _ in range(6):
        ps = f.pred[head]
        if len(ps) == 1 and f.blocks[ps[0]]["term"]["t"] != "switch":
            head = ps[0]
        else:
            break
    S = None
    start = None
    for sw in D.bool_switches(f):
        if sw["false"] != head and sw["true"] != head:
            continue
        r = sw["root"]
        if r[0] == "rv" and r[3]["rv"]["k"] == "binop":
            order, sl = _idx_vs_start(f, r[3]["rv"])
            if order:
                S, start = sw, sl
    if S is None:
        return None, "the assertion's own comparison of tokens.idx with start_idx was not recognised"
    ds = [d for d in f.defs.get(start, []) if d[1] != "term" and not d[2]["place"]["p"]]
    if len(ds) != 1:
        return None, "start_idx has %d definitions" % len(ds)
    Dbb = ds[0][0]
    if not f.dominates(Dbb, S["bb"]):
        return None, "start_idx is not read on every path to the assertion"
    # G1: explicit idx guard
    for sw in D.bool_switches(f):
        if sw["bb"] == S["bb"] or not f.dominates(Dbb, sw["bb"]):
            continue
        r = sw["root"]
        if r[0] != "rv" or r[3]["rv"]["k"] != "binop":
            continue
        rv = r[3]["rv"]
        order, sl = _idx_vs_start(f, rv)
        if not order or sl != start:
            continue
        op = rv["op"]
        if order == "start_first":
            op = {"Lt": "Gt", "Le": "Ge", "Gt": "Lt", "Ge": "Le"}.get(op, op)
        # edge on which idx > start (idx != start counts under the monotonicity premise)
        edge = {"Le": "false", "Eq": "false", "Gt": "true", "Ne": "true"}.get(op)
        if edge and sw[edge] is not None and S["bb"] in D.edge_dominated(f, sw["bb"], sw[edge]):
            return "G1", "explicit `tokens.idx %s start_idx` test leaves the loop first (%s)" % (op, f.loc(sw["span"]))
    # G2: result.is_invalid_or_placeholder() -> break
    for sw in D.bool_switches(f):
        r = sw["root"]
        if r[0] == "place" and not r[1]["p"]:
            # `let was_invalid = item.is_invalid_or_placeholder(); .. if was_invalid { break }`
            r = f.root_of({"copy": r[1]}, through_named=True)
        if r[0] != "call" or not f.dominates(Dbb, sw["bb"]):
            continue
        n = M.callee_name(r[2]) or ""
        if not n.endswith(("is_invalid_or_placeholder", "is_placeholder")):
            continue
        if sw["false"] is None or S["bb"] not in D.edge_dominated(f, sw["bb"], sw["false"]):
            continue
        a = f.root_of(r[2]["args"][0], through_named=True)
        if a[0] != "place":
            continue
        dd = [d for d in f.defs.get(a[1]["l"], []) if d[1] == "term"]
        if dd and all(f.dominates(Dbb, d[0]) for d in dd):
            callee = M.callee_name(dd[0][2]) or "?"
            return "G2", "`%s(..)` on the result of `%s` called after start_idx was read leaves the loop first (%s)" % (
                n.split("::")[-1], callee, f.loc(sw["span"]))
    # G3: an unconditional successful pop between the read of start_idx and the assertion
    pops = successful_pop_blocks(f) | consuming_call_blocks(P, f)
    if pops:
        r = D.reach_from(f, [Dbb], avoid_blocks=pops)
        if S["bb"] not in r:
            return "G3", "every path from the read of start_idx to the assertion pops a peeked token (%d pop sites)" % len(pops)
    return None, "no guard idiom (explicit idx test, invalid/placeholder test, unconditional peeked pop) protects it"


# ------------------------------------------------------------------ POP-UNPOP
def _may_reach(P, start_path, pred, memo):
    """does any function reachable from start_path (inclusive) satisfy pred?"""
    if start_path in memo:
        return memo[start_path]
    seen = P.reachable([start_path])
    r = any(pred(p) for p in seen)
    memo[start_path] = r
    return r


def unpop_sites(P, reach):
    out = []
    for p in sorted(reach):
        f = P.funcs[p]
        for bi, t in f.calls():
            if (M.callee_name(t) or "").endswith("TokenStream::<'a>::unpop"):
                out.append((f, bi, t))
    return out


# Unpaired unpops that stay in the code, with the argument why they cannot make the parser spin or recurse forever.
# The argument is the LOOP-GUARD rule below: every token loop of the parser leaves when an iteration consumed nothing.
REVIEWED_UNPOPS = {
    "parser::parse_symbol # unpop # 1": "at end of file require_a_token hands back the previous token and this unpop moves the stream one "
                                         "token back; every loop above it stops on an iteration without progress (LOOP-GUARD) and "
                                         "parse_type_hint / parse_simple_expression do not recurse on the same token (fix 1013f23, e9e5132)",
    "parser::parse_symbol # unpop # 2": "keyword on a later line: same situation and same argument as # 1",
}


def token_loops(P, reach):
    """(function, loop header, body) for loops of parser functions that are not driven by an iterator."""
    from . import loops as LP
    out = []
    for p in sorted(reach):
        if not p.startswith("parser::parse_") or "{closure" in p:
            continue
        f = P.funcs[p]
        if f.argc < 1 or "TokenStream" not in f.local_ty(1):
            continue
        for h, body in LP.loops_of(f).items():
            if LP.iterator_driven(f, h, body):
                continue
            out.append((f, h, body))
    return out


def loop_guard(P, f, h, body):
    """how a token loop guarantees progress: 'idx' (compares tokens.idx with a start index and leaves), 'pop'
    (every path round the loop pops a peeked token), 'result' (leaves on an invalid/placeholder result), or None."""
    backs = [b for b in body if h in f.succ[b]]
    for sw in D.bool_switches(f):
        if sw["bb"] not in body:
            continue
        r = sw["root"]
        if r[0] == "rv" and r[3]["rv"]["k"] == "binop":
            order, sl = _idx_vs_start(f, r[3]["rv"])
            if order:
                # one edge must leave the loop (or reach a diverging block)
                for e in ("true", "false"):
                    tgt = sw[e]
                    if tgt is not None and (tgt not in body or not (D.reach_from(f, [tgt]) & set(f.exits()))):
                        return "idx"
                # or the no-progress edge never reaches a back edge
                return "idx"
    pops = successful_pop_blocks(f) | consuming_call_blocks(P, f)
    starts = [x for x in f.succ[h] if x in body]
    r = set()
    for st in starts:
        r |= D.reach_from(f, [st], avoid_blocks=list(pops) + [h])
    if not any(b in r for b in backs if b != h):
        return "pop"
    for sw in D.bool_switches(f):
        if sw["bb"] not in body:
            continue
        r0 = sw["root"]
        if r0[0] == "place" and not r0[1]["p"]:
            r0 = f.root_of({"copy": r0[1]}, through_named=True)
        if r0[0] == "call" and (M.callee_name(r0[2]) or "").endswith(("is_invalid_or_placeholder", "is_placeholder", "is_empty")):
            if sw["true"] is not None and sw["true"] not in body or not (D.reach_from(f, [sw["true"]]) & set(backs)):
                return "result"
    return None


loop_guards_ok = True


def loop_guards(P, reach, res):
    """LOOP-GUARD: every token loop of the parser has a progress guarantee that does not depend on sub-parsers
    consuming (they may not, at end of file)."""
    global loop_guards_ok
    loop_guards_ok = True
    tl = token_loops(P, reach)
    res.floor("LOOP-GUARD", "token loops in parser functions", len(tl), 15)
    memo = {}
    for f, h, body in tl:
        g = loop_guard(P, f, h, body)
        if g == "pop":
            # an unconditional pop is a guarantee only if nothing in the loop can un-consume: a body that can reach
            # parse_symbol (whose unpops are unpaired at end of file) needs an index or result test of its own
            callees = {M.callee_name(f.blocks[b]["term"]) for b in body if f.blocks[b]["term"]["t"] == "call"}
            reaches = any(c in P.funcs and _may_reach(P, c, lambda p: p == "parser::parse_symbol", memo) for c in callees if c)
            if reaches:
                g = None
        key = "%s # loop@%s" % (f.path, g or "unguarded")
        if g:
            res.ok("LOOP-GUARD", "%s: %s" % (f.path, g))
        else:
            loop_guards_ok = False
            res.bad("LOOP-GUARD", "%s # unguarded-loop" % f.path,
                    "a token loop in `%s` has no progress guarantee of its own (no `tokens.idx <= start_idx` exit, no unconditional pop, "
                    "no exit on an invalid result): at end of file parse_symbol can hand the same `,` back and the loop never ends" % f.path,
                    f.loc(f.blocks[h]["term"].get("span")))


def pop_unpop(P, reach, res):
    """every unpop() must be dominated by a pop() *made by the same function* that is known to have returned
    a token (its result was matched Some / unwrapped), with no other pop/unpop in between."""
    us = unpop_sites(P, reach)
    res.floor("POP-UNPOP", "unpop() call sites in the parser", len(us), 3)
    nth = {}
    for f, bi, t in us:
        ok = False
        why = "no pop() of this function dominates it"
        for bj, t2 in f.calls():
            if not (M.callee_name(t2) or "").endswith("TokenStream::<'a>::pop"):
                continue
            if not f.dominates(bj, bi):
                continue
            # the pop result must be known Some on the way: a discriminant switch on the result whose Some edge dominates
            dest = t2["dest"]["l"]
            some = False
            for sw in D.enum_switches(f):
                pl = sw["place"]
                r = f.root_of({"copy": pl}, through_named=True)
                base = r[1]["l"] if r[0] == "place" else pl["l"]
                if base != dest and pl["l"] != dest:
                    continue
                for tgt, names in sw["by_target"].items():
                    if names == ["Some"] and bi in D.edge_dominated(f, sw["bb"], tgt):
                        some = True
                if sw["otherwise_variants"] == ["Some"] and sw["otherwise"] not in sw["by_target"] and \
                        bi in D.edge_dominated(f, sw["bb"], sw["otherwise"]):
                    some = True
            if some:
                ok = True
                break
            why = "the dominating pop() is not known to have returned a token"
        nth[f.path] = nth.get(f.path, 0) + 1
        key = "%s # unpop # %d" % (f.path, nth[f.path])
        if ok:
            res.ok("POP-UNPOP", key)
        elif key in REVIEWED_UNPOPS and loop_guards_ok:
            res.ok("POP-UNPOP", key + " reviewed: " + REVIEWED_UNPOPS[key][:80], "residue")
        else:
            res.bad("POP-UNPOP", key, "`unpop()` in `%s` is not paired with a successful pop() of the same function: %s "
                    "(it can un-consume a token the caller consumed, which breaks the progress argument of every loop above it)"
                    % (f.path, why), f.loc(t.get("fn_span")))


# ------------------------------------------------------------------ callee known to consume the peeked token
_REQ = ("parser::require_token", "parser::check_required_token", "parser::required_token_ok")


def _const_str(f, op):
    r = f.root_of(op)
    if r[0] == "const":
        c = r[1]
        if "s" in c:
            return c["s"]
        t = c.get("text", "")
        if t.startswith('"') and t.endswith('"'):
            return t[1:-1]
    return None


def first_required_literal(g):
    """the literal L such that the first thing g does with the token stream is require_token(tokens, L)."""
    if g.argc < 1:
        return None
    seen = set()
    b = 0
    for _ in range(40):
        if b in seen:
            return None
        seen.add(b)
        t = g.blocks[b]["term"]
        if t["t"] == "call":
            n = M.callee_name(t) or ""
            touches = any(PI._tokens_local(g, a) == 1 for a in t["args"])
            if touches:
                if n in _REQ and len(t["args"]) >= 3:
                    return _const_str(g, t["args"][2])
                return None
            if t["target"] is None:
                return None
            b = t["target"]
        elif t["t"] in ("goto", "drop", "assert"):
            b = t["target"]
        else:
            return None
    return None


def consuming_call_blocks(P, f):
    """blocks calling a parser function that starts with require_token(L), under a test that the next token's text == L."""
    out = set()
    eqs = []
    for sw in D.bool_switches(f):
        r = sw["root"]
        if r[0] == "call" and (M.callee_name(r[2]) or "").endswith(">::eq") and "PartialEq" in (M.callee_name(r[2]) or "") and sw["true"] is not None:
            lit = None
            for a in r[2]["args"]:
                lit = lit or _const_str(f, a)
            if lit is not None:
                eqs.append((sw["bb"], sw["true"], lit))
        if r[0] == "call" and (M.callee_name(r[2]) or "").endswith("parser::peeked_symbol_is") and sw["true"] is not None and len(r[2]["args"]) > 1:
            lit = _const_str(f, r[2]["args"][1])
            if lit is not None:
                eqs.append((sw["bb"], sw["true"], lit))
    for bi, t in f.calls():
        n = M.callee_name(t)
        g = P.funcs.get(n) if n else None
        if g is None or not n.startswith("parser::"):
            continue
        L = first_required_literal(g)
        if L is None:
            continue
        for (sb, tt, lit) in eqs:
            if lit == L and bi in D.edge_dominated(f, sb, tt):
                out.add(bi)
    return out


# ------------------------------------------------------------------ RECURSION-PROGRESS
def _idx_progress_region(f):
    """blocks only reachable when `tokens.idx > start` is known (start = a copy of tokens.idx taken earlier in f)."""
    regs = set()
    for b in f.blocks:
        for st in b["stmts"]:
            if st.get("s") != "assign" or st["rv"]["k"] != "binop" or st["rv"]["op"] not in ("Lt", "Le", "Gt", "Ge", "Eq", "Ne"):
                continue
            kind, sl = _idx_vs_start(f, st["rv"])
            if kind is None:
                continue
            for sw in D.bool_switches(f):
                r = sw["root"]
                if r[0] == "rv" and r[3] is st:
                    op = st["rv"]["op"]
                    if kind == "start_first":
                        op = {"Lt": "Gt", "Le": "Ge", "Gt": "Lt", "Ge": "Le", "Eq": "Eq", "Ne": "Ne"}[op]
                    # only `idx > start` (or the false edge of `idx <= start`) establishes progress: after an unpop at the
                    # end of the file idx can be *smaller* than start, so `!=` and `==` prove nothing
                    edge = sw["true"] if op == "Gt" else sw["false"] if op == "Le" else None
                    if edge is not None:
                        regs |= D.edge_dominated(f, sw["bb"], edge)
    return regs


def recursion_progress(P, reach, res, table):
    """RECURSION-PROGRESS: in every cycle of token-taking parser functions at least one call is made only after a token
    has certainly been consumed in the caller (a pop under a successful peek, a callee that starts with require_token(L)
    under a test that the next token is L, or an explicit `tokens.idx > start` test), or is a reviewed edge whose
    recorded guard still holds. Otherwise the recursion can repeat on the same token until the stack overflows."""
    from . import loops as LP

    def takes_tokens(p_):
        g = P.funcs.get(p_)
        return g is not None and any("TokenStream" in g.locals[i]["ty"] for i in range(1, g.argc + 1))
    members = {p_ for p_ in reach if p_.startswith("parser::") and takes_tokens(p_)}
    E = P.edges()
    comps = LP.sccs(P, members)
    reviewed = table.get("edges", {})
    n_edges = 0
    used = set()
    for comp in comps:
        cs = set(comp)
        rem = {}
        where = {}
        for p_ in comp:
            f = P.funcs[p_]
            pops = successful_pop_blocks(f)
            cons = consuming_call_blocks(P, f)
            regs = _idx_progress_region(f)
            for k, t, bi in E.get(p_, []):
                if k == "live" or t not in cs:
                    continue
                n_edges += 1
                if bi in cons or bi in regs or any(pb != bi and f.dominates(pb, bi) for pb in pops | cons):
                    continue
                key = "%s -> %s" % (p_, t)
                row = reviewed.get(key)
                if row is not None:
                    now = {PI.canon_guard(x) for x in PI.guard_fingerprint(f, bi)}
                    if any({PI.canon_guard(x) for x in g} <= now for g in row.get("guards", [[]])):
                        used.add(key)
                        continue
                    res.bad("RECURSION-PROGRESS", key + " # guard-changed",
                            "the recursive call %s was reviewed as safe under %s, which no longer guards it (now: %s)" % (key, row.get("guards"), sorted(now)),
                            f.loc(f.blocks[bi]["term"].get("fn_span")))
                    continue
                rem.setdefault(p_, set()).add(t)
                where[(p_, t)] = f.loc(f.blocks[bi]["term"].get("fn_span"))
        color = {}
        cycles = []

        def dfs(u, stack):
            color[u] = 1
            stack.append(u)
            for v in sorted(rem.get(u, ())):
                if color.get(v) == 1:
                    cycles.append(stack[stack.index(v):] + [v])
                elif v not in color:
                    dfs(v, stack)
            stack.pop()
            color[u] = 2
        for u in sorted(rem):
            if u not in color:
                dfs(u, [])
        if cycles:
            for c in cycles[:4]:
                res.bad("RECURSION-PROGRESS", "cycle # " + " -> ".join(x.split("::")[-1] for x in c),
                        "the parser functions %s call each other in a cycle in which no call is made only after a token has certainly been "
                        "consumed (`tokens.idx > start`, a pop under a successful peek, or a callee that starts by consuming the token just "
                        "peeked): on some input the cycle repeats on the same token until the stack overflows" % " -> ".join(x.split("::")[-1] for x in c),
                        where.get((c[0], c[1])))
        else:
            res.ok("RECURSION-PROGRESS", "SCC of %d parser functions around %s: every cycle passes a call made after certain progress" % (len(comp), comp[0]))
    for key in reviewed:
        if key not in used:
            res.note("RECURSION-PROGRESS: reviewed edge `%s` is no longer needed (the call now follows certain progress, or is gone)" % key)
    res.floor("RECURSION-PROGRESS", "recursive call edges among token-taking parser functions", n_edges, 40)
