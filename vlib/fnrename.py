"""Tolerance for renamed / moved functions.

Rules and reviewed tables name functions by path (`eval::eval_break`, `parser::parse_symbol # unpop # 1`). Renaming a
private function, or moving it to another module, changes no behaviour but would make every such anchor miss. At review
time `tools/fill_fn_shapes.py` records a name-free shape hash of every function of the crate (`tables/fn_shapes.json`).
At check time a function that the table knows but the tree no longer has is looked for among the functions the table
does not know: if exactly one of them has the same shape (signature types, number of blocks, external callees, number
of local calls, string constants, panic-site kinds), the facts are rewritten so that the function is analysed under its
reviewed name, and the evidence says so. A function that was renamed *and* changed has a different shape and is not
matched: its anchors then fail closed, as before.
"""
import hashlib, json, os, re

_CLOS = re.compile(r"\{closure@[^}]*\}")
_CLOSN = re.compile(r"\{closure#\d+\}")


def _strip(ty, own):
    t = _CLOS.sub("{closure}", ty)
    if own:
        t = t.replace(own, "<self>")
    return t


def shape(j):
    own = j["path"].split("::{closure")[0]
    argc = j.get("argc", 0)
    sig = [_strip(l["ty"], own) for l in j["locals"][:argc + 1]]
    ext, nloc, consts, asserts, switches = [], 0, [], [], 0
    for b in j["blocks"]:
        t = b["term"]
        if t["t"] == "call":
            c = t.get("callee") or {}
            if c.get("rlocal") or c.get("local"):
                nloc += 1
            else:
                ext.append(c.get("resolved") or c.get("path") or "?")
            for a in t.get("args", []):
                cc = a.get("const") if isinstance(a, dict) else None
                if isinstance(cc, dict) and "s" in cc:
                    consts.append(cc["s"])
        elif t["t"] == "assert":
            asserts.append(t.get("ak"))
        elif t["t"] == "switch":
            switches += 1
    doc = [sig, len(j["blocks"]), sorted(ext), nloc, sorted(consts), sorted(str(a) for a in asserts), switches]
    return hashlib.sha1(json.dumps(doc).encode()).hexdigest()[:16]


def build_table(doc):
    return {j["path"]: shape(j) for j in doc["functions"] if "{closure" not in j["path"]}


def _module(p):
    return p.rsplit("::", 1)[0] if "::" in p else ""


def _short(p):
    return p.rsplit("::", 1)[-1]


def aliases(doc, table):
    """{new path: reviewed path} for functions that only changed their name or module."""
    now = {j["path"]: j for j in doc["functions"] if "{closure" not in j["path"]}
    missing = [p for p in table if p not in now]
    if not missing:
        return {}
    fresh = {p: shape(j) for p, j in now.items() if p not in table}
    if not fresh:
        return {}
    by_shape = {}
    for p, h in fresh.items():
        by_shape.setdefault(h, []).append(p)
    out = {}
    taken = set()
    for old in sorted(missing):
        cands = [p for p in by_shape.get(table[old], []) if p not in taken]
        rivals = [o for o in missing if o != old and table[o] == table[old]]
        if len(cands) > 1 or rivals:
            # several functions of the same shape: accept only a candidate that kept the module or the short name
            pref = [p for p in cands if _module(p) == _module(old) or _short(p) == _short(old)]
            pref_r = [o for o in rivals if any(_module(p) == _module(o) or _short(p) == _short(o) for p in pref)]
            cands = pref if len(pref) == 1 and not pref_r else []
        if len(cands) == 1:
            out[cands[0]] = old
            taken.add(cands[0])
    return out


def _rewrite(x, exact, prefixes):
    if isinstance(x, dict):
        for k, v in x.items():
            if isinstance(v, str):
                nv = exact.get(v)
                if nv is None and "::{closure" in v:
                    for np_, op_ in prefixes:
                        if v.startswith(np_):
                            nv = op_ + v[len(np_):]
                            break
                if nv is None and v.startswith("closure:"):
                    w = v[len("closure:"):]
                    for np_, op_ in prefixes:
                        if w.startswith(np_):
                            nv = "closure:" + op_ + w[len(np_):]
                            break
                if nv is not None:
                    x[k] = nv
            elif isinstance(v, (dict, list)):
                _rewrite(v, exact, prefixes)
    elif isinstance(x, list):
        for i, v in enumerate(x):
            if isinstance(v, str):
                nv = exact.get(v)
                if nv is not None:
                    x[i] = nv
            elif isinstance(v, (dict, list)):
                _rewrite(v, exact, prefixes)


def apply(doc, shape_doc, alias):
    """rewrite the MIR facts (and the names in the syntax facts) so renamed functions carry their reviewed names."""
    if not alias:
        return
    exact = dict(alias)
    prefixes = [(n + "::{closure", o + "::{closure") for n, o in alias.items()]
    for j in doc["functions"]:
        if j["path"] in alias:
            if j.get("name") == _short(j["path"]):
                j["name"] = _short(alias[j["path"]])
        _rewrite(j, exact, prefixes)
    # syntax facts: short names
    local_shorts = {}
    for j in doc["functions"]:
        if "{closure" not in j["path"]:
            local_shorts[_short(j["path"])] = local_shorts.get(_short(j["path"]), 0) + 1
    ren = {}
    for n, o in alias.items():
        if _short(n) != _short(o):
            ren[_short(n)] = _short(o)
    if ren and shape_doc is not None:
        def walk(x):
            if isinstance(x, dict):
                k = x.get("k")
                if k == "Fn" and x.get("name") in ren:
                    x["name"] = ren[x["name"]]
                elif k == "Path" and isinstance(x.get("path"), str):
                    segs = x["path"].split("::")
                    if segs[-1] in ren:
                        segs[-1] = ren[segs[-1]]
                        x["path"] = "::".join(segs)
                elif k == "MethodCall" and x.get("method") in ren:
                    x["method"] = ren[x["method"]]
                for v in x.values():
                    if isinstance(v, (dict, list)):
                        walk(v)
            elif isinstance(x, list):
                for v in x:
                    walk(v)
        walk(shape_doc)


def load_table(verif):
    p = os.path.join(verif, "tables", "fn_shapes.json")
    if not os.path.exists(p):
        return {}
    with open(p) as fh:
        return json.load(fh)
