"""Anchors inside eval::eval (the explicit-stack interpreter loop), located structurally."""
from . import mir as M
from . import dflow as D
from .panics import describe_operand, describe_place


class Loop:
    pass


def locate(P):
    f = P.require_fn("eval::eval")
    L = Loop()
    L.f = f
    # loop head: Vec::pop on <frame>.exprs_to_eval
    pops = []
    for bi, t in f.calls():
        n = M.callee_name(t) or ""
        if n.endswith("Vec::<T, A>::pop") and t["args"]:
            r = f.root_of(t["args"][0])
            if r[0] == "place" and r[1]["p"] and isinstance(r[1]["p"][-1], dict) and r[1]["p"][-1].get("name") == "exprs_to_eval":
                pops.append(bi)
    if len(pops) != 1:
        raise M.MissingAnchor("eval::eval: expected exactly one `exprs_to_eval.pop()` loop head, found %d" % len(pops))
    L.pop_bb = pops[0]
    pt = f.blocks[L.pop_bb]["term"]
    L.pop_dest = pt["dest"]["l"]
    sw_bb = pt["target"]
    sw = f.blocks[sw_bb]["term"]
    if sw["t"] != "switch":
        raise M.MissingAnchor("eval::eval: pop() result is not switched on directly")
    r = f.root_of(sw["discr"])
    if not (r[0] == "rv" and r[3]["rv"]["k"] == "discr" and r[3]["rv"]["place"]["l"] == L.pop_dest):
        raise M.MissingAnchor("eval::eval: switch after pop() is not on the pop result")
    some_v = [v for v, n in r[3]["rv"]["variants"] if n == "Some"][0]
    L.some_bb = None
    for v, b in sw["targets"]:
        if v == some_v:
            L.some_bb = b
    if L.some_bb is None:
        L.some_bb = sw["otherwise"]
    L.pop_switch_bb = sw_bb
    # the step: call eval::eval_expr
    cs = [bi for bi, t in f.calls() if M.callee_name(t) == "eval::eval_expr"]
    if len(cs) != 1:
        raise M.MissingAnchor("eval::eval: expected exactly one call of eval::eval_expr, found %d" % len(cs))
    L.step_bb = cs[0]
    # locals bound from the popped pair
    L.pair_locals = []
    for bi in f.rpo:
        for s in f.blocks[bi]["stmts"]:
            if s["s"] == "assign" and s["rv"]["k"] == "use" and not s["place"]["p"]:
                p = M.op_place(s["rv"]["a"])
                if p and p["l"] == L.pop_dest and p["p"] and isinstance(p["p"][0], dict) and p["p"][0].get("downcast") == "Some":
                    L.pair_locals.append(s["place"]["l"])
    # region between the pop and the step
    L.pre_region = D.reach_from(f, [L.some_bb], avoid_blocks=[L.step_bb])
    L.restore_bbs = [bi for bi, t in f.calls() if M.callee_name(t) == "eval::restore_stack_frame"]
    L.return_bbs = [bi for bi in f.reachable_blocks() if f.blocks[bi]["term"]["t"] == "return"]
    return L


def switches_described(f, region=None):
    out = []
    for bi in f.rpo:
        if region is not None and bi not in region:
            continue
        t = f.blocks[bi]["term"]
        if t["t"] == "switch":
            out.append((bi, describe_operand(f, t["discr"]), t))
    return out


def bool_edges(t):
    """(false_target, true_target) of a bool switch."""
    ft = None
    for v, b in t["targets"]:
        if v == 0:
            ft = b
    return ft, t["otherwise"]


def variant_edge(f, t, name):
    r = f.root_of(t["discr"])
    if r[0] == "rv" and r[3]["rv"]["k"] == "discr" and "variants" in r[3]["rv"]:
        for v, n in r[3]["rv"]["variants"]:
            if n == name:
                for tv, b in t["targets"]:
                    if tv == v:
                        return b
                return t["otherwise"]
    return None


def builds_variant(f, blocks, variant):
    for bi in blocks:
        for s in f.blocks[bi]["stmts"]:
            if s["s"] == "assign" and s["rv"]["k"] == "agg" and s["rv"].get("variant") == variant:
                return bi
    return None


def prestep_flag_helper(L, P):
    """The interrupt test of the interpreter loop, when it lives in a helper called once per step (`if let Some(e) =
    reason_to_stop(env, session, ..) { restore; return Err(e) }`). Returns None when there is no such helper, else a dict
    {name, call_bb, problems: [...]} where `problems` is empty iff, inside the helper, (1) exactly one test of an
    Atomic<bool> (load, or swap(false)) dominates every return, (2) EvalError::Interrupted is built only on the true edge of
    that test, after a store(false) on that edge (or the swap), (3) no other store to an Atomic<bool> exists in the
    helper, (4) the true edge never produces the helper's `continue` result; and in eval (5) the call dominates the step
    and (6) the `stop` result cannot reach the step."""
    from . import dflow as D
    f = L.f
    for bi in sorted(L.pre_region):
        t = f.blocks[bi]["term"]
        if t["t"] != "call" or t.get("target") is None:
            continue
        gname = M.callee_name(t) or ""
        g = P.funcs.get(gname)
        if g is None:
            continue
        tests = []
        swap = False
        for sw in D.bool_switches(g):
            r = sw["root"]
            if r[0] != "call":
                continue
            n = M.callee_name(r[2]) or ""
            if n.endswith("::load") and "Atomic" in n:
                tests.append(sw)
            elif n.endswith("::swap") and "Atomic" in n and any((M.op_const(a) or {}).get("v") is False for a in r[2]["args"]):
                tests.append(sw)
                swap = True
        if not tests:
            continue
        probs = []
        rets = [b for b in g.reachable_blocks() if g.blocks[b]["term"]["t"] == "return"]
        if len(tests) != 1:
            probs.append("%d tests of the flag in %s (expected one)" % (len(tests), gname))
        sw = tests[0]
        if not all(g.dominates(sw["bb"], r) for r in rets):
            probs.append("%s can return without testing the flag" % gname)
        tre = D.edge_dominated(g, sw["bb"], sw["true"]) if sw["true"] is not None else set()
        ib_all = [b for b in g.reachable_blocks() for s_ in g.blocks[b]["stmts"]
                  if s_.get("s") == "assign" and s_["rv"]["k"] == "agg" and s_["rv"].get("variant") == "Interrupted"]
        if not ib_all:
            probs.append("%s never builds EvalError::Interrupted" % gname)
        if any(b not in tre for b in ib_all):
            probs.append("EvalError::Interrupted is built outside the true edge of the flag test")
        stores = [(b, g.blocks[b]["term"]) for b in g.reachable_blocks() if g.blocks[b]["term"]["t"] == "call"
                  and (M.callee_name(g.blocks[b]["term"]) or "").endswith("::store") and "Atomic" in (M.callee_name(g.blocks[b]["term"]) or "")]
        clears = [b for b, st in stores if b in tre and any((M.op_const(a) or {}).get("v") is False for a in st["args"])]
        if not swap and not (clears and all(any(g.dominates(c, ib) for c in clears) for ib in ib_all)):
            probs.append("the consumed interrupt is not cleared with store(false) before Interrupted is returned")
        if any(b not in tre for b, st in stores):
            probs.append("the flag is written outside the consumed-interrupt edge")
        # caller side
        if not f.dominates(bi, L.step_bb):
            probs.append("the call of %s does not dominate the step" % gname)
        dest = t["dest"]["l"]
        cont_names, stop_ok = None, True
        for esw in D.enum_switches(f):
            if esw["place"]["l"] == dest and not esw["place"]["p"]:
                allt = dict(esw["by_target"])
                if esw["otherwise_variants"]:
                    allt[esw["otherwise"]] = esw["otherwise_variants"]
                for tgt, names in allt.items():
                    if L.step_bb in D.reach_from(f, [tgt], avoid_blocks=[L.pop_bb]):
                        cont_names = set(names) if cont_names is None else cont_names | set(names)
        tb = D.try_continue_block(f, bi)
        if tb is not None:
            cont_names = {"Ok"}
        if cont_names is None:
            probs.append("the result of %s does not decide whether the step runs" % gname)
        else:
            made = [b for b in D.reach_from(g, [sw["true"]]) for s_ in g.blocks[b]["stmts"] if s_.get("s") == "assign"
                    and s_["rv"]["k"] == "agg" and s_["rv"].get("variant") in cont_names and not s_["place"]["p"] and s_["place"]["l"] == 0]
            if made:
                probs.append("the true edge of the flag test can return the `continue` result")
        return {"name": gname, "call_bb": bi, "problems": probs, "fn": g, "test_bb": sw["bb"]}
    return None
