"""Anchors inside eval::eval (the explicit-stack interpreter loop), located structurally."""
from . import mir as M
from . import dflow as D
from .panics import describe_operand, describe_place


class Loop:
    pass


def locate(P):
    f = P.require_fn("eval::eval")
    L = Loop()
    L.f = f
    # loop head: Vec::pop on <frame>.exprs_to_eval
    pops = []
    for bi, t in f.calls():
        n = M.callee_name(t) or ""
        if n.endswith("Vec::<T, A>::pop") and t["args"]:
            r = f.root_of(t["args"][0])
            if r[0] == "place" and r[1]["p"] and isinstance(r[1]["p"][-1], dict) and r[1]["p"][-1].get("name") == "exprs_to_eval":
                pops.append(bi)
    if len(pops) != 1:
        raise M.MissingAnchor("eval::eval: expected exactly one `exprs_to_eval.pop()` loop head, found %d" % len(pops))
    L.pop_bb = pops[0]
    pt = f.blocks[L.pop_bb]["term"]
    L.pop_dest = pt["dest"]["l"]
    sw_bb = pt["target"]
    sw = f.blocks[sw_bb]["term"]
    if sw["t"] != "switch":
        raise M.MissingAnchor("eval::eval: pop() result is not switched on directly")
    r = f.root_of(sw["discr"])
    if not (r[0] == "rv" and r[3]["rv"]["k"] == "discr" and r[3]["rv"]["place"]["l"] == L.pop_dest):
        raise M.MissingAnchor("eval::eval: switch after pop() is not on the pop result")
    some_v = [v for v, n in r[3]["rv"]["variants"] if n == "Some"][0]
    L.some_bb = None
    for v, b in sw["targets"]:
        if v == some_v:
            L.some_bb = b
    if L.some_bb is None:
        L.some_bb = sw["otherwise"]
    L.pop_switch_bb = sw_bb
    # the step: call eval::eval_expr
    cs = [bi for bi, t in f.calls() if M.callee_name(t) == "eval::eval_expr"]
    if len(cs) != 1:
        raise M.MissingAnchor("eval::eval: expected exactly one call of eval::eval_expr, found %d" % len(cs))
    L.step_bb = cs[0]
    # locals bound from the popped pair
    L.pair_locals = []
    for bi in f.rpo:
        for s in f.blocks[bi]["stmts"]:
            if s["s"] == "assign" and s["rv"]["k"] == "use" and not s["place"]["p"]:
                p = M.op_place(s["rv"]["a"])
                if p and p["l"] == L.pop_dest and p["p"] and isinstance(p["p"][0], dict) and p["p"][0].get("downcast") == "Some":
                    L.pair_locals.append(s["place"]["l"])
    # region between the pop and the step
    L.pre_region = D.reach_from(f, [L.some_bb], avoid_blocks=[L.step_bb])
    L.restore_bbs = [bi for bi, t in f.calls() if M.callee_name(t) == "eval::restore_stack_frame"]
    L.return_bbs = [bi for bi in f.reachable_blocks() if f.blocks[bi]["term"]["t"] == "return"]
    return L


def switches_described(f, region=None):
    out = []
    for bi in f.rpo:
        if region is not None and bi not in region:
            continue
        t = f.blocks[bi]["term"]
        if t["t"] == "switch":
            out.append((bi, describe_operand(f, t["discr"]), t))
    return out


def bool_edges(t):
    """(false_target, true_target) of a bool switch."""
    ft = None
    for v, b in t["targets"]:
        if v == 0:
            ft = b
    return ft, t["otherwise"]


def variant_edge(f, t, name):
    r = f.root_of(t["discr"])
    if r[0] == "rv" and r[3]["rv"]["k"] == "discr" and "variants" in r[3]["rv"]:
        for v, n in r[3]["rv"]["variants"]:
            if n == name:
                for tv, b in t["targets"]:
                    if tv == v:
                        return b
                return t["otherwise"]
    return None


def builds_variant(f, blocks, variant):
    for bi in blocks:
        for s in f.blocks[bi]["stmts"]:
            if s["s"] == "assign" and s["rv"]["k"] == "agg" and s["rv"].get("variant") == variant:
                return bi
    return None
