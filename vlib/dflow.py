"""Dataflow / CFG helpers shared by the rules."""
from collections import deque
from . import mir as M


def reach_from(f, starts, avoid_blocks=(), avoid_edges=()):
    """blocks reachable from `starts` along normal edges, never entering avoid_blocks
    and never taking avoid_edges."""
    avoid_blocks = set(avoid_blocks)
    avoid_edges = set(avoid_edges)
    seen = set()
    dq = deque()
    for s in starts:
        if s not in avoid_blocks and s not in seen:
            seen.add(s)
            dq.append(s)
    while dq:
        a = dq.popleft()
        for b in f.succ[a]:
            if b in seen or b in avoid_blocks or (a, b) in avoid_edges:
                continue
            seen.add(b)
            dq.append(b)
    return seen


_edge_cache = {}


def edge_dominated(f, a, b):
    """set of blocks that can only be reached from entry through the edge a->b."""
    # cached on the function object itself (ids of dead objects are reused when several properties run in one process)
    c = f.__dict__.setdefault("_edge_dom_cache", {})
    k = (a, b)
    if k not in c:
        without = reach_from(f, [0], avoid_edges=[(a, b)])
        c[k] = f.reachable_blocks() - without
    return c[k]


def block_dominated_strict(f, a):
    """blocks reachable only through block a (a itself excluded)."""
    without = reach_from(f, [0], avoid_blocks=[a]) if a != 0 else set()
    return f.reachable_blocks() - without - {a}


def enum_switches(f):
    """switch terminators on an enum discriminant: list of dicts."""
    if hasattr(f, "_enum_switches"):
        return f._enum_switches
    out = []
    for bi in f.rpo:
        t = f.blocks[bi]["term"]
        if t["t"] != "switch":
            continue
        r = f.root_of(t["discr"])
        if r[0] != "rv":
            continue
        rv = r[3]["rv"]
        if rv["k"] != "discr" or "variants" not in rv:
            continue
        names = {v: n for v, n in rv["variants"]}
        tg = {}
        for v, b in t["targets"]:
            tg.setdefault(b, []).append(names.get(v, str(v)))
        listed = {names.get(v, str(v)) for v, _ in t["targets"]}
        rest = [n for v, n in rv["variants"] if n not in listed]
        out.append({"bb": bi, "ety": rv["ety"], "place": rv["place"], "by_target": tg,
                    "otherwise": t["otherwise"], "otherwise_variants": rest})
    f._enum_switches = out
    return out


def arm_context(f, bb, ety_filter=None):
    """[(enum type, variant-names-tuple)] of enum-switch edges that dominate bb, outermost first."""
    ctx = []
    for sw in enum_switches(f):
        if ety_filter and not ety_filter(sw["ety"]):
            continue
        if not f.dominates(sw["bb"], bb):
            continue
        for tgt, names in sw["by_target"].items():
            if bb in edge_dominated(f, sw["bb"], tgt) :
                ctx.append((sw["ety"], tuple(sorted(names))))
                break
        else:
            o = sw["otherwise"]
            if o not in sw["by_target"] and bb in edge_dominated(f, sw["bb"], o) and sw["otherwise_variants"]:
                ctx.append((sw["ety"], tuple(sorted(sw["otherwise_variants"]))))
    return ctx


def short_ty(t):
    return t.replace("&", "").replace("mut ", "").split("::")[-1]


def arm_label(f, bb, enums=None):
    """compact label such as 'BuiltInFunctionKind::ShellRun' for the innermost matching enum arm."""
    ctx = arm_context(f, bb)
    if enums:
        ctx = [c for c in ctx if short_ty(c[0]) in enums]
    return "/".join("%s::%s" % (short_ty(e), "|".join(v)) for e, v in ctx)


def field_switches(f, field, adt=None):
    """bool switches whose discriminant is (a copy of) a place ending in .<field>.
    returns list of (bb, false_target, true_target)."""
    out = []
    for bi in f.rpo:
        t = f.blocks[bi]["term"]
        if t["t"] != "switch" or t["dty"] != "bool":
            continue
        r = f.root_of(t["discr"])
        if r[0] != "place":
            continue
        p = r[1]["p"]
        if not p:
            continue
        last = p[-1]
        if isinstance(last, dict) and last.get("name") == field and (adt is None or last.get("adt") == adt):
            false_t = None
            for v, b in t["targets"]:
                if v == 0:
                    false_t = b
            true_t = t["otherwise"]
            out.append((bi, false_t, true_t))
    return out


def bool_switches(f):
    """All bool switches with their condition resolved through `!`.
    Returns list of dicts {bb, root, true, false, span} where `root` is f.root_of() of the
    (un-negated) condition and true/false are the successor blocks for that condition."""
    if hasattr(f, "_bool_switches"):
        return f._bool_switches
    out = []
    for bi in f.rpo:
        t = f.blocks[bi]["term"]
        if t["t"] != "switch" or t["dty"] != "bool":
            continue
        ft = None
        for v, b in t["targets"]:
            if v == 0:
                ft = b
        tt = t["otherwise"]
        r = f.root_of(t["discr"])
        neg = False
        for _ in range(4):
            if r[0] == "rv" and r[3]["rv"]["k"] == "unop" and r[3]["rv"]["op"] == "Not":
                neg = not neg
                r = f.root_of(r[3]["rv"]["a"])
            else:
                break
        if neg:
            ft, tt = tt, ft
        out.append({"bb": bi, "root": r, "true": tt, "false": ft, "span": t["span"]})
    f._bool_switches = out
    return out


def call_switches(f, suffix, arg0_field=None):
    """bool switches whose condition is the result of a call to a callee ending in `suffix`
    (optionally: whose first argument is a place whose last named field is arg0_field)."""
    out = []
    for sw in bool_switches(f):
        r = sw["root"]
        if r[0] != "call":
            continue
        t = r[2]
        n = M.callee_name(t) or ""
        if not n.endswith(suffix):
            continue
        if arg0_field is not None:
            a = f.root_of(t["args"][0], through_named=True) if t["args"] else None
            if not a or a[0] != "place":
                continue
            fp = f.field_path(a[1])
            if not fp or not (fp[-1] == arg0_field or fp[-1].endswith("." + arg0_field)):
                continue
        out.append(dict(sw, call=t))
    return out


def calls_named(f, suffix, arg0_field=None, region=None):
    out = []
    for bi, t in f.calls():
        if region is not None and bi not in region:
            continue
        n = M.callee_name(t) or ""
        if not n.endswith(suffix):
            continue
        if arg0_field is not None:
            a = f.root_of(t["args"][0], through_named=True) if t["args"] else None
            if not a or a[0] != "place":
                continue
            fp = f.field_path(a[1])
            if not fp or not (fp[-1] == arg0_field or fp[-1].endswith("." + arg0_field)):
                continue
        out.append((bi, t))
    return out


def try_continue_block(f, call_bb):
    """For `call(...)?`: given the block of the call, return the block control continues in on
    the Ok/Some (Continue) edge of the `?`, or None if the shape is not recognised."""
    t = f.blocks[call_bb]["term"]
    if t["t"] != "call" or t["target"] is None:
        return None
    dest = t["dest"]["l"]
    cur = t["target"]
    for _ in range(4):
        tb = f.blocks[cur]["term"]
        if tb["t"] == "call" and (M.callee_name(tb) or "").endswith("::branch"):
            # argument must be the call result
            r = M.op_place(tb["args"][0]) if tb["args"] else None
            if r is None or r["l"] != dest or r["p"]:
                return None
            bres = tb["dest"]["l"]
            nb = tb["target"]
            sw = f.blocks[nb]["term"]
            if sw["t"] != "switch":
                return None
            rr = f.root_of(sw["discr"])
            if rr[0] != "rv" or rr[3]["rv"]["k"] != "discr" or rr[3]["rv"]["place"]["l"] != bres:
                return None
            for v, b in sw["targets"]:
                if v == 0:
                    return (nb, b)
            return None
        if tb["t"] == "goto":
            cur = tb["target"]
            continue
        return None
    return None


def const_int(f, op):
    r = f.root_of(op)
    if r[0] == "const" and "v" in r[1] and not isinstance(r[1]["v"], bool):
        return r[1]["v"]
    return None


def path_event_range(f, start, stops, events, avoid=()):
    """(min, max) number of event blocks on any path from `start` to a block in `stops`
    (the stop block itself is not counted, the start block is). Paths through `avoid` blocks
    are ignored. Returns None if the region between them contains a cycle (not a DAG) or no
    path reaches a stop."""
    stops = set(stops)
    events = set(events)
    avoid = set(avoid)
    memo = {}
    onstack = set()
    import sys
    sys.setrecursionlimit(max(10000, sys.getrecursionlimit()))

    class Cycle(Exception):
        pass

    def go(b):
        if b in stops:
            return (0, 0)
        if b in memo:
            return memo[b]
        if b in onstack:
            raise Cycle()
        onstack.add(b)
        lo, hi = None, None
        for s in f.succ[b]:
            if s in avoid:
                continue
            r = go(s)
            if r is None:
                continue
            lo = r[0] if lo is None else min(lo, r[0])
            hi = r[1] if hi is None else max(hi, r[1])
        onstack.discard(b)
        if lo is None:
            memo[b] = None
        else:
            e = 1 if b in events else 0
            memo[b] = (lo + e, hi + e)
        return memo[b]

    try:
        return go(start)
    except Cycle:
        return None


def event_ranges(f, weights, start=0, cap=3, avoid=()):
    """Forward interval dataflow. weights: {block: (lo, hi)} events contributed by executing that
    block. Returns {block: (lo, hi)} = range of the number of events on paths from `start` to the
    *end* of that block; hi saturates at `cap` (meaning 'cap or more'). Loops are handled by
    fixpoint iteration (an event inside a loop saturates hi)."""
    avoid = set(avoid)
    INF = 10 ** 9
    inn = {}
    out = {}
    order = [b for b in f.rpo if b not in avoid]
    reach = reach_from(f, [start], avoid_blocks=avoid)
    order = [b for b in order if b in reach]
    changed = True
    it = 0
    while changed and it < 200:
        changed = False
        it += 1
        for b in order:
            if b == start:
                lo, hi = 0, 0
                for p in f.pred[b]:
                    if p in out:
                        lo = min(lo, out[p][0])
                        hi = max(hi, out[p][1])
            else:
                lo, hi = INF, -1
                for p in f.pred[b]:
                    if p in out:
                        lo = min(lo, out[p][0])
                        hi = max(hi, out[p][1])
                if hi < 0:
                    continue
            w = weights.get(b, (0, 0))
            o = (min(lo + w[0], cap), min(hi + w[1], cap))
            if out.get(b) != o:
                out[b] = o
                changed = True
    return out


def natural_loops(f):
    """back edges (a -> h with h dominating a) and their loop bodies."""
    out = []
    for a in f.rpo:
        for h in f.succ[a]:
            if f.dominates(h, a):
                body = {h, a}
                st = [a]
                while st:
                    x = st.pop()
                    if x == h:
                        continue
                    for p in f.pred[x]:
                        if p not in body and p in f.idom:
                            body.add(p)
                            st.append(p)
                out.append((h, a, body))
    return out
